#!/bin/bash
# run.sh <ID> <quick|thorough>   — rebuild the harness against $VERIF_REPO's current tree and run one check
# run.sh replay <file>           — re-execute one recorded violation
# run.sh build                   — build only (used by setup)
set -u
cd "$(dirname "$0")"
. ./goenv.sh
WORK="${VERIF_WORK:-$VERIF_DIR/.work}"
export VERIF_WORK="$WORK"
mkdir -p "$WORK"
ID="${1:-}"; TIER="${2:-${VERIF_TIER:-quick}}"
if [ -z "$ID" ]; then echo "usage: run.sh <ID> <tier>" >&2; exit 2; fi

# module file pointing at the repo under test
MODF="$WORK/go.mod"
sed "s#=> /repo#=> $VERIF_REPO#" harness/go.mod > "$MODF.tmp.$$"
cp harness/go.sum "$WORK/go.sum.tmp.$$"
mv "$MODF.tmp.$$" "$WORK/go.$$.mod"; mv "$WORK/go.sum.tmp.$$" "$WORK/go.$$.sum"
trap 'rm -f "$WORK/go.$$.mod" "$WORK/go.$$.sum"' EXIT

needs_overlay() { case "$1" in C10|C12) return 0;; *) return 1;; esac; }

build() { # $1 = binary path, $2... extra flags
  local out="$1"; shift
  ( cd harness && go124 build -modfile="$WORK/go.$$.mod" "$@" -o "$out" ./cmd/vcheck ) 2> "$WORK/build.$$.log"
  local rc=$?
  if [ $rc -ne 0 ]; then
    echo "HARNESS-ERROR: build failed (tree does not compile with the harness):" >&2
    head -40 "$WORK/build.$$.log" >&2
    rm -f "$WORK/build.$$.log"
    exit 2
  fi
  rm -f "$WORK/build.$$.log"
}

BIN="$WORK/vcheck.$$"
trap 'rm -f "$WORK/go.$$.mod" "$WORK/go.$$.sum" "$BIN"' EXIT
case "$ID" in
  build)
    build "$BIN"
    exit 0;;
  replay)
    build "$BIN"
    "$BIN" replay "$2"; exit $?;;
esac
build "$BIN"
"$BIN" "$ID" "$TIER"
exit $?

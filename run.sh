#!/bin/bash
# run.sh <ID> <quick|thorough>   — rebuild the harness against $VERIF_REPO's current tree and run one check
# run.sh replay <file>           — re-execute one recorded violation
# run.sh build                   — build only (used by setup)
set -u
cd "$(dirname "$0")"
HERE="$(pwd)"
. ./goenv.sh
WORK="${VERIF_WORK:-$VERIF_DIR/.work}"
export VERIF_WORK="$WORK"
mkdir -p "$WORK"
ID="${1:-}"; TIER="${2:-${VERIF_TIER:-quick}}"
if [ -z "$ID" ]; then echo "usage: run.sh <ID> <tier>" >&2; exit 2; fi

# module file pointing at the repo under test
MODF="$WORK/go.mod"
sed "s#=> /repo#=> $VERIF_REPO#" harness/go.mod > "$MODF.tmp.$$"
cp harness/go.sum "$WORK/go.sum.tmp.$$"
mv "$MODF.tmp.$$" "$WORK/go.$$.mod"; mv "$WORK/go.sum.tmp.$$" "$WORK/go.$$.sum"
trap 'rm -f "$WORK/go.$$.mod" "$WORK/go.$$.sum"' EXIT

needs_overlay() { case "$1" in C10|C11|C12) return 0;; *) return 1;; esac; }
OVGEN_EXTRA=()

OVFLAGS=()
prepare_overlay() {
  ( cd harness && go124 build -o "$WORK/ovgen.$$" ./cmd/ovgen ) || { echo "HARNESS-ERROR: cannot build ovgen" >&2; exit 2; }
  "$WORK/ovgen.$$" -repo "$VERIF_REPO" -shim "$HERE/harness/zzvsync_src" -out "$WORK/ov.$$" "${OVGEN_EXTRA[@]}" > "$WORK/ovgen.$$.log" 2>&1 || { echo "HARNESS-ERROR: ovgen failed:" >&2; cat "$WORK/ovgen.$$.log" >&2; exit 2; }
  OVFLAGS=(-tags ovl -overlay "$WORK/ov.$$/overlay.json")
}

build() { # $1 = binary path, $2... extra flags
  local out="$1"; shift
  ( cd harness && go124 build -modfile="$WORK/go.$$.mod" "$@" -o "$out" ./cmd/vcheck ) 2> "$WORK/build.$$.log"
  local rc=$?
  if [ $rc -ne 0 ]; then
    echo "HARNESS-ERROR: build failed (tree does not compile with the harness):" >&2
    head -40 "$WORK/build.$$.log" >&2
    rm -f "$WORK/build.$$.log"
    exit 2
  fi
  rm -f "$WORK/build.$$.log"
}

BIN="$WORK/vcheck.$$"
trap 'rm -rf "$WORK/go.$$.mod" "$WORK/go.$$.sum" "$BIN" "$WORK/ov.$$" "$WORK/ovgen.$$" "$WORK/ovgen.$$.log" "$WORK/racepass.$$"' EXIT
case "$ID" in
  build)
    build "$BIN"
    exit 0;;
  replay)
    RP=$(jq -r .property "$2" 2>/dev/null)
    if needs_overlay "$RP"; then
      { [ "$RP" = C11 ] || [ "$RP" = C12 ]; } && OVGEN_EXTRA=(-stmtpoints)
      prepare_overlay; build "$BIN" "${OVFLAGS[@]}"
    else build "$BIN"; fi
    "$BIN" replay "$2"; exit $?;;
esac
if needs_overlay "$ID"; then
  { [ "$ID" = C11 ] || [ "$ID" = C12 ]; } && OVGEN_EXTRA=(-stmtpoints)
  prepare_overlay
  build "$BIN" "${OVFLAGS[@]}"
  if [ "$ID" = C12 ]; then
    # auxiliary free-running pass: the same scenario bodies, real sync, Go's race detector
    ( cd harness && go124 build -race -modfile="$WORK/go.$$.mod" -o "$WORK/racepass.$$" ./cmd/racepass ) 2> "$WORK/build.$$.log" || { echo "HARNESS-ERROR: cannot build the -race pass:" >&2; head -20 "$WORK/build.$$.log" >&2; exit 2; }
    rm -f "$WORK/build.$$.log"
    export VERIF_RACEPASS_BIN="$WORK/racepass.$$"
  fi
else
  build "$BIN"
fi
"$BIN" "$ID" "$TIER"
exit $?

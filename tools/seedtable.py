#!/usr/bin/env python3
import json, glob
print("| change | breaks | the change (author's one-line summary; details and trigger in seeded/<id>/README.md, meta.json) | repo tests | detected by (quick tier) |")
print("|---|---|---|---|---|")
for f in sorted(glob.glob('/verif/seeded/*/meta.json')):
    m = json.load(open(f))
    short = m.get('summary') or m['needs_to_manifest'].replace('\n', ' ')[:140]
    det = ', '.join(('**%s**' % d if d == m['breaks_property'] else d) for d in m['detected_by'])
    print(f"| {m['id']} | {m['breaks_property']} | {short} | pass | {det or 'MISSED'} |")

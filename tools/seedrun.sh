#!/bin/bash
# seedrun.sh [name...] — the brief's procedure for each kept change: apply it to /repo, run the target
# property's quick check (and every other check recorded as detecting it), undo it straight afterwards.
# Results go to seeded/<name>/meta.json ("confirmed_on_repo"). Evidence files are restored afterwards.
cd /verif
names="${*:-$(ls seeded)}"
for n in $names; do
  d=seeded/$n; [ -f $d/patch.diff ] || continue
  pid=${n%_*}
  checks=$(python3 -c "import json; m=json.load(open('$d/meta.json')); print(' '.join(sorted(set(['$pid']+m.get('detected_by',[])))))")
  git -C /repo apply "$PWD/$d/patch.diff" || { echo "$n: patch does not apply"; continue; }
  res=""
  for id in $checks; do
    ./run.sh $id quick > /tmp/seedrun.$n.$id.out 2>&1; rc=$?
    res="$res $id:$rc"
  done
  git -C /repo checkout -- .
  git -C /repo status --short | grep -q . && echo "WARNING: /repo not clean after $n"
  python3 - "$d/meta.json" "$res" <<'PY'
import json,sys
m=json.load(open(sys.argv[1])); r={}
for t in sys.argv[2].split():
    k,v=t.split(':'); r[k]=int(v)
m['confirmed_on_repo']={'procedure':'git -C /repo apply patch.diff; ./run.sh <id> quick; git -C /repo checkout -- .','exit_codes':r}
m['detected_by']=sorted(k for k,v in r.items() if v==1)
m['target_check_detects']=r.get(m['breaks_property'])==1
json.dump(m,open(sys.argv[1],'w'),indent=1)
PY
  echo "$n:$res"
done
git checkout -- evidence 2>/dev/null

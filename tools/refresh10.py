#!/usr/bin/env python3
"""Rewrites the 'measured' and 'wall' cells of the DESIGN.md §10 table from evidence/Cnn.json (quick tier)."""
import json, re
def fmt(n):
    n = int(n)
    if n >= 10_000_000: return f"{n/1e6:.0f} M"
    if n >= 1_000_000: return f"{n/1e6:.1f} M"
    if n >= 10_000: return f"{n/1e3:.0f} k"
    if n >= 1_000: return f"{n/1e3:.1f} k"
    return str(n)
s = open('DESIGN.md').read()
out = []
for line in s.split('\n'):
    m = re.match(r'^\| (C\d\d) \| ', line)
    if m and line.count('|') >= 6:
        pid = m.group(1)
        try:
            e = json.load(open(f'evidence/{pid}.json'))
        except Exception:
            out.append(line); continue
        if e.get('tier') != 'quick':
            out.append(line); continue
        cov = e['coverage']
        cells = line.split(' | ')
        meas = f"{fmt(cov['evaluations'])} evaluations ({fmt(cov['distinct_nontrivial'])} distinct)"
        if cov.get('states'):
            meas += f", {fmt(cov['states'])} states, {fmt(cov['transitions'])} transitions"
        w = e.get('wall_s', 0)
        wall = "<1 s" if w < 1 else f"{w:.0f} s"
        cells[-2] = meas
        cells[-1] = wall + " |"
        line = ' | '.join(cells)
    out.append(line)
open('DESIGN.md', 'w').write('\n'.join(out))

#!/bin/bash
# evalall.sh — evaluate every delivered sub-agent mutant, one at a time, until /tmp/evalout/STOP exists.
# Check set per mutant: its target check, the checks related to it, and every cheap check.
mkdir -p /tmp/evalout
CHEAP="C03 C05 C07 C08 C09 C10 C13 C14 C15 C16 C17 C18 C19 C20"
related() { case "$1" in
  C01) echo "C01 C02 C04 C11";; C02) echo "C02 C01";; C03) echo "C03 C04 C01";; C04) echo "C04";; C06) echo "C06";;
  C09) echo "C09 C02";; C10) echo "C10 C01";; C11) echo "C11 C01";; C12) echo "C12";; C20) echo "C20 C01";; *) echo "$1";; esac; }
while [ ! -f /tmp/evalout/STOP ]; do
  did=0
  for d in /tmp/mut/C*/mutant_[ab] /tmp/mut2/C*/mutant_[ab] /tmp/mut3/C*/mutant_[ab] /tmp/mut4/C*/mutant_[ab]; do
    [ -f "$d/patch.diff" ] && [ -f "$d/README.md" ] && ls "$d"/zz_demo_*_test.go >/dev/null 2>&1 || continue
    pid=$(basename $(dirname $d))
    ab=$(basename $d | sed 's/mutant_//')
    case "$d" in /tmp/mut2/*) ab=$(echo $ab | tr ab cd);; /tmp/mut3/*) ab=$(echo $ab | tr ab ef);; /tmp/mut4/*) ab=$(echo $ab | tr ab gh);; esac   # round 2: a->c, b->d; round 3: a->e, b->f
    name=${pid}_$ab
    [ -f /tmp/evalout/$name/result.json ] && continue
    set=$(echo "$(related $pid) $CHEAP" | tr ' ' '\n' | awk '!s[$0]++' | tr '\n' ' ')
    /verif/tools/evalmut.sh "$d" "$name" $set > /tmp/evalout/$name.log 2>&1
    did=1
    [ -f /tmp/evalout/STOP ] && break
  done
  [ $did -eq 0 ] && sleep 30
done

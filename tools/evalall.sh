#!/bin/bash
# evalall.sh — evaluate every delivered sub-agent mutant (full check matrix), one at a time, until /tmp/evalout/STOP exists
mkdir -p /tmp/evalout
while [ ! -f /tmp/evalout/STOP ]; do
  did=0
  for d in /tmp/mut/C*/mutant_[ab]; do
    [ -f "$d/patch.diff" ] && [ -f "$d/README.md" ] && ls "$d"/zz_demo_*_test.go >/dev/null 2>&1 || continue
    name=$(basename $(dirname $d))_$(basename $d | sed 's/mutant_//')
    [ -f /tmp/evalout/$name/result.json ] && continue
    /verif/tools/evalmut.sh "$d" "$name" > /tmp/evalout/$name.log 2>&1
    did=1
  done
  [ $did -eq 0 ] && sleep 30
done

#!/usr/bin/env python3
"""Assemble /verif/seeded/<name>/ from evaluated sub-agent mutants (/tmp/mut, /tmp/evalout)."""
import json, glob, os, shutil, re
for rf in sorted(glob.glob('/tmp/evalout/*/result.json')):
    try:
        r = json.load(open(rf))
    except Exception:
        continue
    name = r['name']
    pid, ab = name.split('_')
    src = f'/tmp/mut/{pid}/mutant_{ab}' if ab in 'ab' else (f'/tmp/mut2/{pid}/mutant_{chr(ord(ab)-2)}' if ab in 'cd' else (f'/tmp/mut3/{pid}/mutant_{chr(ord(ab)-4)}' if ab in 'ef' else (f'/tmp/mut4/{pid}/mutant_{chr(ord(ab)-6)}' if ab in 'gh' else (f'/tmp/mut5/{pid}/mutant_{chr(ord(ab)-8)}' if ab in 'ij' else (f'/tmp/mut6/{pid}/mutant_{chr(ord(ab)-10)}' if ab in 'kl' else f'/tmp/mut7/{pid}/mutant_{chr(ord(ab)-12)}')))))
    if not os.path.isdir(src):
        continue
    valid = r['apply'] == 0 and r['suite_with_mutant'] == 0 and r['demo_clean'] == 0 and r['demo_with_mutant'] != 0
    if not valid:
        print('REJECTED', name, {k: r[k] for k in ('apply', 'suite_with_mutant', 'demo_clean', 'demo_with_mutant')})
        continue
    dst = f'/verif/seeded/{name}'
    os.makedirs(dst, exist_ok=True)
    shutil.copy(src + '/patch.diff', dst + '/patch.diff')
    demo = glob.glob(src + '/zz_demo_*_test.go')[0]
    shutil.copy(demo, dst + '/' + os.path.basename(demo))
    shutil.copy(src + '/README.md', dst + '/README.md')
    readme = open(src + '/README.md').read()
    m = re.search(r'(?is)(what (is|it) need[^\n]*|needs? to manifest[^\n]*|trigger[^\n]*)(.*?)(\n\*\*|\n#|\Z)', readme)
    needs = (m.group(0).strip()[:900] if m else readme[:600])
    det = sorted(k for k, v in r['checks'].items() if v['rc'] == 1)
    ran = sorted(r['checks'].keys())
    meta = {
        'id': name, 'breaks_property': pid, 'origin': 'independent sub-agent given only the property text and a scratch worktree' + ('' if ab in 'ab' else (' (round 2: also told the two round-1 ideas for this property, to force different mechanisms)' if ab in 'cd' else (' (round 3: told the four earlier ideas for this property and asked for code paths none of them touch)' if ab in 'ef' else (' (round 4: told the six earlier ideas and pointed at unusual API usage, size constants, error paths, rare type shapes and sub-package interactions)' if ab in 'gh' else (' (round 5: told the eight earlier ideas and asked for what a systematic checker built from the property text would plausibly not vary)' if ab in 'ij' else (' (round 6: told the ten earlier ideas and pointed at what oracles normalise away, rare schema and Go type features, extreme arguments, second use of objects, cleanup paths)' if ab in 'kl' else ' (round 7: told the twelve earlier ideas and pointed at interactions between features, quantities crossing internal thresholds, silently taken defaults, things computed once and reused, conversions, and ordering between two writes that belong together)')))))),
        'needs_to_manifest': needs,
        'validation': {'patch_applies_on_/repo_HEAD': True, 'existing_suite_passes_with_change': True,
                       'demo_test': r['demo_test'], 'demo_package_dir': r['demo_pkg'], 'demo_passes_without_change': True, 'demo_fails_with_change': True,
                       'how': 'tools/evalmut.sh in a scratch worktree of /repo HEAD: go test -run <demo> without the patch (pass), git apply, go build + go test ./... (pass), go test -run <demo> (fail)'},
        'checks_run_quick_tier': ran, 'detected_by': det,
        'first_signature': {k: v['first_sig'] for k, v in r['checks'].items() if v['rc'] == 1},
        'target_check_detects': pid in det,
    }
    old = dst + '/meta.json'
    if os.path.exists(old):
        try:
            o = json.load(open(old))
            for k in ('confirmed_on_repo', 'strengthening'):
                if k in o: meta[k] = o[k]
        except Exception:
            pass
    json.dump(meta, open(old, 'w'), indent=1)
    print('kept', name, 'detected_by', det, '' if pid in det else '  <-- TARGET CHECK MISSES')

#!/bin/bash
# evalmut.sh <mutant-dir> <name> [check ids...]
# Validates an independently written mutant (patch.diff + demo test) in a scratch worktree and runs
# checks against the patched scratch tree (VERIF_REPO), leaving /repo and /verif/evidence untouched.
# Output: /tmp/evalout/<name>/result.json
set -u
MD="$1"; NAME="$2"; shift 2
CHECKS="${*:-C01 C02 C03 C04 C05 C06 C07 C08 C09 C10 C11 C12 C13 C14 C15 C16 C17 C18 C19 C20}"
. /verif/goenv.sh
WT=/tmp/evalwt.$NAME; OUT=/tmp/evalout/$NAME
rm -rf "$OUT"; mkdir -p "$OUT"
git -C /repo worktree remove --force "$WT" 2>/dev/null
git -C /repo worktree add -q --detach "$WT" HEAD || exit 2
cp /verif/known_findings.json "$OUT/"
DEMO=$(ls "$MD"/zz_demo_*_test.go 2>/dev/null | head -1)
PKG=$(head -3 "$DEMO" 2>/dev/null | grep -o "'[a-z.]*'" | head -1 | tr -d "'")
[ -z "$PKG" ] && PKG=$(grep -q '^package time' "$DEMO" 2>/dev/null && echo time || (grep -q '^package null' "$DEMO" 2>/dev/null && echo null || echo .))
TESTNAME=$(grep -o 'func TestDemo[A-Za-z0-9]*' "$DEMO" | head -1 | sed 's/func //')
res() { echo "$1" >> "$OUT/log.txt"; }
# 1. demo passes on the unmodified tree
cp "$DEMO" "$WT/$PKG/"
( cd "$WT/$PKG" && go124 test -count=1 -run "^$TESTNAME\$" . ) > "$OUT/demo_clean.txt" 2>&1; DEMO_CLEAN=$?
rm -f "$WT/$PKG/$(basename "$DEMO")"
# 2. patch applies; suite passes with it
( cd "$WT" && git apply "$MD/patch.diff" ) > "$OUT/apply.txt" 2>&1; APPLY=$?
( cd "$WT" && go124 build ./... && go124 test -count=1 ./... ) > "$OUT/suite_mut.txt" 2>&1; SUITE=$?
# 3. demo fails with the patch
cp "$DEMO" "$WT/$PKG/"
( cd "$WT/$PKG" && go124 test -count=1 -run "^$TESTNAME\$" . ) > "$OUT/demo_mut.txt" 2>&1; DEMO_MUT=$?
rm -f "$WT/$PKG/$(basename "$DEMO")"
echo "{\"name\":\"$NAME\",\"apply\":$APPLY,\"suite_with_mutant\":$SUITE,\"demo_clean\":$DEMO_CLEAN,\"demo_with_mutant\":$DEMO_MUT,\"demo_pkg\":\"$PKG\",\"demo_test\":\"$TESTNAME\",\"checks\":{" > "$OUT/result.json"
first=1
if [ $APPLY -eq 0 ] && [ $SUITE -eq 0 ]; then
  for id in $CHECKS; do
    VERIF_REPO="$WT" VERIF_DIR="$OUT" VERIF_WORK="$OUT/work" timeout 1800 /verif/run.sh $id quick > "$OUT/$id.out" 2>&1; rc=$?
    nv=$(grep -ac '^VIOLATION' "$OUT/$id.out")
    sig=$(grep -a -A1 '^VIOLATION' "$OUT/$id.out" | grep -a 'sig:' | head -1 | sed 's/.*sig: //; s/"/\\"/g' | cut -c1-160)
    [ $first -eq 0 ] && echo "," >> "$OUT/result.json"; first=0
    echo -n "\"$id\":{\"rc\":$rc,\"violations\":$nv,\"first_sig\":\"$sig\"}" >> "$OUT/result.json"
  done
fi
echo "}}" >> "$OUT/result.json"
git -C /repo worktree remove --force "$WT"
rm -rf "$OUT/work"
cat "$OUT/result.json"

#!/bin/bash
# seedrun1.sh [name...] — seedrun.sh restricted to the TARGET property's quick check (plus, when the recorded
# evaluation says the target check does not report the change, the checks that do): apply to /repo, run, undo.
# The other detecting checks keep their result from the scratch-worktree evaluation (tools/evalmut.sh).
cd /verif
for n in "$@"; do
  d=seeded/$n; [ -f $d/patch.diff ] || continue
  pid=${n%_*}
  checks=$(python3 -c "import json; m=json.load(open('$d/meta.json')); print(' '.join(sorted(set(['$pid']+([] if '$pid' in m.get('detected_by',[]) else m.get('detected_by',[]))))))")
  git -C /repo apply "$PWD/$d/patch.diff" || { echo "$n: patch does not apply"; continue; }
  res=""
  for id in $checks; do
    ./run.sh $id quick > /tmp/seedrun.$n.$id.out 2>&1; rc=$?
    res="$res $id:$rc"
  done
  git -C /repo checkout -- .
  git -C /repo status --short | grep -q . && echo "WARNING: /repo not clean after $n"
  python3 - "$d/meta.json" "$res" <<'PY'
import json,sys
m=json.load(open(sys.argv[1])); r={}
for t in sys.argv[2].split():
    k,v=t.split(':'); r[k]=int(v)
m['confirmed_on_repo']={'procedure':'git -C /repo apply patch.diff; ./run.sh <id> quick; git -C /repo checkout -- . (target check; the other detecting checks were run against a scratch worktree by tools/evalmut.sh)','exit_codes':r}
det=set(m.get('detected_by',[]))
for k,v in r.items():
    (det.add if v==1 else det.discard)(k)
m['detected_by']=sorted(det)
m['target_check_detects']=r.get(m['breaks_property'])==1
json.dump(m,open(sys.argv[1],'w'),indent=1)
PY
  echo "$n:$res"
done
git checkout -- evidence 2>/dev/null

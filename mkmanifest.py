#!/usr/bin/env python3
"""Regenerates MANIFEST.json from the table below (kept valid at all times)."""
import json, sys

BASELINE_OFF = ("cd /repo && export GOFLAGS=-mod=mod GOPROXY=off && "
                "go test -json -vet=off -count=1 -timeout 25m ./...")

# id -> (built?, category, technique, text, note, design_ref)
CHECKS = {
 "C17": (True, "exploration", "bounded-exhaustive enumeration of primitive values and candidate varints against a reference codec",
         "Exhaustive enumeration (every int16, int32 range / all int32 in thorough, all float32 bit patterns in thorough, structured int64/float64 boundary sets, every short byte string as varint input) of the real public primitive codecs, each compared byte-for-byte and value-for-value with an independent zig-zag/IEEE reference written from the spec. The domain is finite and small enough to enumerate, so enumeration rather than sampling is the right level.",
         "Trusts the reference varint codec (self-checked at setup); int64/float64 are covered on boundary sets only.", "DESIGN.md §4 C17"),
}
CHECKS.update({
 # NEW-ENTRIES-HERE
 "C11": (True, "model_checking", "exhaustive enumeration of garbage-collection placements (bounded number of injected collections) over interception points generated before every statement of the decode/encode path (build overlay) and inside an instrumented probe codec, with GOGC=off and clobberfree so that collections are owned by the explorer",
         "GC timing is the nondeterminism here, so the harness owns it: workers run with GOGC=off and GODEBUG=clobberfree=1; the library is rebuilt with a generated overlay that calls a hook before EVERY statement of every function, and an instrumented leaf type registered as a custom codec adds points inside every composite being decoded or encoded. For each of ~160 composite types (maps/slices/pointers of depth <=2 with probes inside and after), in four decode variants (banks kept / dropped unclosed / recycled from the pool / collections rewritten one item per block by the reference writer, so slices and maps grow while holding items), every placement of at most 1 (2 thorough) injected collection + heap churn is executed; retained shallow copies must equal the written values after further collections and the encoded datum must equal the collection-free run. A mis-tracked object fails deterministically instead of 'sometimes after churn'.",
         "Collections are placed between statements, not between the machine instructions of one statement; quick tier uses the first occurrence of each static point in the main variant.", "DESIGN.md §4 C11"),
 "C12": (True, "model_checking", "stateless model checking of the real code under a cooperative scheduler (preemption-bounded exploration of all schedules by prefix replay) with vector-clock happens-before checking of generated access hooks; auxiliary free-running -race pass",
         "The library is rebuilt (go build -overlay) with sync replaced by a scheduler shim and with generated read/write hooks on package-level variables and pointer-receiver objects. Thirteen scenarios (three threads; one of two) that are made to collide on the registries (incl. a registered builder that re-enters the codec builder while another thread registers: RWMutex modelled with writer preference), the bank pool (incl. a ReadFile abandoned from a callback that closed its bank), shared codecs and the timezone cache are explored over all schedules with at most 2 (3 thorough) preemptions at synchronisation granularity, and again with every hooked access as a scheduling point; every Pool.Get answer is a choice; executions are independent (registries and caches are reset by generated hooks) and reproducible (a divergence while replaying a prefix is a hard harness error). Each schedule is checked for unordered conflicting accesses, deadlock and result equivalence with a sequential order. The same bodies also run free on 16 goroutines under Go's race detector.",
         "Sequentially consistent interleavings; syntactic instrumentation (errs towards 'read'); -race pass is sampling and auxiliary only.", "DESIGN.md §4 C12"),
 "C10": (True, "model_checking", "explicit-state BFS over real ResourceBank/ReadBuf operation sequences with pool recycling as an explored choice (sync shim via build overlay), shadow-heap model; exhaustive retention policies over ReadFile",
         "The library is rebuilt with its sync import replaced by a shim whose Pool.Get answer is chosen by the explorer, so recycling of banks is enumerated instead of left to the runtime. Bank level: BFS over operation sequences (depth 6/7) on the real banks with a shadow heap checked after every step (zeroed, disjoint, intact). File level: every retention/close policy of the callback over 4-record multi-block files of each codec (map values of the same types as pointer targets; two record orders), with pool answers explored to a deviation bound; retained shallow copies must stay equal to deep copies while their bank is open.",
         "API misuse excluded; fill-level classes in the canonical state; shim pool is a superset of sync.Pool behaviour.", "DESIGN.md §4 C10"),
 "C20": (True, "model_checking", "explicit-state exploration of registration histories on the real global registries with a 'last registration wins' model; instrumented codecs; exhaustive positions",
         "Registration histories over {Register(f1), Register(f2), RegisterSchema(s1), RegisterSchema(s2)} are explored from the unregistered state (fresh generic named types) and from carried-over states up to depth 3 (4 thorough) for custom types of three kinds; after every operation the type is used at 11 positions and the schema shown, the builder consulted, the codec actually run for every occurrence (invocation counters and a wire marker), validity under the reference decoder and codec/file round trips are compared with the model. Controls: never-registered look-alikes and the library's own registrations at every position and as siblings of one record; histories over {time.RegisterCodecs, null.RegisterCodecs, application registers time.Time, application registers null.Int} with a per-type 'most recent registration for that type governs' model.",
         "Registrations cannot be undone (state carried within a worker); custom builders accept string/long schemas only.", "DESIGN.md §4 C20"),
 "C06": (True, "fault_enumeration", "exhaustive single-field mutation, truncation and byte-replacement enumeration plus all short byte strings, on five reading entry points, in isolated workers with an allocation meter and a watchdog",
         "For every reading entry point (Codec.Read and Codec.Skip of ~50 codecs, ReadFile, SchemaFromString followed by Schema.Codec and a decode, timestamp text) three input families are enumerated completely: every byte string up to a length bound, every single-field mutation (20 boundary values) / truncation / byte replacement of every valid encoding, file, schema document and timestamp of a base family, and named structural cases. Each call must return without panic, without killing or stalling the worker, and with heap allocation (runtime/metrics) within 1 MiB + 1024 x input length. ~9.5 million distinct inputs in the quick tier.",
         "Loose linear allocation bound; watchdog-based non-termination; zero-size-item floods outside the claim except for the recorded known finding.", "DESIGN.md §4 C06"),
 "C05": (True, "exploration", "exhaustive schema-type x Go-kind x position matrix with canary/guard memory around every destination, isolated workers",
         "The complete matrix of 24 schema nodes x 55 Go types x 4 positions (8 thorough) is enumerated: an unsound pair (per a soundness table written from the documented mapping) must be refused when the decoder is built; for every pair that builds, every in-range and out-of-range datum is decoded into a destination surrounded by canary fields, guard array elements and canary-patterned spare slice capacity, which must stay byte-identical, and the field must hold the reference value. The matrix is finite, so it is covered completely; worker isolation turns memory faults into attributed violations.",
         "Corruption beyond the guards that does not crash is unobserved; sound pairs the library refuses are not judged.", "DESIGN.md §4 C05"),
 "C03": (True, "exploration", "bounded-exhaustive enumeration of (schema, datum, every legal serialisation, file-block partition, codec, compatible target) on reference-written files",
         "Files are produced by an independent reference writer whose choice-driven encoder enumerates EVERY legal serialisation of a datum (all block splits of arrays/maps, with and without byte sizes, null in either union position); every schema of depth <=2 (3 thorough), every datum of a bounded alphabet and every compatible Go target (pointer indirection, integer/float width, wrappers) are crossed; multi-record files cover every partition into file blocks and the three codecs; streaming use (callback closes the bank at once / one record later) over every sequence of <=6 records of 5 allocation shapes exercises recycled banks. Values must equal the reference mapping; an integer that does not fit must yield an error and no callback.",
         "Depth and collection-size bounds; quick caps encodings per datum at 64 (reported); floats only where exactly representable.", "DESIGN.md §4 C03"),
 "C04": (True, "exploration", "bounded-exhaustive enumeration of projections (field subsets x permutations x added fields) over reference-written files, plus Skip-vs-Read consumption equality on every legal encoding",
         "Codec level: for every schema node and every legal serialisation, the bytes consumed by Read, by the record skip path and by Codec.Skip must equal the reference decoder's. File level: for every ordered pair of an 18-schema pool (incl. size-prefixed multi-block collections, unions, fixed, nested records) every projection of the target struct is read and the remaining fields compared with the reference mapping; a 130-branch union (two-byte selectors) is skipped with every branch selected; a mis-sized skip also trips the block's sync check.",
         "Pool of 18 field schemas, 2 data fields + sentinel per record, two nesting levels.", "DESIGN.md §4 C04"),
 "C13": (True, "exploration", "bounded-exhaustive enumeration of (caller schema, covering Go type, value) triples; reference decoder as oracle for Write, reference mapping for Read",
         "Every schema of nesting depth <=2 (3 thorough) over the supported leaves (incl. logical date/timestamps and null in either union position) is paired with every compatible Go field type (integer and float widths, pointers, null.* wrappers, time.Time) and every value of a bounded alphabet; when Schema.Codec builds, the bytes Write produces must decode under the reference decoder, with nothing left over, to the datum the value denotes, and Read of those bytes must return the value. 17k distinct triples in the quick tier.",
         "Only null+one-type unions are written; depth bound; times under long schemas restricted to the int64-nanosecond range.", "DESIGN.md §4 C13"),
 "C01": (True, "exploration", "bounded-exhaustive enumeration of (struct type, value sequence, codec, block size, flush pattern, reader chunking) through the real encoder and reader",
         "Small-scope exhaustive exploration: 900+ probe struct types (all type expressions of depth <=2 over 16 leaves and 4 wrappers; the depth<=1 ones as generated static types through the real generic Encoder[T]) x every value sequence of length <=2 over the full value alphabet and every length-3 sequence over representatives x 3 codecs x 4 block sizes x every flush subset, read back through ReadFile into T and *T under three reader behaviours, each record compared both as deep-copied at delivery and as the struct copy the caller still holds when ReadFile returns; canary fields around the probe field expose out-of-field loads/stores. Every small shape is visited, which is what finds the breaking type shapes the suite does not sample.",
         "Depth/size bounds (small-scope hypothesis); dynamic types use an API-level emulation of the 20-line Encoder.", "DESIGN.md §4 C01"),
 "C02": (True, "exploration", "same bounded-exhaustive case space as C01, judged by an independent reference container parser / decoder written from the spec",
         "Every output file of the C01 case space is parsed by a reference container parser (exact counts and sizes, reference decompressors, sync), its embedded schema by a reference JSON parser, and each block is decoded under that schema alone with zero leftover bytes and compared (including union branches) with the datum the documented mapping assigns to the written Go value. Mirrored encode/decode errors are visible because the oracle shares no code with the library.",
         "Trusts ref (self-checked at setup) and the abstraction function gv.ToDatum; empty non-nil omitempty collections may be null or non-null.", "DESIGN.md §4 C02"),
 "C14": (True, "exploration", "bounded-exhaustive enumeration of schema ASTs x key orders x layouts x extra attributes; reference JSON parser/printer as oracle",
         "Every schema AST up to nesting depth 2 (3 in thorough) over all supported attributes is rendered under 24 key orderings, 3 layouts and with 18 kinds of extra attribute at every object (9 of them look-alikes of supported attributes differing only in case or punctuation), also through the file-header path (FileSchema); the parse result is compared structurally with the expected schema, Marshal output is validated with encoding/json, re-parsed by an independent parser and by the library (round-trip identity); after every document the result is overwritten in place and the same document parsed again (parsing is a function of the document alone); every truncation / structural-token deletion or duplication of the small documents must be rejected.",
         "Depth bound; nil/empty Object and slices identified; malformed = rejected by encoding/json.", "DESIGN.md §4 C14"),
 "C15": (True, "exploration", "bounded-exhaustive enumeration of Go struct types against the documented mapping written as a total specification function; worker isolation for non-termination",
         "~1,600 struct types (84 field types x 15 tag combinations, multi-field shapes, nested wrappers, embedded fields, repeated named structs, 7 self-referential shapes; all ordered pairs in thorough) are given to SchemaForType; the result must equal the documented mapping (spec.SchemaFor), be structurally valid, be deterministic (also after the caller has overwritten the first result, and across every history <=3 of generate / register-schema steps on fresh types), and Schema.Codec on it must return without panic; self-referential types run in their own worker with a bounded stack so non-termination is observed as a violation.",
         "Go arrays and duplicate JSON names are not judged (mapping silent); anonymous structs exempt from the named-type rule.", "DESIGN.md §4 C15"),
 "C18": (True, "exploration", "bounded-exhaustive grammar-product enumeration of timestamp strings through the public decode path, standard library as oracle",
         "An exhaustive product over the RFC 3339 grammar (calendar/time grid x every fraction digit string up to length 10/12 over a 2/3-digit alphabet x separators x 11 zones), all date-only strings of the grid, a format->parse identity sweep and every truncation / single-character mutation of six valid timestamps, all pushed through the real codec (string field -> time.Time / null.Time) from one reused buffer, plus every ordered pair of 38 and triple of 8 valid timestamps as decode histories. Whenever the string matches the grammar and time.Parse accepts it, instant and offset must agree; no string may panic.",
         "Oracle is time.Parse(RFC3339) restricted to the RFC 3339 grammar; digit alphabets are bounded.", "DESIGN.md §4 C18"),
 "C19": (True, "exploration", "exhaustive enumeration of stored integers (all int32 days in thorough) and structured time sets through the real logical-type codecs, independent arithmetic as oracle",
         "Read direction: every int32 day count (thorough; |d|<=2^20 + boundaries quick) and 2^k±δ longs inside the int64-nanosecond range for timestamp-millis/-micros/plain long; write direction: base times x 31 offsets and every day boundary around the epoch; and the type in every position of a record (two pointers, slice, map, both nullable unions) over pairs of consecutive records. Each is compared with time.Unix/UnixMilli/UnixMicro and floor division.",
         "Long domains on boundary sets only; floor-to-resolution interpretation of the write clause.", "DESIGN.md §4 C19"),
 "C07": (True, "fault_enumeration", "exhaustive single-bit damage enumeration over a reference-written file family, plus callback-failure points and metadata variants",
         "Every bit of every sync marker, snappy CRC, compressed payload byte and of the magic is flipped, one at a time, in every file of a family (3 schemas x 3 codecs x every block composition of <=3 records) written by an independent reference writer; the callback is failed at every record index; metadata variants cover missing schema / absent and unknown codec. The oracle is the reference parser and the reference decompressors. The corruption space of a small file is finite, so it is enumerated completely rather than sampled.",
         "Payload flips the reference decompressor accepts are counted but not judged (the statement only covers rejected blocks).", "DESIGN.md §4 C07"),
 "C08": (True, "fault_enumeration", "exhaustive crash-point enumeration: every cut position of every family file x reader chunking behaviour",
         "Every prefix (cut position 0..len) of every file of the reference-written family is read under three reader behaviours (full reads, 1-byte reads, data together with EOF); delivered records must be exactly those of the blocks whose payload is completely present and success is allowed only at the end of the header or of a block, as computed from the reference layout. Crash points of a short file are finite and are all visited.",
         "Family of small files (<=3 records, 5 thorough; 1..200-byte records; one 70-record block); reference layout defines completeness.", "DESIGN.md §4 C08"),
 "C09": (True, "model_checking", "explicit-state BFS over encoder call histories on the real Encoder[T], lock-step reference model, all traces replayed on the implementation",
         "Explicit-state search over every encode/flush history up to a depth bound (6 quick / 8 thorough; 8/12 for the zero-byte record), for 9 block sizes x 3 codecs, executed on the real Encoder[T]; after every call the complete output is parsed by an independent container parser and compared with a lock-step model (list of pending records). The property quantifies over call histories of a small state machine, which is exactly what bounded explicit-state search decides.",
         "Record sizes from a 4-element alphabet; depth bound; state canonicalisation argument in the evidence assumptions; reference parser/decompressors trusted.", "DESIGN.md §4 C09"),
 "C16": (True, "fault_enumeration", "exhaustive enumeration of (call history, failing write index, short-write mode) on the real encoder over a fault-injecting io.Writer",
         "For every encoder history up to length 4 (6 thorough) and every FileWriter block sequence, every write index at which the io.Writer can fail is enumerated with four accept modes (0, 1, len-1, all bytes — an error with a full count is legal) x {persistent, transient}, and through a sink type that also has Flush/Sync/Close/WriteString; the triggering call must return an error wrapping the injected one, and the accepted bytes must be a prefix of the fault-free run re-keyed to the same sync marker. The fault space of a history is finite (1+4 writes per block), so it is enumerated completely.",
         "Histories stop at the first failure; writer obeys the io.Writer contract.", "DESIGN.md §4 C16"),
})
ALL = ["C%02d" % i for i in range(1, 21)]

def main():
    checks, na = [], []
    for pid in ALL:
        ent = CHECKS.get(pid)
        if not ent or not ent[0]:
            na.append({"property_id": pid, "reason": "check not built yet in this round (planned: see DESIGN.md §4 %s); not claimed until its command exists" % pid})
            continue
        _, cat, tech, text, note, ref = ent
        checks.append({
            "property_id": pid,
            "quick_cmd": "./run.sh %s quick" % pid,
            "thorough_cmd": "./run.sh %s thorough" % pid,
            "evidence_file": "/verif/evidence/%s.json" % pid,
            "replay_cmd_template": "./run.sh replay {path}",
            "engine": "vcheck",
            "level_claimed": {"category": cat, "text": text, "design_ref": ref},
            "level_note": note,
            "technique": tech,
        })
    m = {
        "version": 1,
        "setup_cmd": "./setup.sh",
        "hooks": {
            "guard": "verif",
            "enable": "no source hooks in /repo: for C10/C11/C12 run.sh runs cmd/ovgen on the current tree (sync import -> zzvsync shim, generated Access hooks, reset hooks, and for C11 a hook before every statement) and builds with `go build -tags ovl -overlay <generated overlay.json>`; the harness itself is the module /verif/harness",
            "baseline_off_cmd": BASELINE_OFF,
            "source_commits": [],
            "add_only": True,
        },
        "engines": [{
            "name": "vcheck", "path": "/verif/harness/cmd/vcheck",
            "serves_properties": [c["property_id"] for c in checks],
            "kind_free_text": "hand-written Go explorer: deviation-bounded stateless exploration by prefix replay, explicit-state BFS over operation histories, bounded-exhaustive input enumeration; worker-process isolation; independent Avro reference model as oracle",
        }],
        "checks": checks,
        "not_applicable": na,
        "notes": "All checks rebuild the harness against /repo's working tree on every run (run.sh). Exit 0 = held (KNOWN-FINDING lines allowed), 1 = VIOLATION, 2 = harness/infrastructure error.",
    }
    json.dump(m, open("MANIFEST.json", "w"), indent=1)
    print("MANIFEST.json: %d checks, %d not_applicable" % (len(checks), len(na)))

main()

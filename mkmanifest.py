#!/usr/bin/env python3
"""Regenerates MANIFEST.json from the table below (kept valid at all times)."""
import json, sys

BASELINE_OFF = ("cd /repo && export GOFLAGS=-mod=mod GOPROXY=off && "
                "go test -json -vet=off -count=1 -timeout 25m ./...")

# id -> (built?, category, technique, text, note, design_ref)
CHECKS = {
 "C17": (True, "exploration", "bounded-exhaustive enumeration of primitive values and candidate varints against a reference codec",
         "Exhaustive enumeration (every int16, int32 range / all int32 in thorough, all float32 bit patterns in thorough, structured int64/float64 boundary sets, every short byte string as varint input) of the real public primitive codecs, each compared byte-for-byte and value-for-value with an independent zig-zag/IEEE reference written from the spec; codec selection through Schema.Codec for plain and defined primitive Go types. The domain is finite and small enough to enumerate, so enumeration rather than sampling is the right level.",
         "Trusts the reference varint codec (self-checked at setup); int64/float64 are covered on boundary sets only.", "DESIGN.md §4 C17"),
}
CHECKS.update({
 # NEW-ENTRIES-HERE
 "C11": (True, "model_checking", "exhaustive enumeration of garbage-collection placements (bounded number of injected collections) over interception points generated before every statement of the decode/encode path (build overlay) and inside an instrumented probe codec, with GOGC=off and clobberfree so that collections are owned by the explorer",
         "GC timing is the nondeterminism here, so the harness owns it: workers run with GOGC=off and GODEBUG=clobberfree=1; the library is rebuilt with a generated overlay that calls a hook before EVERY statement of every function, and an instrumented leaf type registered as a custom codec adds points inside every composite being decoded or encoded. For each of ~160 composite types (maps/slices/pointers of depth <=2 with probes inside and after), plus a mixed-retention scenario and a primer file of another, pointer-free record type before the recycled-banks variant; in four decode variants (banks kept / dropped unclosed / recycled from the pool / collections rewritten one item per block by the reference writer, so slices and maps grow while holding items), every placement of at most 1 (2 thorough) injected collection + heap churn is executed; retained shallow copies must equal the written values after further collections and the encoded datum must equal the collection-free run. A mis-tracked object fails deterministically instead of 'sometimes after churn'.",
         "Collections are placed between statements, not between the machine instructions of one statement; quick tier uses the first occurrence of each static point in the main variant.", "DESIGN.md §4 C11"),
 "C12": (True, "model_checking", "stateless model checking of the real code under a cooperative scheduler (preemption-bounded exploration of all schedules by prefix replay) with vector-clock happens-before checking of generated access hooks; auxiliary free-running -race pass",
         "The library is rebuilt (go build -overlay) with sync replaced by a scheduler shim and with generated read/write hooks on package-level variables and pointer-receiver objects. Thirteen scenarios (three threads; one of two) that are made to collide on the registries (incl. a registered builder that re-enters the codec builder while another thread registers: RWMutex modelled with writer preference), the bank pool (incl. a ReadFile abandoned from a callback that closed its bank), shared codecs and the timezone cache are explored over all schedules with at most 2 (3 thorough) preemptions at synchronisation granularity, and again with every hooked access as a scheduling point, and for the construction / shared-decode / zone scenarios once more with every library statement as a scheduling point (one preemption); sync.Once and sync.Map are shimmed too, Pool.Get answers 'most recently pooled' by default; encoder scenarios (three encoders of one codec); every Pool.Get answer is a choice; executions are independent (registries and caches are reset by generated hooks) and reproducible (a divergence while replaying a prefix is a hard harness error). Each schedule is checked for unordered conflicting accesses, deadlock and result equivalence with a sequential order. The same bodies also run free on 16 goroutines under Go's race detector.",
         "Sequentially consistent interleavings; syntactic instrumentation (errs towards 'read'); -race pass is sampling and auxiliary only.", "DESIGN.md §4 C12"),
 "C10": (True, "model_checking", "explicit-state BFS over real ResourceBank/ReadBuf operation sequences with pool recycling as an explored choice (sync shim via build overlay), shadow-heap model; exhaustive retention policies over ReadFile",
         "The library is rebuilt with its sync import replaced by a shim whose Pool.Get answer is chosen by the explorer, so recycling of banks is enumerated instead of left to the runtime. Bank level: BFS over operation sequences (depth 6/7) on the real banks with a shadow heap checked after every step (zeroed, disjoint, intact). a third record order repeats one string in every string position (string de-duplication across banks); E3: what delivered time.Time values show (zone name, String, Format) must not change while later blocks are read. File level: every retention/close policy of the callback over 4-record multi-block files of each codec (map values of the same types as pointer targets; two record orders), with pool answers explored to a deviation bound; retained shallow copies must stay equal to deep copies while their bank is open.",
         "API misuse excluded; fill-level classes in the canonical state; shim pool is a superset of sync.Pool behaviour.", "DESIGN.md §4 C10"),
 "C20": (True, "model_checking", "explicit-state exploration of registration histories on the real global registries with a 'last registration wins' model; instrumented codecs; exhaustive positions",
         "Registration histories over {Register(f1), Register(f2), RegisterSchema(s1), RegisterSchema(s2)} are explored from the unregistered state (fresh generic named types) and from carried-over states up to depth 3 (4 thorough) for custom types of three kinds; after every operation the type is used at 11 positions and the schema shown, the builder consulted, the codec actually run for every occurrence (invocation counters and a wire marker), validity under the reference decoder and codec/file round trips are compared with the model. Controls: never-registered look-alikes and the library's own registrations at every position and as siblings of one record; histories over {time.RegisterCodecs, null.RegisterCodecs, application registers time.Time, application registers null.Int} with a per-type 'most recent registration for that type governs' model; time.Time fields of one record under different per-field schemas; a struct type with a registered schema as the root type of NewEncoderFor.",
         "Registrations cannot be undone (state carried within a worker); custom builders accept string/long schemas only.", "DESIGN.md §4 C20"),
 "C06": (True, "fault_enumeration", "exhaustive single-field mutation, truncation and byte-replacement enumeration plus all short byte strings, on five reading entry points, in isolated workers with an allocation meter and a watchdog",
         "For every reading entry point (Codec.Read and Codec.Skip of ~50 codecs, ReadFile, SchemaFromString followed by Schema.Codec and a decode, timestamp text) (targets include time.Time and null.* fields so that mutated schemas reach the registered builders, one field at a time; the declared length of every snappy block is mutated too; inputs that are large in one dimension — collections of up to 8 million one-item blocks, schemas nested 64 deep — must be handled in linear time and stack) three input families are enumerated completely: every byte string up to a length bound, every single-field mutation (20 boundary values) / truncation / byte replacement of every valid encoding, file, schema document and timestamp of a base family, and named structural cases. Each call must return without panic, without killing or stalling the worker, and with heap allocation (runtime/metrics) within 1 MiB + 1024 x input length. ~9.5 million distinct inputs in the quick tier.",
         "Loose linear allocation bound; watchdog-based non-termination; zero-size-item floods outside the claim except for the recorded known finding.", "DESIGN.md §4 C06"),
 "C05": (True, "exploration", "exhaustive schema-type x Go-kind x position matrix with canary/guard memory around every destination, isolated workers",
         "The complete matrix of 24 schema nodes x 55 Go types x 4 positions (8 thorough) is enumerated: an unsound pair (per a soundness table written from the documented mapping) must be refused when the decoder is built; for every pair that builds, every in-range and out-of-range datum is decoded into a destination surrounded by canary fields, guard array elements and canary-patterned spare slice capacity, which must stay byte-identical, and the field must hold the reference value; collections are decoded in three legal renderings (plain, size-prefixed, one size-prefixed block per item); every byte 0..255 as a boolean must leave a valid Go bool (0 or 1) in six bool-shaped positions. The matrix is finite, so it is covered completely; worker isolation turns memory faults into attributed violations.",
         "Corruption beyond the guards that does not crash is unobserved; sound pairs the library refuses are not judged.", "DESIGN.md §4 C05"),
 "C03": (True, "exploration", "bounded-exhaustive enumeration of (schema, datum, every legal serialisation, file-block partition, codec, compatible target) on reference-written files",
         "Files are produced by an independent reference writer whose choice-driven encoder enumerates EVERY legal serialisation of a datum (all block splits of arrays/maps, with and without byte sizes, null in either union position); every schema of depth <=2 (3 thorough), every datum of a bounded alphabet and every compatible Go target (pointer indirection, integer/float width, wrappers) are crossed; multi-record files cover every partition into file blocks and the three codecs; streaming use (callback closes the bank at once / one record later) over every sequence of <=6 records of 5 allocation shapes exercises recycled banks; narrow targets are also laid out next to a narrow neighbour that the writer's schema places first; a second complete ReadFile of the same file is run from inside the callback (two live readers). Values must equal the reference mapping; an integer that does not fit must yield an error and no callback.",
         "Depth and collection-size bounds; quick caps encodings per datum at 64 (reported); floats only where exactly representable.", "DESIGN.md §4 C03"),
 "C04": (True, "exploration", "bounded-exhaustive enumeration of projections (field subsets x permutations x added fields) over reference-written files, plus Skip-vs-Read consumption equality on every legal encoding",
         "Codec level: for every schema node and every legal serialisation, the bytes consumed by Read, by the record skip path and by Codec.Skip must equal the reference decoder's. File level: for every ordered pair of an 18-schema pool (incl. size-prefixed multi-block collections, unions, fixed, nested records) every projection of the target struct is read and the remaining fields compared with the reference mapping; a 130-branch union (two-byte selectors) is skipped with every branch selected; every writer schema carries a column that differs from another only in case; added fields include an embedded struct whose field names collide with the columns and unexported fields tagged with a column's name; a mis-sized skip also trips the block's sync check.",
         "Pool of 18 field schemas, 2 data fields + sentinel per record, two nesting levels.", "DESIGN.md §4 C04"),
 "C13": (True, "exploration", "bounded-exhaustive enumeration of (caller schema, covering Go type, value) triples; reference decoder as oracle for Write, reference mapping for Read",
         "Every schema of nesting depth <=2 (3 thorough) over the supported leaves (incl. logical date/timestamps and null in either union position) is paired with every compatible Go field type (integer and float widths, pointers, null.* wrappers, time.Time) and every value of a bounded alphabet; when Schema.Codec builds, the bytes Write produces must decode under the reference decoder, with nothing left over, to the datum the value denotes, and Read of those bytes must return the value; for fixed, Go arrays of other lengths must be refused or invert. 17k distinct triples in the quick tier.",
         "Only null+one-type unions are written; depth bound; times under long schemas restricted to the int64-nanosecond range.", "DESIGN.md §4 C13"),
 "C01": (True, "exploration", "bounded-exhaustive enumeration of (struct type, value sequence, codec, block size, flush pattern, reader chunking) through the real encoder and reader",
         "Small-scope exhaustive exploration: 900+ probe struct types (all type expressions of depth <=2 over 16 leaves and 4 wrappers; the depth<=1 ones as generated static types through the real generic Encoder[T]) x every value sequence of length <=2 over the full value alphabet and every length-3 sequence over representatives x 3 codecs x 4 block sizes x every flush subset, read back through ReadFile into T and *T under three reader behaviours, (five reader kinds rotate: full, 1-byte, data+EOF, *bytes.Buffer, 16-byte *bufio.Reader, every-other-read (0,nil)), also into a caller-owned *T already used by an abandoned read; each record compared both as deep-copied at delivery and as the struct copy the caller still holds when ReadFile returns; histories in which the writer refuses the first write of one flush once and the flush is retried; canary fields around the probe field expose out-of-field loads/stores. Custom probes through the real Encoder[T]: a 130-field record, 40–70 bank allocations of one type in a record, arrays of zero-width items, zero-byte rows, a 70 000-byte map key; one FileWriter writing several files. Every small shape is visited, which is what finds the breaking type shapes the suite does not sample.",
         "Depth/size bounds (small-scope hypothesis); dynamic types use an API-level emulation of the 20-line Encoder.", "DESIGN.md §4 C01"),
 "C02": (True, "exploration", "same bounded-exhaustive case space as C01, judged by an independent reference container parser / decoder written from the spec",
         "Every output file of the C01 case space is parsed by a reference container parser (exact counts and sizes, reference decompressors, sync), its embedded schema by a reference JSON parser, and each block is decoded under that schema alone with zero leftover bytes and compared (including union branches) with the datum the documented mapping assigns to the written Go value. Mirrored encode/decode errors are visible because the oracle shares no code with the library.",
         "Trusts ref (self-checked at setup) and the abstraction function gv.ToDatum; empty non-nil omitempty collections may be null or non-null.", "DESIGN.md §4 C02"),
 "C14": (True, "exploration", "bounded-exhaustive enumeration of schema ASTs x key orders x layouts x extra attributes; reference JSON parser/printer as oracle",
         "Every schema AST up to nesting depth 2 (3 in thorough) over all supported attributes is rendered under 24 key orderings, 3 layouts and with 18 kinds of extra attribute at every object (9 of them look-alikes of supported attributes differing only in case or punctuation), also through the file-header path (FileSchema), and in renderings with JSON string escapes; names with dots next to a namespace; the parse result is compared structurally with the expected schema, Marshal output is validated with encoding/json, re-parsed by an independent parser and by the library (round-trip identity); after every document the result is overwritten in place and the same document parsed again (parsing is a function of the document alone); every truncation / structural-token deletion or duplication of the small documents must be rejected by SchemaFromString and by FileSchema.",
         "Depth bound; nil/empty Object and slices identified; malformed = rejected by encoding/json.", "DESIGN.md §4 C14"),
 "C15": (True, "exploration", "bounded-exhaustive enumeration of Go struct types against the documented mapping written as a total specification function; worker isolation for non-termination",
         "~1,600 struct types (84 field types x 15 tag combinations, multi-field shapes, nested wrappers, embedded fields, repeated named structs, registered unions incl. one with an object branch, maps keyed by a named string type, 7 self-referential shapes; all ordered pairs in thorough) are given to SchemaForType; the result must equal the documented mapping (spec.SchemaFor), be structurally valid, be deterministic (also after the caller has overwritten the first result, and across every history <=3 of generate / register-schema steps on fresh types), and Schema.Codec on it must return without panic; self-referential types run in their own worker with a bounded stack so non-termination is observed as a violation.",
         "Go arrays and duplicate JSON names are not judged (mapping silent); anonymous structs exempt from the named-type rule.", "DESIGN.md §4 C15"),
 "C18": (True, "exploration", "bounded-exhaustive grammar-product enumeration of timestamp strings through the public decode path, standard library as oracle",
         "An exhaustive product over the RFC 3339 grammar (calendar/time grid x every fraction digit string up to length 10/12 over a 2/3-digit alphabet x separators x 11 zones), all date-only strings of the grid, a format->parse identity sweep and every truncation / single-character mutation of six valid timestamps, all pushed through the real codec (string field -> time.Time / null.Time) from one reused buffer, plus every ordered pair of 38 and triple of 8 valid timestamps as decode histories, and the process zone (time.Local) set to four zones incl. three with daylight saving. Whenever the string matches the grammar and time.Parse accepts it, instant and offset must agree; no string may panic.",
         "Oracle is time.Parse(RFC3339) restricted to the RFC 3339 grammar; digit alphabets are bounded.", "DESIGN.md §4 C18"),
 "C19": (True, "exploration", "exhaustive enumeration of stored integers (all int32 days in thorough) and structured time sets through the real logical-type codecs, independent arithmetic as oracle",
         "Read direction: every int32 day count (thorough; |d|<=2^20 + boundaries quick) and 2^k±δ longs inside the int64-nanosecond range for timestamp-millis/-micros/plain long; write direction: base times x 31 offsets and every day boundary around the epoch; and the type in every position of a record (two pointers, slice, map, both nullable unions) over pairs of consecutive records (nullable unions into *time.Time and into time.Time values), and with the process zone set to three daylight-saving zones. Each is compared with time.Unix/UnixMilli/UnixMicro and floor division.",
         "Long domains on boundary sets only; floor-to-resolution interpretation of the write clause.", "DESIGN.md §4 C19"),
 "C07": (True, "fault_enumeration", "exhaustive single-bit damage enumeration over a reference-written file family, plus callback-failure points and metadata variants",
         "Every bit of every sync marker, snappy CRC, compressed payload byte and of the magic is flipped, one at a time, in every file of a family (3 schemas x 3 codecs x every block composition of <=3 records) written by an independent reference writer; the callback is failed at every record index; metadata variants cover missing schema / absent and unknown codec and every way of writing the metadata map in several (plain or size-prefixed) blocks; the family includes files with empty blocks and blocks above 64 KiB on the wire; six reader kinds (incl. *bytes.Buffer, a 16-byte *bufio.Reader and a reader returning (0,nil)); 2400-block files; callback errors incl. io.EOF; a second reader of the same file alive inside the callback. The oracle is the reference parser and the reference decompressors. The corruption space of a small file is finite, so it is enumerated completely rather than sampled.",
         "Payload flips the reference decompressor accepts are counted but not judged (the statement only covers rejected blocks).", "DESIGN.md §4 C07"),
 "C08": (True, "fault_enumeration", "exhaustive crash-point enumeration: every cut position of every family file x reader chunking behaviour",
         "Every prefix (cut position 0..len) of every file of the reference-written family is read under six reader kinds (full reads, 1-byte reads, data together with EOF, *bytes.Buffer, 16-byte *bufio.Reader, every other Read returning (0,nil)); delivered records must be exactly those of the blocks whose payload is completely present and success is allowed only at the end of the header or of a block, as computed from the reference layout. Crash points of a short file are finite and are all visited.",
         "Family of small files (<=3 records, 5 thorough; 1..200-byte records; one 70-record block); reference layout defines completeness.", "DESIGN.md §4 C08"),
 "C09": (True, "model_checking", "explicit-state BFS over encoder call histories on the real Encoder[T], lock-step reference model, all traces replayed on the implementation",
         "Explicit-state search over every encode/flush history up to a depth bound (6 quick / 8 thorough; 8/12 for the zero-byte record), for 9 block sizes x 3 codecs, executed on the real Encoder[T]; after every call the complete output is parsed by an independent container parser and compared with a lock-step model (list of pending records); plus a sweep of every record size 0..1500 (9000) bytes and 2^k±4 of incompressible text, and histories in which the writer refuses the first write of an explicit flush once and the flush is retried (no record may be lost); two encoders of one codec interleaved at write granularity; block sizes above 1 MiB; 6000-call histories. The property quantifies over call histories of a small state machine, which is exactly what bounded explicit-state search decides.",
         "Record sizes from a 4-element alphabet; depth bound; state canonicalisation argument in the evidence assumptions; reference parser/decompressors trusted.", "DESIGN.md §4 C09"),
 "C16": (True, "fault_enumeration", "exhaustive enumeration of (call history, failing write index, short-write mode) on the real encoder over a fault-injecting io.Writer",
         "For every encoder history up to length 4 (6 thorough) and every FileWriter block sequence, every write index at which the io.Writer can fail is enumerated with four accept modes (0, 1, len-1, all bytes — an error with a full count is legal) x {persistent, transient}, and through a sink type that also has Flush/Sync/Close/WriteString; a 24-field type makes the header exceed 1 KiB; the number of header writes is measured per tree and per writer shape (the rich sink also has WriteByte); one 40 000-row history per codec; the triggering call must return an error wrapping the injected one, and the accepted bytes must be a prefix of the fault-free run re-keyed to the same sync marker. The fault space of a history is finite (1+4 writes per block), so it is enumerated completely.",
         "Histories stop at the first failure; writer obeys the io.Writer contract.", "DESIGN.md §4 C16"),
})
ALL = ["C%02d" % i for i in range(1, 21)]

# Additions of the sixth strengthening round (appended to each text).
ADDENDA = {
 "C01": " Also: a streaming read pass in which every bank is closed as soon as its record has been copied, and encoders for one row type created before and after schema registrations (rows must match the header each wrote).",
 "C02": " Also judged on files written by encoders created before and after schema registrations for the row type.",
 "C03": " Targets include *null.X wrappers; the bank-cycling part optionally starts with an abandoned read and re-compares the record still held one callback later.",
 "C04": " Nullable columns are also read into narrow non-pointer fields, and projection builds are preceded by builds that fail half-way (pooled builder state).",
 "C05": " The matrix has 27 nodes incl. multi-branch unions, and one parsed Schema value is reused for every Go type.",
 "C07": " A complete read into a caller-owned destination is repeated after a read abandoned at every record index.",
 "C09": " Also: the first write of every size-triggered block refused once, and histories with an encode that panics inside a registered codec and is recovered.",
 "C10": " Records carry **T and *map fields, the callback overwrites the spare capacity of every delivered []byte, and a collection runs in every 40th execution with clobberfree=1.",
 "C11": " One ReadBuf Reset across twelve messages with every value kept is explored too.",
 "C12": " Eighteen scenarios as of round 6 (register-then-use from empty registries, concurrent logical dates, twelve zone offsets with a thread overwriting its input buffer); statement-level scheduling points (one preemption) for the construction, decode, zone and encoder scenarios.",
 "C13": " Times are also given in three non-UTC Locations (bytes of integer-carried logical types depend on the instant alone) and an embedded struct competes for a schema field name.",
 "C14": " Unions of two named types with the same short name, and documents nested 6 to 70 deep, are included.",
 "C15": " SchemaForType is called with a value, a pointer and a typed nil pointer; a type from a package with a hyphenated import path is included.",
 "C16": " For transient faults the sink is also inspected when the failing call returns, and after every failed attempt the same FileWriter must write a complete clean file.",
 "C17": " Codec selection covers Go int under schema int and primitives as array items.",
 "C18": " Fifteen zone forms incl. the hour-24 / minute-60 offsets the standard library accepts; all ordered pairs of 87 strings through one reused buffer.",
 "C19": " A logical type the primitive does not define (date on long) must be ignored.",
 "C20": " Caller edits below the first field level of a registered record schema must not reach the registry.",
}
# Additions of the seventh strengthening round.
ADDENDA7 = {
 "C01": " Round 7: a record with fields whose names differ only in case; 1100 allocations of one type in one record.",
 "C02": " Round 7: two live encoders of one codec with interleaved block writes, each output judged alone; compression names that name no codec (a present avro.codec must name one).",
 "C03": " Round 7: every triple of sibling fields of one Go type whose schemas differ below the outermost type name; records of zero encoded width (up to 70 000 per block).",
 "C04": " Round 7: consumption of Read / skip path / Skip at every length 0..1100 and 2^k±1 up to 2^21 for length-prefixed things; projection into banks recycled from a file that had the columns.",
 "C05": " Round 7: 30 nodes — maps and arrays of 128- and 136-byte elements, nine-entry maps.",
 "C06": " Round 7: allocation as a scaling law (1/4/16 MiB in one block or metadata value: at most 8x per 4x); valid files with 1–5000 items per record and banks handed back at once; zero-size floods recognised anywhere in a schema; an allocation excess is believed only when the same call exceeds the bound three times in a row.",
 "C07": " Round 7: bytes taken from the reader after a failing callback (none); the failing record last in a block whose marker is damaged, missing or cut; every ordered triple of six files sharing a record name and a Go type.",
 "C09": " Round 7: refusal of the 2nd..6th write of a flush's block (success reported => output is the model's); single blocks of 2^14-1 to 2^17+3 records.",
 "C10": " Round 7: file collections also in size-prefixed blocks / one block per item; pool answers explored from a cold-pool default (fresh bank) and from a warm-pool default (most recently pooled bank); the read also after an earlier read that its callback gave up.",
 "C11": " Round 7: a read stopped by the callback's error with the record kept; 1–40 elements of 4160 bytes per record.",
 "C12": " Round 7: method calls on package variables built by a foreign constructor (rand.New, bytes.NewBuffer...) are write accesses for the happens-before check.",
 "C13": " Round 7: time.Time under plain, object-form and unknown-annotation longs; collections of 4095 to 70 000 items.",
 "C14": " Round 7: tables of 250–3300 columns (20–300 KB documents), also through a file header; parse(Marshal(s)) equals s also in bare-name/object form per node.",
 "C15": " Round 7: every field type at three positions of one struct with alternating tags.",
 "C16": " Round 7: 14 fault modes (error values that are a *fs.PathError or wrap another error); after a transient failure a second failure with a different value.",
 "C17": " Round 7: selection also behind three pointer fields of one record and inside the null.* wrappers.",
 "C19": " Round 7: every triple of the seven units as sibling fields of one record.",
 "C20": " Round 7: the never-registered controls have registered namesakes (same reflect.Type.String()).",
}
for _k, _v in ADDENDA7.items():
    ADDENDA[_k] = ADDENDA.get(_k, "") + _v
for _k, _v in ADDENDA.items():
    e = CHECKS[_k]
    CHECKS[_k] = (e[0], e[1], e[2], e[3] + _v, e[4], e[5])

def main():
    checks, na = [], []
    for pid in ALL:
        ent = CHECKS.get(pid)
        if not ent or not ent[0]:
            na.append({"property_id": pid, "reason": "check not built yet in this round (planned: see DESIGN.md §4 %s); not claimed until its command exists" % pid})
            continue
        _, cat, tech, text, note, ref = ent
        checks.append({
            "property_id": pid,
            "quick_cmd": "./run.sh %s quick" % pid,
            "thorough_cmd": "./run.sh %s thorough" % pid,
            "evidence_file": "/verif/evidence/%s.json" % pid,
            "replay_cmd_template": "./run.sh replay {path}",
            "engine": "vcheck",
            "level_claimed": {"category": cat, "text": text, "design_ref": ref},
            "level_note": note,
            "technique": tech,
        })
    m = {
        "version": 1,
        "setup_cmd": "./setup.sh",
        "hooks": {
            "guard": "verif",
            "enable": "no source hooks in /repo: for C10/C11/C12 run.sh runs cmd/ovgen on the current tree (sync import -> zzvsync shim, generated Access hooks, reset hooks, and for C11 a hook before every statement) and builds with `go build -tags ovl -overlay <generated overlay.json>`; the harness itself is the module /verif/harness",
            "baseline_off_cmd": BASELINE_OFF,
            "source_commits": [],
            "add_only": True,
        },
        "engines": [{
            "name": "vcheck", "path": "/verif/harness/cmd/vcheck",
            "serves_properties": [c["property_id"] for c in checks],
            "kind_free_text": "hand-written Go explorer: deviation-bounded stateless exploration by prefix replay, explicit-state BFS over operation histories, bounded-exhaustive input enumeration; worker-process isolation; independent Avro reference model as oracle",
        }],
        "checks": checks,
        "not_applicable": na,
        "notes": "All checks rebuild the harness against /repo's working tree on every run (run.sh). Exit 0 = held (KNOWN-FINDING lines allowed), 1 = VIOLATION, 2 = harness/infrastructure error.",
    }
    json.dump(m, open("MANIFEST.json", "w"), indent=1)
    print("MANIFEST.json: %d checks, %d not_applicable" % (len(checks), len(na)))

main()

#!/bin/bash
# runall.sh [tier] — run every claimed check and print one line each
cd "$(dirname "$0")"
TIER="${1:-quick}"
for id in $(python3 -c "import json; print(' '.join(c['property_id'] for c in json.load(open('MANIFEST.json'))['checks']))"); do
  out=$(./run.sh $id $TIER 2>&1); rc=$?
  echo "rc=$rc $(echo "$out" | grep "^$id $TIER:" | tail -1) $(echo "$out" | grep -c '^VIOLATION') viol-lines"
done

#!/bin/bash
# Offline setup: warm the Go build cache by building the harness once and run the reference model's self-check.
set -e
cd "$(dirname "$0")"
. ./goenv.sh
mkdir -p .work evidence replays
./run.sh build
( cd harness && go124 test -count=1 ./ref/... ./explore/... ) 
echo "setup ok"

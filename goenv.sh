# Sourced by every script: pins the go1.24.0 toolchain binary and an offline environment.
GO124=/root/go/pkg/mod/golang.org/toolchain@v0.0.1-go1.24.0.linux-amd64/bin/go
if [ ! -x "$GO124" ]; then echo "goenv: go1.24.0 toolchain not found at $GO124" >&2; exit 2; fi
export GOTOOLCHAIN=local GOPROXY=off GOSUMDB=off GOFLAGS=-mod=mod GONOSUMDB='*' GONOSUMCHECK=1
export VERIF_REPO="${VERIF_REPO:-/repo}"
# VERIF_DIR: where evidence/, replays/, known_findings.json and .work live (default: the directory of this file)
export VERIF_DIR="${VERIF_DIR:-$(cd "$(dirname "${BASH_SOURCE[0]}")" && pwd)}"
go124() { "$GO124" "$@"; }

// Package zzvsync is injected into the avro module by `go build -overlay` as
// github.com/philpearl/avro/zzvsync and replaces the import "sync" in every
// non-test file of the library. Outside an exploration it behaves like the
// real package. Under an exploration it is (a) a cooperative scheduler whose
// every synchronisation operation is a scheduling point decided by the
// explorer, (b) a pool whose Get answer is an explorer choice, and (c) a
// vector-clock happens-before checker fed by the generated Access hooks.
package zzvsync

import (
	"fmt"
	"runtime"
	"sort"
	realsync "sync"
	"unsafe"
)

type (
	Locker    = realsync.Locker
	WaitGroup = realsync.WaitGroup
	Cond      = realsync.Cond
)

// ---------------------------------------------------------------- global mode

// Chooser is the explorer's answer function.
type Chooser func(label string, n int) int

var (
	sched    *Scheduler // non-nil: scheduler mode
	poolHook Chooser    // non-nil: pool answers are choices (single-threaded mode)
	allPools []*Pool
	poolsMu  realsync.Mutex
)

var resets []func()

// RegisterReset is called from generated init functions: f restores a package-level cache or
// registry of the library to its initial (empty) value.
func RegisterReset(f func()) { resets = append(resets, f) }

// ResetAll restores every registered package-level map to its initial value, so that explored
// executions are independent of each other.
// RegisterSnapshotReset is called from generated init functions for package-level variables without an
// initialiser: snap captures their values (after all package init functions have run) and returns the functions
// that restore them.
func RegisterSnapshotReset(snap func() []func()) { snaps = append(snaps, snap) }

var snaps []func() []func()

// CloneMap returns a shallow copy of a map (nil stays nil).
func CloneMap[M ~map[K]V, K comparable, V any](m M) M {
	if m == nil {
		return nil
	}
	c := make(M, len(m))
	for k, v := range m {
		c[k] = v
	}
	return c
}

func ResetAll() {
	// first call: capture the post-init values of the variables that have no initialiser
	for _, sn := range snaps {
		resets = append(resets, sn()...)
	}
	snaps = nil
	// a new epoch: lock state, Once flags and Map contents left behind by the previous execution are dropped the
	// next time the object is touched (the execution's own set-up, which follows, already counts)
	epoch++
	for _, f := range resets {
		f()
	}
}

// NumResets reports how many reset functions were generated.
func NumResets() int { return len(resets) }

// SetPoolChooser enables (or, with nil, disables) explorer-chosen pool answers
// outside the scheduler. Pools keep their items in an explicit list then.
func SetPoolChooser(c Chooser) { poolHook = c }

// ResetPools empties every pool (between executions).
func ResetPools() {
	poolsMu.Lock()
	for _, p := range allPools {
		p.items = nil
		p.itemVC = nil
	}
	poolsMu.Unlock()
}

// PoolItems returns the explicit item list of every pool (for state hashing / invariants).
func PoolItems() [][]any {
	poolsMu.Lock()
	defer poolsMu.Unlock()
	var out [][]any
	for _, p := range allPools {
		out = append(out, append([]any(nil), p.items...))
	}
	return out
}

// ---------------------------------------------------------------- vector clocks

type vc []uint32

func (a vc) clone() vc { return append(vc(nil), a...) }

func (a *vc) join(b vc) {
	for len(*a) < len(b) {
		*a = append(*a, 0)
	}
	for i, x := range b {
		if x > (*a)[i] {
			(*a)[i] = x
		}
	}
}

func (a vc) get(i int) uint32 {
	if i < len(a) {
		return a[i]
	}
	return 0
}

// ---------------------------------------------------------------- scheduler

type opKind int

const (
	opNone opKind = iota
	opLock
	opRLock
	opOther
	opRecv
)

type thread struct {
	id      int
	resume  chan struct{}
	done    bool
	pending opKind
	pm      *Mutex
	prw     *RWMutex
	pch     *Chan
	label   string
	vc      vc
	started bool
}

// Race describes an unordered conflicting pair of accesses.
type Race struct {
	Site1, Site2   string
	Write1, Write2 bool
	T1, T2         int
}

type shadow struct {
	wTid   int
	wClock uint32
	wSite  string
	hasW   bool
	reads  vc
	rSites map[int]string
}

// Scheduler runs virtual threads cooperatively: exactly one runs at a time.
type Scheduler struct {
	choose       Chooser
	threads      []*thread
	cur          *thread
	yield        chan struct{}
	Races        []Race
	Deadlock     bool
	DeadlockInfo string
	shadows      map[uintptr]*shadow
	// AccessPoints makes every instrumented Access a scheduling point as well.
	AccessPoints bool
	// StmtPoints makes every generated statement hook a scheduling point (needs an overlay built with -stmtpoints).
	StmtPoints bool
	Steps      int
	panicVal   any
	panicTid   int
	MaxSteps   int
}

// NewScheduler creates a scheduler whose choices are answered by c.
func NewScheduler(c Chooser) *Scheduler {
	return &Scheduler{choose: c, yield: make(chan struct{}), shadows: map[uintptr]*shadow{}, MaxSteps: 100000}
}

// Go registers a virtual thread; it starts when Run is called.
func (s *Scheduler) Go(f func()) {
	t := &thread{id: len(s.threads), resume: make(chan struct{}), pending: opOther, label: "start"}
	t.vc = make(vc, t.id+1)
	t.vc[t.id] = 1
	s.threads = append(s.threads, t)
	go func() {
		<-t.resume
		defer func() {
			if r := recover(); r != nil {
				s.panicVal, s.panicTid = r, t.id
			}
			t.done = true
			t.pending = opNone
			s.yield <- struct{}{}
		}()
		f()
	}()
}

func (s *Scheduler) enabled(t *thread) bool {
	if t.done {
		return false
	}
	switch t.pending {
	case opLock:
		if t.pm != nil {
			return !t.pm.held
		}
		return !t.prw.wheld && t.prw.readers == 0
	case opRLock:
		// like the real RWMutex: once a writer has called Lock, new readers wait behind it (which is what
		// makes recursive read locking a deadlock when a writer arrives in between)
		return !t.prw.wheld && t.prw.wwait == 0
	case opRecv:
		return len(t.pch.q) > 0 || t.pch.closed
	}
	return true
}

// Run executes the threads to completion (or deadlock). It returns the
// recovered panic value of a thread, if any.
func (s *Scheduler) Run() (panicVal any, panicTid int) {
	sched = s
	defer func() { sched = nil }()
	for {
		var en []*thread
		// canonical order: the running thread first if still enabled, then ascending ids
		if s.cur != nil && s.enabled(s.cur) {
			en = append(en, s.cur)
		}
		for _, t := range s.threads {
			if t != s.cur && s.enabled(t) {
				en = append(en, t)
			}
		}
		if len(en) == 0 {
			alive := 0
			for _, t := range s.threads {
				if !t.done {
					alive++
					s.DeadlockInfo += fmt.Sprintf("thread %d blocked at %s; ", t.id, t.label)
				}
			}
			if alive > 0 {
				s.Deadlock = true
			}
			return s.panicVal, s.panicTid
		}
		i := 0
		if len(en) > 1 {
			// switching away from a runnable running thread is a preemption; when the running thread
			// is blocked or finished the switch is free
			label := "sched-free"
			if en[0] == s.cur {
				label = "sched"
			}
			i = s.choose(label, len(en))
		}
		s.cur = en[i]
		s.Steps++
		if s.Steps > s.MaxSteps {
			s.Deadlock = true
			s.DeadlockInfo = "step limit exceeded (livelock?)"
			return s.panicVal, s.panicTid
		}
		s.cur.resume <- struct{}{}
		<-s.yield
		if s.panicVal != nil {
			return s.panicVal, s.panicTid
		}
	}
}

// RunningStillEnabled reports, for preemption costing, whether choosing a
// non-zero alternative at the last scheduling point switched away from a
// runnable thread. The explorer derives this from the canonical order: choice
// 0 is "continue the running thread" whenever it is enabled.

// point is a scheduling point of the current thread.
func (s *Scheduler) point(k opKind, m *Mutex, rw *RWMutex, label string) {
	t := s.cur
	t.pending, t.pm, t.prw, t.label = k, m, rw, label
	s.yield <- struct{}{}
	<-t.resume
	t.pending = opOther
}

// CurrentThread returns the id of the running virtual thread (-1 outside).
func CurrentThread() int {
	if sched == nil || sched.cur == nil {
		return -1
	}
	return sched.cur.id
}

// Yield is an explicit scheduling point (used by harness-level hand-over primitives).
func Yield(label string) {
	if s := sched; s != nil && s.cur != nil {
		s.point(opOther, nil, nil, label)
	}
}

// HBSend / HBRecv let the harness create a happens-before edge (a channel hand-over).
type HBToken struct{ v vc }

func HBSend() *HBToken {
	if s := sched; s != nil && s.cur != nil {
		t := s.cur
		tok := &HBToken{v: t.vc.clone()}
		t.vc[t.id]++
		return tok
	}
	return &HBToken{}
}

func HBRecv(tok *HBToken) {
	if s := sched; s != nil && s.cur != nil && tok != nil {
		s.cur.vc.join(tok.v)
	}
}

// ---------------------------------------------------------------- Chan (harness hand-over)

// Chan is an unbounded FIFO hand-over channel for harness scenarios: Send
// never blocks, Recv blocks (is disabled) until an item is available or the
// channel is closed. Send→Recv is a happens-before edge.
type Chan struct {
	q      []any
	vcs    []vc
	closed bool
}

func NewChan() *Chan { return &Chan{} }

func (c *Chan) Send(v any) {
	s := sched
	if s == nil || s.cur == nil {
		c.q = append(c.q, v)
		c.vcs = append(c.vcs, nil)
		return
	}
	t := s.cur
	c.q = append(c.q, v)
	c.vcs = append(c.vcs, t.vc.clone())
	t.vc[t.id]++
	s.point(opOther, nil, nil, "Chan.Send")
}

func (c *Chan) Close() {
	c.closed = true
	if s := sched; s != nil && s.cur != nil {
		s.point(opOther, nil, nil, "Chan.Close")
	}
}

func (c *Chan) Recv() (any, bool) {
	s := sched
	if s != nil && s.cur != nil {
		t := s.cur
		t.pch = c
		s.point(opRecv, nil, nil, "Chan.Recv")
		if len(c.q) == 0 {
			return nil, false
		}
		v := c.q[0]
		t.vc.join(c.vcs[0])
		c.q, c.vcs = c.q[1:], c.vcs[1:]
		return v, true
	}
	if len(c.q) == 0 {
		return nil, false
	}
	v := c.q[0]
	c.q, c.vcs = c.q[1:], c.vcs[1:]
	return v, true
}

// ---------------------------------------------------------------- Mutex / RWMutex

// epoch counts executions (ResetAll calls): lock state (holder flags, release clocks) left behind in a package-level mutex by an
// earlier execution — in particular by one that ended in a deadlock — must not leak into the next one.
var epoch int

type Mutex struct {
	real realsync.Mutex
	held bool
	rel  vc
	ep   int
}

func (m *Mutex) fresh() {
	if m.ep != epoch {
		m.ep, m.held, m.rel = epoch, false, nil
	}
}

func (m *Mutex) Lock() {
	s := sched
	if s == nil || s.cur == nil {
		m.real.Lock()
		return
	}
	m.fresh()
	s.point(opLock, m, nil, "Mutex.Lock")
	m.held = true
	s.cur.vc.join(m.rel)
}

func (m *Mutex) Unlock() {
	s := sched
	if s == nil || s.cur == nil {
		m.real.Unlock()
		return
	}
	m.fresh()
	t := s.cur
	m.rel = t.vc.clone()
	t.vc[t.id]++
	m.held = false
	s.point(opOther, nil, nil, "Mutex.Unlock")
}

func (m *Mutex) TryLock() bool {
	s := sched
	if s == nil || s.cur == nil {
		return m.real.TryLock()
	}
	m.fresh()
	s.point(opOther, nil, nil, "Mutex.TryLock")
	if m.held {
		return false
	}
	m.held = true
	s.cur.vc.join(m.rel)
	return true
}

type RWMutex struct {
	real    realsync.RWMutex
	wheld   bool
	wwait   int // writers that have announced themselves (called Lock) and not yet acquired
	readers int
	ep      int
	rel     vc // released by writers
	rrel    vc // released by readers (joined by the next writer)
}

func (m *RWMutex) fresh() {
	if m.ep != epoch {
		m.ep, m.wheld, m.wwait, m.readers, m.rel, m.rrel = epoch, false, 0, 0, nil, nil
	}
}

func (m *RWMutex) Lock() {
	s := sched
	if s == nil || s.cur == nil {
		m.real.Lock()
		return
	}
	m.fresh()
	// two steps, as in sync.RWMutex: announce (from here on new readers block), then wait for the readers to drain
	s.point(opOther, nil, nil, "RWMutex.Lock.announce")
	m.wwait++
	s.point(opLock, nil, m, "RWMutex.Lock")
	m.wwait--
	m.wheld = true
	s.cur.vc.join(m.rel)
	s.cur.vc.join(m.rrel)
}

func (m *RWMutex) Unlock() {
	s := sched
	if s == nil || s.cur == nil {
		m.real.Unlock()
		return
	}
	m.fresh()
	t := s.cur
	m.rel = t.vc.clone()
	t.vc[t.id]++
	m.wheld = false
	s.point(opOther, nil, nil, "RWMutex.Unlock")
}

func (m *RWMutex) RLock() {
	s := sched
	if s == nil || s.cur == nil {
		m.real.RLock()
		return
	}
	m.fresh()
	s.point(opRLock, nil, m, "RWMutex.RLock")
	m.readers++
	s.cur.vc.join(m.rel)
}

func (m *RWMutex) RUnlock() {
	s := sched
	if s == nil || s.cur == nil {
		m.real.RUnlock()
		return
	}
	m.fresh()
	t := s.cur
	m.rrel.join(t.vc)
	t.vc[t.id]++
	m.readers--
	s.point(opOther, nil, nil, "RWMutex.RUnlock")
}

func (m *RWMutex) RLocker() Locker { return (*rlocker)(m) }

type rlocker RWMutex

func (r *rlocker) Lock()   { (*RWMutex)(r).RLock() }
func (r *rlocker) Unlock() { (*RWMutex)(r).RUnlock() }

// ---------------------------------------------------------------- Once / Map
//
// Both are owned by the scheduler too: a tree under test that adds a lazily initialised global (sync.Once) or a
// cache (sync.Map) must neither make explored executions depend on each other (state is dropped at every new
// scheduler, like the generated reset hooks do for plain package-level variables) nor hide its synchronisation
// from the explorer (every operation is a scheduling point with the happens-before edges the real types give).

type Once struct {
	real realsync.Mutex
	mu   Mutex
	done bool
	ep   int
}

func (o *Once) Do(f func()) {
	s := sched
	if s == nil || s.cur == nil {
		o.real.Lock()
		defer o.real.Unlock()
		if o.ep != epoch {
			o.ep, o.done = epoch, false
		}
		if !o.done {
			defer func() { o.done = true }()
			f()
		}
		return
	}
	if o.ep != epoch {
		o.ep, o.done = epoch, false
	}
	o.mu.Lock() // callers that arrive while f runs wait for it, as with the real Once
	defer o.mu.Unlock()
	if !o.done {
		defer func() { o.done = true }()
		f()
	}
}

type Map struct {
	real realsync.Mutex
	m    map[any]any
	rel  vc
	ep   int
}

// enter is the common prologue: outside a scheduler the map is simply locked; under a scheduler the operation is a
// scheduling point and the map is emptied when it was last used by an earlier execution. write operations
// publish the caller's clock, every operation acquires what was published.
func (m *Map) enter(label string, write bool) (unlock func()) {
	s := sched
	if s == nil || s.cur == nil {
		m.real.Lock()
		if m.ep != epoch {
			m.ep, m.m, m.rel = epoch, nil, nil
		}
		if m.m == nil {
			m.m = map[any]any{}
		}
		return m.real.Unlock
	}
	if m.ep != epoch {
		m.ep, m.m, m.rel = epoch, nil, nil
	}
	if m.m == nil {
		m.m = map[any]any{}
	}
	s.point(opOther, nil, nil, "Map."+label)
	t := s.cur
	t.vc.join(m.rel)
	if write {
		m.rel.join(t.vc)
		t.vc[t.id]++
	}
	return func() {}
}

func (m *Map) Load(key any) (value any, ok bool) {
	defer m.enter("Load", false)()
	value, ok = m.m[key]
	return
}

func (m *Map) Store(key, value any) {
	defer m.enter("Store", true)()
	m.m[key] = value
}

func (m *Map) Clear() {
	defer m.enter("Clear", true)()
	m.m = map[any]any{}
}

func (m *Map) LoadOrStore(key, value any) (actual any, loaded bool) {
	defer m.enter("LoadOrStore", true)()
	if v, ok := m.m[key]; ok {
		return v, true
	}
	m.m[key] = value
	return value, false
}

func (m *Map) LoadAndDelete(key any) (value any, loaded bool) {
	defer m.enter("LoadAndDelete", true)()
	value, loaded = m.m[key]
	delete(m.m, key)
	return
}

func (m *Map) Delete(key any) {
	defer m.enter("Delete", true)()
	delete(m.m, key)
}

func (m *Map) Swap(key, value any) (previous any, loaded bool) {
	defer m.enter("Swap", true)()
	previous, loaded = m.m[key]
	m.m[key] = value
	return
}

func (m *Map) CompareAndSwap(key, old, new any) (swapped bool) {
	defer m.enter("CompareAndSwap", true)()
	if v, ok := m.m[key]; ok && v == old {
		m.m[key] = new
		return true
	}
	return false
}

func (m *Map) CompareAndDelete(key, old any) (deleted bool) {
	defer m.enter("CompareAndDelete", true)()
	if v, ok := m.m[key]; ok && v == old {
		delete(m.m, key)
		return true
	}
	return false
}

// Range calls f on a snapshot taken at one scheduling point (the real Range promises no more than that each key
// is visited at most once and reflects some state during the call); iteration order is made deterministic.
func (m *Map) Range(f func(key, value any) bool) {
	type kv struct{ k, v any }
	var snap []kv
	func() {
		defer m.enter("Range", false)()
		for k, v := range m.m {
			snap = append(snap, kv{k, v})
		}
	}()
	sort.Slice(snap, func(i, j int) bool { return fmt.Sprint(snap[i].k) < fmt.Sprint(snap[j].k) })
	for _, e := range snap {
		if !f(e.k, e.v) {
			return
		}
	}
}

// ---------------------------------------------------------------- Pool

type Pool struct {
	New func() any

	real       realsync.Pool
	registered bool
	items      []any
	itemVC     []vc
}

func (p *Pool) register() {
	if !p.registered {
		poolsMu.Lock()
		if !p.registered {
			p.registered = true
			allPools = append(allPools, p)
		}
		poolsMu.Unlock()
	}
}

func (p *Pool) explicit() bool { return sched != nil && sched.cur != nil || poolHook != nil }

func (p *Pool) Get() any {
	if !p.explicit() {
		if p.real.New == nil && p.New != nil {
			p.real.New = p.New
		}
		return p.real.Get()
	}
	p.register()
	if s := sched; s != nil && s.cur != nil {
		s.point(opOther, nil, nil, "Pool.Get")
	}
	// answers: 0 = a fresh object (what an empty or drained pool gives), i>0 = the i-th pooled item (most recent first)
	n := len(p.items) + 1
	c := 0
	if n > 1 {
		if s := sched; s != nil && s.cur != nil {
			// under the scheduler the DEFAULT answer (0, free of deviation cost) is the most recently pooled item —
			// what the real per-P pool normally gives — and a fresh object is the first alternative
			c = s.choose("pool.Get", n)
			switch c {
			case 0:
				c = 1
			case 1:
				c = 0
			}
		} else {
			c = poolHook("pool.Get", n)
		}
	}
	if c == 0 {
		if p.New == nil {
			return nil
		}
		return p.New()
	}
	i := len(p.items) - c
	it := p.items[i]
	p.items = append(p.items[:i:i], p.items[i+1:]...)
	if s := sched; s != nil && s.cur != nil {
		s.cur.vc.join(p.itemVC[i])
		p.itemVC = append(p.itemVC[:i:i], p.itemVC[i+1:]...)
	}
	return it
}

func (p *Pool) Put(x any) {
	if !p.explicit() {
		p.real.Put(x)
		return
	}
	p.register()
	if s := sched; s != nil && s.cur != nil {
		t := s.cur
		p.items = append(p.items, x)
		p.itemVC = append(p.itemVC, t.vc.clone())
		t.vc[t.id]++
		s.point(opOther, nil, nil, "Pool.Put")
		return
	}
	p.items = append(p.items, x)
}

// ---------------------------------------------------------------- statement-level points (C11)

// GCHook, when set by a harness, is called at every generated statement-level point of the library
// (before every statement of every function): C11 uses it to place garbage collections between any
// two statements of the decoder / encoder, not only at codec-call boundaries.
var GCHook func(label string)

// StmtPoint is called by generated instrumentation before every statement.
func StmtPoint(label string) {
	if h := GCHook; h != nil {
		h(label)
	}
	// statement-level scheduling (C12's third pass): a thread can be preempted between any two statements of the
	// library, so state that is published before it is complete is seen half-built by the others
	if s := sched; s != nil && s.cur != nil && s.StmtPoints {
		s.point(opOther, nil, nil, label)
	}
}

// ---------------------------------------------------------------- Access hooks

// Access is called by generated instrumentation before a statement that
// touches a package-level variable and at entry of pointer-receiver methods.
func Access[T any](p *T, write bool) {
	s := sched
	if s == nil || s.cur == nil || p == nil {
		return
	}
	s.access(uintptr(unsafe.Pointer(p)), write)
}

func (s *Scheduler) access(addr uintptr, write bool) {
	if s.AccessPoints {
		s.point(opOther, nil, nil, "access")
	}
	t := s.cur
	sh := s.shadows[addr]
	if sh == nil {
		sh = &shadow{rSites: map[int]string{}}
		s.shadows[addr] = sh
	}
	site := ""
	conflict := func(otherTid int, otherSite string, otherWrite bool) {
		if site == "" {
			site = callerSite()
		}
		for _, r := range s.Races {
			if r.Site1 == otherSite && r.Site2 == site {
				return
			}
		}
		s.Races = append(s.Races, Race{Site1: otherSite, Site2: site, Write1: otherWrite, Write2: write, T1: otherTid, T2: t.id})
	}
	if sh.hasW && sh.wTid != t.id && sh.wClock > t.vc.get(sh.wTid) {
		conflict(sh.wTid, sh.wSite, true)
	}
	if write {
		for tid, c := range sh.reads {
			if tid != t.id && c > t.vc.get(tid) {
				conflict(tid, sh.rSites[tid], false)
			}
		}
		if site == "" {
			site = callerSite()
		}
		sh.hasW, sh.wTid, sh.wClock, sh.wSite = true, t.id, t.vc[t.id], site
		sh.reads = nil
	} else {
		for len(sh.reads) <= t.id {
			sh.reads = append(sh.reads, 0)
		}
		sh.reads[t.id] = t.vc[t.id]
		if _, ok := sh.rSites[t.id]; !ok {
			sh.rSites[t.id] = callerSite()
		}
	}
}

func callerSite() string {
	pcs := make([]uintptr, 8)
	n := runtime.Callers(3, pcs)
	fr := runtime.CallersFrames(pcs[:n])
	for {
		f, more := fr.Next()
		if f.Function != "" && !contains(f.Function, "zzvsync") {
			fn := f.Function
			for i := len(fn) - 1; i >= 0; i-- {
				if fn[i] == '/' {
					fn = fn[i+1:]
					break
				}
			}
			return fn
		}
		if !more {
			return "?"
		}
	}
}

func contains(s, sub string) bool {
	for i := 0; i+len(sub) <= len(s); i++ {
		if s[i:i+len(sub)] == sub {
			return true
		}
	}
	return false
}

// Package aschema converts between the reference schema AST and avro.Schema
// values and compares avro.Schema values structurally.
package aschema

import (
	"fmt"

	"github.com/philpearl/avro"

	"verifharness/ref"
)

// ToAvro builds the avro.Schema value that parsing the rendering of s must produce.
func ToAvro(s *ref.Schema) avro.Schema {
	switch {
	case s.Type == "union":
		out := avro.Schema{Type: "union"}
		for _, b := range s.Branches {
			out.Union = append(out.Union, ToAvro(b))
		}
		return out
	case ref.IsPrimitive(s.Type) && !s.ObjectForm && s.Logical == "" && len(s.Extra) == 0:
		return avro.Schema{Type: s.Type}
	}
	o := &avro.SchemaObject{LogicalType: s.Logical, Name: s.Name, Namespace: s.Namespace, Size: s.Size, Symbols: s.Symbols}
	for _, f := range s.Fields {
		o.Fields = append(o.Fields, avro.SchemaRecordField{Name: f.Name, Type: ToAvro(f.Type)})
	}
	if s.Items != nil {
		o.Items = ToAvro(s.Items)
	}
	if s.Values != nil {
		o.Values = ToAvro(s.Values)
	}
	return avro.Schema{Type: s.Type, Object: o}
}

// FromAvro converts an avro.Schema into the reference AST.
func FromAvro(a avro.Schema) *ref.Schema {
	s := &ref.Schema{Type: a.Type}
	for i := range a.Union {
		s.Branches = append(s.Branches, FromAvro(a.Union[i]))
	}
	if a.Object != nil {
		o := a.Object
		s.ObjectForm = true
		s.Logical, s.Name, s.Namespace, s.Size, s.Symbols = o.LogicalType, o.Name, o.Namespace, o.Size, o.Symbols
		for _, f := range o.Fields {
			s.Fields = append(s.Fields, ref.Field{Name: f.Name, Type: FromAvro(f.Type)})
		}
		if a.Type == "array" {
			s.Items = FromAvro(o.Items)
		}
		if a.Type == "map" {
			s.Values = FromAvro(o.Values)
		}
	}
	return s
}

func emptyObj(o *avro.SchemaObject) bool {
	return o == nil || (o.Type == "" && o.LogicalType == "" && o.Name == "" && o.Namespace == "" && len(o.Fields) == 0 && o.Size == 0 && len(o.Symbols) == 0 &&
		zeroSchema(o.Items) && zeroSchema(o.Values))
}

func zeroSchema(s avro.Schema) bool { return s.Type == "" && emptyObj(s.Object) && len(s.Union) == 0 }

// Diff compares two avro.Schema values structurally (nil ≡ empty slices, nil
// Object ≡ all-zero Object); it returns "" or the path of the first difference.
func Diff(a, b avro.Schema) string { return diff(a, b, "$") }

func diff(a, b avro.Schema, path string) string {
	if a.Type != b.Type {
		return fmt.Sprintf("%s: type %q vs %q", path, a.Type, b.Type)
	}
	if len(a.Union) != len(b.Union) {
		return fmt.Sprintf("%s: %d vs %d union branches", path, len(a.Union), len(b.Union))
	}
	for i := range a.Union {
		if d := diff(a.Union[i], b.Union[i], fmt.Sprintf("%s[%d]", path, i)); d != "" {
			return d
		}
	}
	if emptyObj(a.Object) && emptyObj(b.Object) {
		return ""
	}
	ao, bo := a.Object, b.Object
	if ao == nil {
		ao = &avro.SchemaObject{}
	}
	if bo == nil {
		bo = &avro.SchemaObject{}
	}
	switch {
	case ao.Type != bo.Type:
		return fmt.Sprintf("%s: Object.Type %q vs %q", path, ao.Type, bo.Type)
	case ao.LogicalType != bo.LogicalType:
		return fmt.Sprintf("%s: logicalType %q vs %q", path, ao.LogicalType, bo.LogicalType)
	case ao.Name != bo.Name:
		return fmt.Sprintf("%s: name %q vs %q", path, ao.Name, bo.Name)
	case ao.Namespace != bo.Namespace:
		return fmt.Sprintf("%s: namespace %q vs %q", path, ao.Namespace, bo.Namespace)
	case ao.Size != bo.Size:
		return fmt.Sprintf("%s: size %d vs %d", path, ao.Size, bo.Size)
	case len(ao.Symbols) != len(bo.Symbols):
		return fmt.Sprintf("%s: %d vs %d symbols", path, len(ao.Symbols), len(bo.Symbols))
	case len(ao.Fields) != len(bo.Fields):
		return fmt.Sprintf("%s: %d vs %d fields", path, len(ao.Fields), len(bo.Fields))
	}
	for i := range ao.Symbols {
		if ao.Symbols[i] != bo.Symbols[i] {
			return fmt.Sprintf("%s: symbol %d %q vs %q", path, i, ao.Symbols[i], bo.Symbols[i])
		}
	}
	for i := range ao.Fields {
		if ao.Fields[i].Name != bo.Fields[i].Name {
			return fmt.Sprintf("%s: field %d name %q vs %q", path, i, ao.Fields[i].Name, bo.Fields[i].Name)
		}
		if d := diff(ao.Fields[i].Type, bo.Fields[i].Type, path+"."+ao.Fields[i].Name); d != "" {
			return d
		}
	}
	if d := diff(ao.Items, bo.Items, path+".items"); d != "" {
		return d
	}
	return diff(ao.Values, bo.Values, path+".values")
}

// racepass runs the C12 scenario bodies free-running on real goroutines; it
// is built with -race (real sync package, no overlay) by run.sh. It decides
// nothing by itself: a race report is a violation, silence is auxiliary evidence.
package main

import (
	"flag"
	"fmt"
	"os"
	"sync"

	"verifharness/c12body"
)

type rchan struct{ c chan any }

func (r rchan) Send(v any)        { r.c <- v }
func (r rchan) Recv() (any, bool) { v, ok := <-r.c; return v, ok }
func (r rchan) Close()            { close(r.c) }

func main() {
	rounds := flag.Int("rounds", 400, "rounds per scenario")
	flag.Parse()
	env := &c12body.Env{NewChan: func() c12body.Chan { return rchan{make(chan any, 64)} }}
	bad := 0
	for _, sc := range c12body.Scenarios() {
		for r := 0; r < *rounds; r++ {
			st := sc.Setup(env)
			obs := make([]c12body.Obs, sc.Threads)
			var wg sync.WaitGroup
			// 16 goroutines: the scenario's threads plus extra copies of its non-unique bodies
			for i := 0; i < sc.Threads; i++ {
				wg.Add(1)
				go func(i int) { defer wg.Done(); obs[i] = sc.Body(st, i) }(i)
			}
			wg.Wait()
			if e := sc.Check(st, obs); e != "" {
				bad++
				if bad < 5 {
					fmt.Printf("RESULT-MISMATCH scenario %q round %d: %s\n", sc.Name, r, e)
				}
			}
		}
	}
	if bad > 0 {
		fmt.Printf("%d result mismatches\n", bad)
		os.Exit(3)
	}
	fmt.Println("racepass ok")
}

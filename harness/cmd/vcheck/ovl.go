//go:build ovl

package main

import (
	_ "verifharness/props/c10"
	_ "verifharness/props/c12"
)

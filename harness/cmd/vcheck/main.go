// vcheck runs one property check (parent), a worker shard, or a replay.
package main

import (
	"fmt"
	"os"

	"verifharness/fw"
	_ "verifharness/props/c0102"
	_ "verifharness/props/c0304"
	_ "verifharness/props/c05"
	_ "verifharness/props/c06"
	_ "verifharness/props/c07"
	_ "verifharness/props/c08"
	_ "verifharness/props/c09"
	_ "verifharness/props/c11"
	_ "verifharness/props/c13"
	_ "verifharness/props/c14"
	_ "verifharness/props/c15"
	_ "verifharness/props/c16"
	_ "verifharness/props/c17"
	_ "verifharness/props/c20"
	_ "verifharness/props/ctime"
)

func main() {
	if len(os.Args) >= 2 && os.Args[1] == "-worker" {
		os.Exit(fw.WorkerMain(os.Args[2:]))
	}
	if len(os.Args) >= 3 && os.Args[1] == "replay" {
		os.Exit(fw.ReplayMain(os.Args[2]))
	}
	if len(os.Args) < 2 {
		fmt.Fprintln(os.Stderr, "usage: vcheck <ID> [quick|thorough] | vcheck replay <file>; checks:", fw.IDs())
		os.Exit(2)
	}
	tier := "quick"
	if len(os.Args) >= 3 {
		tier = os.Args[2]
	}
	if t := os.Getenv("VERIF_TIER"); t != "" && len(os.Args) < 3 {
		tier = t
	}
	os.Exit(fw.ParentMain(os.Args[1], tier))
}

// ovgen generates the build overlay that (1) replaces the import "sync" by
// the zzvsync shim in every non-test file of the avro module's three
// packages, (2) inserts zzvsync.Access hooks before statements that touch
// package-level variables and at entry of pointer-receiver methods, and (3)
// adds the shim as the virtual package github.com/philpearl/avro/zzvsync.
// It reads the CURRENT tree of the repository and writes only below -out.
//
// usage: ovgen -repo /repo -shim /verif/harness/zzvsync_src -out /verif/.work/ov
package main

import (
	"bytes"
	"encoding/json"
	"flag"
	"fmt"
	"go/ast"
	"go/parser"
	"go/printer"
	"go/token"
	"os"
	"path/filepath"
	"sort"
	"strconv"
	"strings"
)

const shimPath = "github.com/philpearl/avro/zzvsync"
const hookAlias = "zzvs"

var syncTypeNames = map[string]bool{"Mutex": true, "RWMutex": true, "Pool": true, "Once": true, "WaitGroup": true, "Map": true, "Cond": true}

type report struct {
	Files         []string          `json:"files"`
	VarHooks      int               `json:"var_hooks"`
	MethodHooks   int               `json:"method_hooks"`
	WriterMethods []string          `json:"writer_methods"`
	ReaderMethods []string          `json:"reader_methods"`
	PackageVars   map[string]string `json:"package_vars"`
	Resets        []string          `json:"resets"`
	StmtPoints    int               `json:"stmt_points"`
}

func main() {
	repo := flag.String("repo", "/repo", "repository root")
	shim := flag.String("shim", "", "directory with the shim sources")
	out := flag.String("out", "", "output directory")
	stmtPoints := flag.Bool("stmtpoints", false, "also insert zzvs.StmtPoint(label) before every statement of every function")
	flag.Parse()
	if *shim == "" || *out == "" {
		fmt.Fprintln(os.Stderr, "ovgen: -shim and -out are required")
		os.Exit(2)
	}
	os.RemoveAll(*out)
	if err := os.MkdirAll(*out, 0o755); err != nil {
		fail(err)
	}
	overlay := map[string]string{}
	rep := report{PackageVars: map[string]string{}}
	for _, pkgDir := range []string{"", "time", "null"} {
		dir := filepath.Join(*repo, pkgDir)
		entries, err := os.ReadDir(dir)
		if err != nil {
			fail(err)
		}
		fset := token.NewFileSet()
		var files []*ast.File
		var names []string
		for _, e := range entries {
			n := e.Name()
			if e.IsDir() || !strings.HasSuffix(n, ".go") || strings.HasSuffix(n, "_test.go") {
				continue
			}
			f, err := parser.ParseFile(fset, filepath.Join(dir, n), nil, parser.ParseComments)
			if err != nil {
				fail(fmt.Errorf("cannot parse %s: %w", filepath.Join(dir, n), err))
			}
			files = append(files, f)
			names = append(names, n)
		}
		// package-level variables (excluding shim sync types)
		pkgVars := map[string]bool{}
		structTypes := map[string]bool{}
		for _, f := range files {
			for _, d := range f.Decls {
				gd, ok := d.(*ast.GenDecl)
				if !ok {
					continue
				}
				for _, sp := range gd.Specs {
					switch s := sp.(type) {
					case *ast.ValueSpec:
						if gd.Tok != token.VAR {
							continue
						}
						if isSyncType(s.Type) {
							continue
						}
						for i, n := range s.Names {
							if n.Name == "_" {
								continue
							}
							if i < len(s.Values) && isSyncComposite(s.Values[i]) {
								continue
							}
							pkgVars[n.Name] = true
							rep.PackageVars[pkgName(pkgDir)+"."+n.Name] = "hooked"
							if i < len(s.Values) && isStatefulInit(s.Values[i]) {
								statefulVars[n.Name] = true
								rep.PackageVars[pkgName(pkgDir)+"."+n.Name] = "hooked; method calls on it count as writes (object built by a constructor outside the library)"
							}
						}
					case *ast.TypeSpec:
						if _, ok := s.Type.(*ast.StructType); ok {
							structTypes[s.Name.Name] = true
						}
					}
				}
			}
		}
		for i, f := range files {
			changed := false
			usesSync := false
			for _, im := range f.Imports {
				if im.Path.Value == `"sync"` {
					im.Path.Value = strconv.Quote(shimPath)
					im.Name = ast.NewIdent("sync")
					usesSync = true
					changed = true
				}
			}
			_ = usesSync
			hooks := 0
			for _, d := range f.Decls {
				fd, ok := d.(*ast.FuncDecl)
				if !ok || fd.Body == nil {
					continue
				}
				locals := collectLocalNames(fd)
				// (a) method-entry hook for pointer receivers of package struct types
				if fd.Recv != nil && len(fd.Recv.List) == 1 {
					r := fd.Recv.List[0]
					if star, ok := r.Type.(*ast.StarExpr); ok && len(r.Names) == 1 && r.Names[0].Name != "_" {
						tn := baseTypeName(star.X)
						if structTypes[tn] {
							recv := r.Names[0].Name
							w := methodWrites(fd, recv)
							name := pkgName(pkgDir) + ".(*" + tn + ")." + fd.Name.Name
							if w {
								rep.WriterMethods = append(rep.WriterMethods, name)
							} else {
								rep.ReaderMethods = append(rep.ReaderMethods, name)
							}
							fd.Body.List = append([]ast.Stmt{accessCall(ast.NewIdent(recv), w, false)}, fd.Body.List...)
							rep.MethodHooks++
							hooks++
						}
					}
				}
				// (b) hooks before statements touching package-level variables
				n := instrumentBlock(fd.Body, pkgVars, locals)
				rep.VarHooks += n
				hooks += n
				if *stmtPoints {
					fname := fd.Name.Name
					if fd.Recv != nil && len(fd.Recv.List) == 1 {
						fname = baseTypeName(stripStar(fd.Recv.List[0].Type)) + "." + fname
					}
					k := insertStmtPoints(fd.Body, pkgName(pkgDir)+"."+fname)
					rep.StmtPoints += k
					hooks += k
				}
			}
			// (c) reset functions for package-level maps (registries, caches) declared in this file
			var resetSrc, snapSrc []string
			for _, d := range f.Decls {
				gd, ok := d.(*ast.GenDecl)
				if !ok || gd.Tok != token.VAR {
					continue
				}
				for _, sp := range gd.Specs {
					vs := sp.(*ast.ValueSpec)
					if isSyncType(vs.Type) {
						continue
					}
					for vi, n := range vs.Names {
						if n.Name == "_" {
							continue
						}
						switch {
						case len(vs.Values) == len(vs.Names):
							if isSyncComposite(vs.Values[vi]) {
								continue
							}
							if isMapInit(vs.Values[vi]) {
								// a map (registry, cache): restore a copy of its contents as they were once the
								// package's init functions had run — they may have pre-populated it
								snapSrc = append(snapSrc, "{ s := "+hookAlias+".CloneMap("+n.Name+"); fs = append(fs, func() { "+n.Name+" = "+hookAlias+".CloneMap(s) }) }")
								rep.Resets = append(rep.Resets, pkgName(pkgDir)+"."+n.Name)
								continue
							}
							// restore the initial value by re-evaluating the initialiser
							var eb bytes.Buffer
							printer.Fprint(&eb, fset, vs.Values[vi])
							resetSrc = append(resetSrc, n.Name+" = "+eb.String())
						case len(vs.Values) == 0 && vs.Type != nil:
							// no initialiser: the value the variable has once the package's init functions have
							// run (it may be set up there), captured at the first ResetAll — not the zero value
							if _, isMap := vs.Type.(*ast.MapType); isMap {
								snapSrc = append(snapSrc, "{ s := "+hookAlias+".CloneMap("+n.Name+"); fs = append(fs, func() { "+n.Name+" = "+hookAlias+".CloneMap(s) }) }")
							} else {
								snapSrc = append(snapSrc, "{ s := "+n.Name+"; fs = append(fs, func() { "+n.Name+" = s }) }")
							}
						default:
							continue
						}
						rep.Resets = append(rep.Resets, pkgName(pkgDir)+"."+n.Name)
					}
				}
			}
			if hooks > 0 || len(resetSrc) > 0 || len(snapSrc) > 0 {
				addImport(f, hookAlias, shimPath)
				changed = true
			}
			if !changed {
				continue
			}
			var buf bytes.Buffer
			if err := printer.Fprint(&buf, fset, f); err != nil {
				fail(err)
			}
			if len(resetSrc) > 0 {
				buf.WriteString("\n\nfunc init() {\n\t" + hookAlias + ".RegisterReset(func() {\n")
				for _, r := range resetSrc {
					buf.WriteString("\t\t" + r + "\n")
				}
				buf.WriteString("\t})\n}\n")
			}
			if len(snapSrc) > 0 {
				buf.WriteString("\n\nfunc init() {\n\t" + hookAlias + ".RegisterSnapshotReset(func() (fs []func()) {\n")
				for _, r := range snapSrc {
					buf.WriteString("\t\t" + r + "\n")
				}
				buf.WriteString("\t\treturn fs\n\t})\n}\n")
			}
			rel := filepath.Join(pkgDir, names[i])
			dst := filepath.Join(*out, strings.ReplaceAll(rel, "/", "__"))
			if err := os.WriteFile(dst, buf.Bytes(), 0o644); err != nil {
				fail(err)
			}
			overlay[filepath.Join(*repo, rel)] = dst
			rep.Files = append(rep.Files, rel)
		}
	}
	// the shim as a virtual package inside the module
	shimFiles, _ := filepath.Glob(filepath.Join(*shim, "*.go"))
	for _, sf := range shimFiles {
		overlay[filepath.Join(*repo, "zzvsync", filepath.Base(sf))] = sf
	}
	ob, _ := json.MarshalIndent(map[string]interface{}{"Replace": overlay}, "", " ")
	if err := os.WriteFile(filepath.Join(*out, "overlay.json"), ob, 0o644); err != nil {
		fail(err)
	}
	sort.Strings(rep.WriterMethods)
	sort.Strings(rep.ReaderMethods)
	rb, _ := json.MarshalIndent(rep, "", " ")
	os.WriteFile(filepath.Join(*out, "report.json"), rb, 0o644)
	fmt.Printf("ovgen: %d files rewritten, %d variable hooks, %d method hooks (%d writers)\n", len(rep.Files), rep.VarHooks, rep.MethodHooks, len(rep.WriterMethods))
}

func fail(err error) {
	fmt.Fprintln(os.Stderr, "ovgen:", err)
	os.Exit(2)
}

func pkgName(dir string) string {
	if dir == "" {
		return "avro"
	}
	return dir
}

func isSyncType(e ast.Expr) bool {
	if e == nil {
		return false
	}
	if s, ok := e.(*ast.SelectorExpr); ok {
		if x, ok := s.X.(*ast.Ident); ok && x.Name == "sync" && syncTypeNames[s.Sel.Name] {
			return true
		}
	}
	return false
}

// isMapInit reports whether an initialiser expression is make(map[...]...) or a map composite literal.
func isMapInit(e ast.Expr) bool {
	switch x := e.(type) {
	case *ast.CallExpr:
		if id, ok := x.Fun.(*ast.Ident); ok && id.Name == "make" && len(x.Args) > 0 {
			_, ok := x.Args[0].(*ast.MapType)
			return ok
		}
	case *ast.CompositeLit:
		_, ok := x.Type.(*ast.MapType)
		return ok
	}
	return false
}

func isSyncComposite(e ast.Expr) bool {
	if cl, ok := e.(*ast.CompositeLit); ok {
		return isSyncType(cl.Type)
	}
	return false
}

func baseTypeName(e ast.Expr) string {
	switch x := e.(type) {
	case *ast.Ident:
		return x.Name
	case *ast.IndexExpr:
		return baseTypeName(x.X)
	case *ast.IndexListExpr:
		return baseTypeName(x.X)
	}
	return ""
}

func addImport(f *ast.File, alias, path string) {
	spec := &ast.ImportSpec{Name: ast.NewIdent(alias), Path: &ast.BasicLit{Kind: token.STRING, Value: strconv.Quote(path)}}
	for _, d := range f.Decls {
		if gd, ok := d.(*ast.GenDecl); ok && gd.Tok == token.IMPORT {
			gd.Specs = append(gd.Specs, spec)
			if !gd.Lparen.IsValid() {
				gd.Lparen = gd.Pos()
				gd.Rparen = gd.End()
			}
			f.Imports = append(f.Imports, spec)
			return
		}
	}
	gd := &ast.GenDecl{Tok: token.IMPORT, Specs: []ast.Spec{spec}}
	f.Decls = append([]ast.Decl{gd}, f.Decls...)
	f.Imports = append(f.Imports, spec)
}

// accessCall builds: zzvs.Access(&x, write)   (or zzvs.Access(x, write) when x is already a pointer)
func accessCall(x ast.Expr, write bool, takeAddr bool) ast.Stmt {
	arg := x
	if takeAddr {
		arg = &ast.UnaryExpr{Op: token.AND, X: x}
	}
	w := "false"
	if write {
		w = "true"
	}
	return &ast.ExprStmt{X: &ast.CallExpr{
		Fun:  &ast.SelectorExpr{X: ast.NewIdent(hookAlias), Sel: ast.NewIdent("Access")},
		Args: []ast.Expr{arg, ast.NewIdent(w)},
	}}
}

// collectLocalNames gathers every name declared inside the function
// (parameters, results, receiver, :=, var, range) — a package-level variable
// shadowed by any of them is not instrumented in this function.
func collectLocalNames(fd *ast.FuncDecl) map[string]bool {
	locals := map[string]bool{}
	addFields := func(fl *ast.FieldList) {
		if fl == nil {
			return
		}
		for _, f := range fl.List {
			for _, n := range f.Names {
				locals[n.Name] = true
			}
		}
	}
	addFields(fd.Recv)
	addFields(fd.Type.Params)
	addFields(fd.Type.Results)
	ast.Inspect(fd.Body, func(n ast.Node) bool {
		switch s := n.(type) {
		case *ast.AssignStmt:
			if s.Tok == token.DEFINE {
				for _, l := range s.Lhs {
					if id, ok := l.(*ast.Ident); ok {
						locals[id.Name] = true
					}
				}
			}
		case *ast.ValueSpec:
			for _, id := range s.Names {
				locals[id.Name] = true
			}
		case *ast.RangeStmt:
			if s.Tok == token.DEFINE {
				if id, ok := s.Key.(*ast.Ident); ok {
					locals[id.Name] = true
				}
				if id, ok := s.Value.(*ast.Ident); ok {
					locals[id.Name] = true
				}
			}
		case *ast.FuncLit:
			addFields(s.Type.Params)
			addFields(s.Type.Results)
		}
		return true
	})
	return locals
}

// rootIdent returns the identifier at the root of a selector/index/star/paren chain.
func rootIdent(e ast.Expr) *ast.Ident {
	for {
		switch x := e.(type) {
		case *ast.Ident:
			return x
		case *ast.SelectorExpr:
			e = x.X
		case *ast.IndexExpr:
			e = x.X
		case *ast.StarExpr:
			e = x.X
		case *ast.ParenExpr:
			e = x.X
		case *ast.SliceExpr:
			e = x.X
		default:
			return nil
		}
	}
}

// headerNodes returns the parts of a statement that belong to the statement
// itself (nested blocks are instrumented separately).
func headerNodes(s ast.Stmt) []ast.Node {
	var out []ast.Node
	add := func(n ast.Node) {
		if n != nil && !isNilNode(n) {
			out = append(out, n)
		}
	}
	switch x := s.(type) {
	case *ast.IfStmt:
		add(x.Init)
		add(x.Cond)
	case *ast.ForStmt:
		add(x.Init)
		add(x.Cond)
		add(x.Post)
	case *ast.RangeStmt:
		add(x.X)
	case *ast.SwitchStmt:
		add(x.Init)
		add(x.Tag)
	case *ast.TypeSwitchStmt:
		add(x.Init)
		add(x.Assign)
	case *ast.SelectStmt, *ast.BlockStmt, *ast.LabeledStmt, *ast.CaseClause, *ast.CommClause:
	default:
		add(s)
	}
	return out
}

func isNilNode(n ast.Node) bool {
	switch x := n.(type) {
	case ast.Stmt:
		return x == nil
	case ast.Expr:
		return x == nil
	}
	return false
}

// varRefs finds package-level variables mentioned in the nodes and whether each is written.
// statefulVars: package-level variables that hold an object made by a constructor of another package which is not
// known to return an immutable or internally synchronised value (rand.New, bytes.NewBuffer, flate.NewWriter, ...):
// the library cannot see into its methods, so every method call on it is taken as a write to the variable's object.
var statefulVars = map[string]bool{}

func isStatefulInit(e ast.Expr) bool {
	if u, ok := e.(*ast.UnaryExpr); ok && u.Op == token.AND {
		e = u.X
	}
	switch x := e.(type) {
	case *ast.CallExpr:
		sel, ok := x.Fun.(*ast.SelectorExpr)
		if !ok {
			return false
		}
		pkg, ok := sel.X.(*ast.Ident)
		if !ok {
			return false
		}
		switch pkg.Name {
		case "reflect", "errors", "fmt", "regexp", "sync", "atomic", "time", "unsafe", "binary", "math", "strconv":
			return false
		case "strings":
			return sel.Sel.Name != "NewReplacer" // a Replacer is safe for concurrent use; Builder/Reader are not
		}
		return true
	case *ast.CompositeLit:
		// a composite literal of a type from another package (bytes.Buffer{}, rand.Rand{}...)
		if sel, ok := x.Type.(*ast.SelectorExpr); ok {
			if pkg, ok := sel.X.(*ast.Ident); ok {
				switch pkg.Name {
				case "sync", "atomic", "reflect", "time":
					return false
				}
				return true
			}
		}
	}
	return false
}

func varRefs(nodes []ast.Node, pkgVars, locals map[string]bool) map[string]bool {
	refs := map[string]bool{}
	for _, n := range nodes {
		// writes
		ast.Inspect(n, func(m ast.Node) bool {
			switch s := m.(type) {
			case *ast.FuncLit:
				return false
			case *ast.AssignStmt:
				for _, l := range s.Lhs {
					if id := rootIdent(l); id != nil && pkgVars[id.Name] && !locals[id.Name] {
						refs[id.Name] = true
					}
				}
			case *ast.IncDecStmt:
				if id := rootIdent(s.X); id != nil && pkgVars[id.Name] && !locals[id.Name] {
					refs[id.Name] = true
				}
			case *ast.CallExpr:
				if sel, ok := s.Fun.(*ast.SelectorExpr); ok {
					if id := rootIdent(sel.X); id != nil && statefulVars[id.Name] && pkgVars[id.Name] && !locals[id.Name] {
						refs[id.Name] = true
					}
				}
				if f, ok := s.Fun.(*ast.Ident); ok && (f.Name == "delete" || f.Name == "clear") && len(s.Args) > 0 {
					if id := rootIdent(s.Args[0]); id != nil && pkgVars[id.Name] && !locals[id.Name] {
						refs[id.Name] = true
					}
				}
			}
			return true
		})
		// reads (any mention that is not a selector's field name or a composite-literal key)
		ast.Inspect(n, func(m ast.Node) bool {
			switch s := m.(type) {
			case *ast.FuncLit:
				return false
			case *ast.SelectorExpr:
				// only the X side can be a variable
				ast.Inspect(s.X, func(k ast.Node) bool {
					if id, ok := k.(*ast.Ident); ok && pkgVars[id.Name] && !locals[id.Name] {
						if _, seen := refs[id.Name]; !seen {
							refs[id.Name] = false
						}
					}
					return true
				})
				return false
			case *ast.KeyValueExpr:
				ast.Inspect(s.Value, func(k ast.Node) bool {
					if id, ok := k.(*ast.Ident); ok && pkgVars[id.Name] && !locals[id.Name] {
						if _, seen := refs[id.Name]; !seen {
							refs[id.Name] = false
						}
					}
					return true
				})
				return false
			case *ast.Ident:
				if pkgVars[s.Name] && !locals[s.Name] {
					if _, seen := refs[s.Name]; !seen {
						refs[s.Name] = false
					}
				}
			}
			return true
		})
	}
	return refs
}

// instrumentBlock inserts hooks into every statement list below b.
func instrumentBlock(b *ast.BlockStmt, pkgVars, locals map[string]bool) int {
	n := 0
	var doList func(list []ast.Stmt) []ast.Stmt
	var doStmt func(s ast.Stmt)
	doStmt = func(s ast.Stmt) {
		switch x := s.(type) {
		case *ast.BlockStmt:
			x.List = doList(x.List)
		case *ast.IfStmt:
			x.Body.List = doList(x.Body.List)
			if x.Else != nil {
				doStmt(x.Else)
			}
		case *ast.ForStmt:
			x.Body.List = doList(x.Body.List)
		case *ast.RangeStmt:
			x.Body.List = doList(x.Body.List)
		case *ast.SwitchStmt:
			for _, c := range x.Body.List {
				cc := c.(*ast.CaseClause)
				cc.Body = doList(cc.Body)
			}
		case *ast.TypeSwitchStmt:
			for _, c := range x.Body.List {
				cc := c.(*ast.CaseClause)
				cc.Body = doList(cc.Body)
			}
		case *ast.SelectStmt:
			for _, c := range x.Body.List {
				cc := c.(*ast.CommClause)
				cc.Body = doList(cc.Body)
			}
		case *ast.LabeledStmt:
			doStmt(x.Stmt)
		}
	}
	doList = func(list []ast.Stmt) []ast.Stmt {
		var out []ast.Stmt
		for _, s := range list {
			refs := varRefs(headerNodes(s), pkgVars, locals)
			names := make([]string, 0, len(refs))
			for k := range refs {
				names = append(names, k)
			}
			sort.Strings(names)
			for _, k := range names {
				out = append(out, accessCall(ast.NewIdent(k), refs[k], true))
				n++
			}
			doStmt(s)
			out = append(out, s)
		}
		return out
	}
	b.List = doList(b.List)
	return n
}

func stripStar(e ast.Expr) ast.Expr {
	if s, ok := e.(*ast.StarExpr); ok {
		return s.X
	}
	return e
}

// insertStmtPoints inserts zzvs.StmtPoint("<func>#<n>") before every statement of every statement list
// below b (generated hook calls themselves are skipped).
func insertStmtPoints(b *ast.BlockStmt, fname string) int {
	n := 0
	isHook := func(s ast.Stmt) bool {
		es, ok := s.(*ast.ExprStmt)
		if !ok {
			return false
		}
		call, ok := es.X.(*ast.CallExpr)
		if !ok {
			return false
		}
		sel, ok := call.Fun.(*ast.SelectorExpr)
		if !ok {
			return false
		}
		x, ok := sel.X.(*ast.Ident)
		return ok && x.Name == hookAlias
	}
	var doList func(list []ast.Stmt) []ast.Stmt
	var doStmt func(s ast.Stmt)
	doStmt = func(s ast.Stmt) {
		switch x := s.(type) {
		case *ast.BlockStmt:
			x.List = doList(x.List)
		case *ast.IfStmt:
			x.Body.List = doList(x.Body.List)
			if x.Else != nil {
				doStmt(x.Else)
			}
		case *ast.ForStmt:
			x.Body.List = doList(x.Body.List)
		case *ast.RangeStmt:
			x.Body.List = doList(x.Body.List)
		case *ast.SwitchStmt:
			for _, c := range x.Body.List {
				cc := c.(*ast.CaseClause)
				cc.Body = doList(cc.Body)
			}
		case *ast.TypeSwitchStmt:
			for _, c := range x.Body.List {
				cc := c.(*ast.CaseClause)
				cc.Body = doList(cc.Body)
			}
		case *ast.LabeledStmt:
			doStmt(x.Stmt)
		}
	}
	doList = func(list []ast.Stmt) []ast.Stmt {
		var out []ast.Stmt
		for _, s := range list {
			if !isHook(s) {
				n++
				out = append(out, &ast.ExprStmt{X: &ast.CallExpr{
					Fun:  &ast.SelectorExpr{X: ast.NewIdent(hookAlias), Sel: ast.NewIdent("StmtPoint")},
					Args: []ast.Expr{&ast.BasicLit{Kind: token.STRING, Value: strconv.Quote(fmt.Sprintf("%s#%d", fname, n))}},
				}})
			}
			doStmt(s)
			out = append(out, s)
		}
		return out
	}
	b.List = doList(b.List)
	return n
}

// methodWrites decides whether a pointer-receiver method writes the receiver's
// object: some assignment / inc-dec has an LHS that is a selector, index or
// dereference rooted at the receiver or at a receiver-derived local.
func methodWrites(fd *ast.FuncDecl, recv string) bool {
	derived := map[string]bool{recv: true}
	// derived locals: x := &recv.f / recv.f[i] / recv.m(...) / &recv.f[i] ... (fixpoint)
	for changed := true; changed; {
		changed = false
		ast.Inspect(fd.Body, func(n ast.Node) bool {
			as, ok := n.(*ast.AssignStmt)
			if !ok || len(as.Lhs) == 0 {
				return true
			}
			for i, l := range as.Lhs {
				id, ok := l.(*ast.Ident)
				if !ok || derived[id.Name] || i >= len(as.Rhs) && len(as.Rhs) != 1 {
					continue
				}
				r := as.Rhs[0]
				if len(as.Rhs) == len(as.Lhs) {
					r = as.Rhs[i]
				}
				if derivesFrom(r, derived) {
					derived[id.Name] = true
					changed = true
				}
			}
			return true
		})
		// range over receiver fields by pointer: for i := range recv.x { t := &recv.x[i] } is covered above
	}
	writes := false
	check := func(lhs ast.Expr) {
		switch lhs.(type) {
		case *ast.SelectorExpr, *ast.IndexExpr, *ast.StarExpr:
			if id := rootIdent(lhs); id != nil && derived[id.Name] {
				writes = true
			}
		}
	}
	ast.Inspect(fd.Body, func(n ast.Node) bool {
		switch s := n.(type) {
		case *ast.AssignStmt:
			for _, l := range s.Lhs {
				check(l)
			}
		case *ast.IncDecStmt:
			check(s.X)
		}
		return true
	})
	return writes
}

func derivesFrom(e ast.Expr, derived map[string]bool) bool {
	switch x := e.(type) {
	case *ast.UnaryExpr:
		if x.Op == token.AND {
			if id := rootIdent(x.X); id != nil && derived[id.Name] {
				return true
			}
		}
	case *ast.CallExpr:
		if sel, ok := x.Fun.(*ast.SelectorExpr); ok {
			if id := rootIdent(sel.X); id != nil && derived[id.Name] {
				return true // method call on the receiver (or on something inside it)
			}
		}
	case *ast.SelectorExpr, *ast.IndexExpr:
		if id := rootIdent(x); id != nil && derived[id.Name] {
			// a plain copy of a field is only an alias when it is pointer-like; without types we
			// keep it (over-approximation towards 'derived' only matters if it is later written through)
			return true
		}
	case *ast.ParenExpr:
		return derivesFrom(x.X, derived)
	}
	return false
}

// Package c12body holds the scenario bodies of C12. They use only the
// library's public API plus an abstract hand-over channel, so the same code
// runs (a) under the cooperative scheduler of the overlay build and (b)
// free-running on real goroutines under Go's race detector.
package c12body

import (
	"bytes"
	"fmt"
	"reflect"
	"strings"
	"sync/atomic"
	"time"
	"unsafe"

	"github.com/philpearl/avro"
	"github.com/unravelin/null/v5"

	"verifharness/filedrv"
	"verifharness/gv"
	"verifharness/ref"
	"verifharness/reg"
)

// Chan is the hand-over primitive supplied by the driver.
type Chan interface {
	Send(v any)
	Recv() (any, bool)
	Close()
}

// Env is what the driver provides to a scenario execution.
type Env struct {
	NewChan func() Chan
	// Exec is a per-process execution counter (used to pick fresh time-zone offsets).
	Exec int64
}

// State is the per-execution state prepared by Setup (outside the explored part).
type State struct {
	Env    *Env
	Codec  avro.Codec
	Schema avro.Schema
	Ch     Chan
	Data   [][]byte
	Want   []reflect.Value
	File   []byte
	Offset int
	Flip   bool
}

// Obs is a thread's observation.
type Obs struct {
	S   string
	Err string
}

type Scenario struct {
	Name    string
	Threads int
	// NoLibraryRegistration: the execution starts with EMPTY registries (the driver does not call the time / null
	// packages' RegisterCodecs before Setup)
	NoLibraryRegistration bool
	Setup   func(env *Env) *State
	Body    func(st *State, tid int) Obs
	// Allowed returns "" if the observations are what some sequential order of the operations allows.
	Check func(st *State, obs []Obs) string
}

// ---- custom registered type whose builder is observable

type Cust int64

type HolderC struct {
	C Cust `json:"c"`
}

type offsetCodec struct {
	avro.Int64Codec
	off int64
}

func (c offsetCodec) Read(r *avro.ReadBuf, p unsafe.Pointer) error {
	if err := c.Int64Codec.Read(r, p); err != nil {
		return err
	}
	*(*int64)(p) += c.off
	return nil
}

func builder(off int64) avro.CodecBuildFunc {
	return func(s avro.Schema, t reflect.Type, omit bool) (avro.Codec, error) {
		return offsetCodec{off: off}, nil
	}
}

var custT = reflect.TypeOf(Cust(0))

type Cust2 int64

type Holder2 struct {
	C Cust2 `json:"c"`
}

var cust2T = reflect.TypeOf(Cust2(0))

type CustMap map[string]int64

type HolderM struct {
	M CustMap `json:"m"`
}

var custMapT = reflect.TypeOf(CustMap(nil))

var errAbandon = fmt.Errorf("caller abandons the file")

type TwoDates struct {
	T time.Time `json:"t"`
	U time.Time `json:"u"`
}

type OneTime struct {
	T time.Time `json:"t"`
}

const holderSchema = `{"type":"record","name":"HolderC","fields":[{"name":"c","type":"long"}]}`

func buildAndDecode() Obs {
	s, err := avro.SchemaFromString(holderSchema)
	if err != nil {
		return Obs{Err: err.Error()}
	}
	codec, err := s.Codec(HolderC{})
	if err != nil {
		return Obs{Err: err.Error()}
	}
	var h HolderC
	if err := codec.Read(avro.NewReadBuf([]byte{10}), unsafe.Pointer(&h)); err != nil {
		return Obs{Err: err.Error()}
	}
	return Obs{S: fmt.Sprint(int64(h.C))}
}

func oneOf(obs Obs, allowed ...string) string {
	if obs.Err != "" {
		return "error: " + obs.Err
	}
	for _, a := range allowed {
		if obs.S == a {
			return ""
		}
	}
	return fmt.Sprintf("observed %q, a sequential order allows only %v", obs.S, allowed)
}

// ---- shared record type for decode / encode scenarios

type Rec struct {
	S string           `json:"s"`
	L []string         `json:"l"`
	M map[string]int64 `json:"m"`
	P *int64           `json:"p"`
	T time.Time        `json:"t"`
}

var recSchema = ref.Record("Rec", ref.F("s", ref.Prim("string")), ref.F("l", ref.Array(ref.Prim("string"))), ref.F("m", ref.Map(ref.Prim("long"))),
	ref.F("p", ref.Union(ref.Prim("null"), ref.Prim("long"))), ref.F("t", ref.Union(ref.Prim("null"), ref.Prim("string"))))

func recDatum(i int, offsetMin int) ref.Datum {
	tag := fmt.Sprintf("t%d-", i)
	sign, o := "+", offsetMin
	if o < 0 {
		sign, o = "-", -o
	}
	ts := fmt.Sprintf("2021-03-04T05:06:%02d.5%s%02d:%02d", i, sign, o/60, o%60)
	return ref.DRecord(ref.DString(tag+strings.Repeat("s", 30)), ref.DArray(ref.DString(tag+"a"), ref.DString(tag+"b")), ref.DMap([]string{tag + "k1", tag + "k2"}, []ref.Datum{ref.DLong(int64(i)), ref.DLong(-1)}),
		ref.DUnion(1, ref.DLong(int64(100+i))), ref.DUnion(1, ref.DString(ts)))
}

func recState(env *Env, n int, offsets func(i int) int) *State {
	reg.Init()
	st := &State{Env: env}
	s, err := avro.SchemaFromString(recSchema.Print(nil))
	if err != nil {
		panic(err)
	}
	st.Schema = s
	st.Codec, err = s.Codec(Rec{})
	if err != nil {
		panic(err)
	}
	for i := 0; i < n; i++ {
		d := recDatum(i, offsets(i))
		st.Data = append(st.Data, ref.Encode(recSchema, d))
		v := reflect.New(reflect.TypeOf(Rec{})).Elem()
		if err := gv.Expect(recSchema, d, v); err != nil {
			panic(err)
		}
		st.Want = append(st.Want, v)
	}
	return st
}

var offsetCounter int64

// freshOffset returns a zone offset in minutes. Under the explorer the timezone cache is emptied
// before every execution (generated reset hook), so any offset is "new"; in the free-running pass the
// offsets rotate over a range so that cache misses keep happening.
func freshOffset() int {
	n := atomic.AddInt64(&offsetCounter, 1)
	if deterministicOffsets {
		return []int{330, -480, 61, -61, 840}[n%5]
	}
	m := int(n % 1300)
	if m%2 == 0 {
		return 61 + m/2
	}
	return -(61 + m/2)
}

// deterministicOffsets is set by the explorer driver (executions must be reproducible).
var deterministicOffsets bool

func SetDeterministic() { deterministicOffsets = true; atomic.StoreInt64(&offsetCounter, 0) }

func decodeBody(st *State, tid int, keepOpen bool) Obs {
	rb := avro.NewReadBuf(st.Data[tid])
	var v Rec
	if err := st.Codec.Read(rb, unsafe.Pointer(&v)); err != nil {
		return Obs{Err: err.Error()}
	}
	bank := rb.ExtractResourceBank()
	got := reflect.ValueOf(&v).Elem()
	if keepOpen {
		// re-read the bank-backed value after some more decoding on this thread
		rb2 := avro.NewReadBuf(st.Data[tid])
		var v2 Rec
		st.Codec.Read(rb2, unsafe.Pointer(&v2))
		rb2.ExtractResourceBank().Close()
	}
	d := gv.Equal(st.Want[tid], got)
	bank.Close()
	if d != "" {
		return Obs{S: "DIFF " + d}
	}
	return Obs{S: "ok"}
}

func allOK(st *State, obs []Obs) string {
	for i, o := range obs {
		if o.Err != "" {
			return fmt.Sprintf("thread %d: error %s", i, o.Err)
		}
		if o.S != "ok" {
			return fmt.Sprintf("thread %d: %s", i, o.S)
		}
	}
	return ""
}

// ---- the scenarios

func Scenarios() []Scenario {
	var out []Scenario
	// S1: Register ∥ build+decode ∥ build+decode
	out = append(out, Scenario{Name: "S1 Register || Codec+decode || Codec+decode", Threads: 3,
		Setup: func(env *Env) *State { avro.Register(custT, builder(1000)); return &State{Env: env} },
		Body: func(st *State, tid int) Obs {
			if tid == 0 {
				avro.Register(custT, builder(2000))
				return Obs{S: "registered"}
			}
			return buildAndDecode()
		},
		Check: func(st *State, obs []Obs) string {
			for i := 1; i < 3; i++ {
				if e := oneOf(obs[i], "1005", "2005"); e != "" {
					return fmt.Sprintf("thread %d: %s", i, e)
				}
			}
			return ""
		}})
	// S2: RegisterSchema ∥ SchemaForType ∥ NewEncoderFor
	sA, _ := avro.SchemaFromString(`"long"`)
	sB, _ := avro.SchemaFromString(`{"type":"long","logicalType":"variant-b"}`)
	out = append(out, Scenario{Name: "S2 RegisterSchema || SchemaForType || NewEncoderFor", Threads: 3,
		Setup: func(env *Env) *State {
			avro.RegisterSchema(custT, sA)
			avro.Register(custT, builder(0))
			return &State{Env: env}
		},
		Body: func(st *State, tid int) Obs {
			switch tid {
			case 0:
				avro.RegisterSchema(custT, sB)
				return Obs{S: "registered"}
			case 1:
				s, err := avro.SchemaForType(HolderC{})
				if err != nil {
					return Obs{Err: err.Error()}
				}
				b, _ := s.Marshal()
				return Obs{S: string(b)}
			default:
				var buf bytes.Buffer
				e, err := avro.NewEncoderFor[HolderC](&buf, avro.CompressionNull, 0)
				if err != nil {
					return Obs{Err: err.Error()}
				}
				h := HolderC{C: 7}
				if err := e.Encode(&h); err != nil {
					return Obs{Err: err.Error()}
				}
				p, err := ref.ParseFile(buf.Bytes())
				if err != nil {
					return Obs{Err: "output unparseable: " + err.Error()}
				}
				return Obs{S: string(p.Meta["avro.schema"])}
			}
		},
		Check: func(st *State, obs []Obs) string {
			for i := 1; i < 3; i++ {
				if obs[i].Err != "" {
					return fmt.Sprintf("thread %d: error %s", i, obs[i].Err)
				}
				hasB := strings.Contains(obs[i].S, "variant-b")
				hasLong := strings.Contains(obs[i].S, `"long"`)
				if !hasLong || (hasB && !strings.Contains(obs[i].S, `"logicalType":"variant-b"`)) {
					return fmt.Sprintf("thread %d saw schema %s, neither of the two registered ones", i, obs[i].S)
				}
			}
			return ""
		}})
	// S3: decode with one shared codec into private targets ×3, banks from the pool
	for _, keep := range []bool{false, true} {
		keep := keep
		name := "S3 shared-codec decode x3 (close at once)"
		if keep {
			name = "S3b shared-codec decode x3 (bank kept open across further decoding)"
		}
		out = append(out, Scenario{Name: name, Threads: 3,
			Setup: func(env *Env) *State { return recState(env, 3, func(i int) int { return 330 }) },
			Body:  func(st *State, tid int) Obs { return decodeBody(st, tid, keep) },
			Check: allOK})
	}
	// S4: encode with one shared codec (map field) into private buffers ×3
	out = append(out, Scenario{Name: "S4 shared-codec encode x3", Threads: 3,
		Setup: func(env *Env) *State { return recState(env, 3, func(i int) int { return -480 }) },
		Body: func(st *State, tid int) Obs {
			w := avro.NewWriteBuf(nil)
			v := reflect.New(reflect.TypeOf(Rec{})).Elem()
			v.Set(st.Want[tid])
			st.Codec.Write(w, unsafe.Pointer(v.UnsafeAddr()))
			got, used, err := ref.Decode(recSchema, w.Bytes())
			if err != nil || used != len(w.Bytes()) {
				return Obs{S: fmt.Sprintf("DIFF output does not decode: used %d/%d err %v", used, len(w.Bytes()), err)}
			}
			want, _, _ := ref.Decode(recSchema, st.Data[tid])
			if !got.Equal(want) {
				return Obs{S: "DIFF encoded datum " + got.String() + " != " + want.String()}
			}
			return Obs{S: "ok"}
		},
		Check: allOK})
	// S5: ReadFile ×2 on private readers; thread 0 hands its banks to thread 2, which closes them
	out = append(out, Scenario{Name: "S5 ReadFile x2 + bank closer", Threads: 3,
		Setup: func(env *Env) *State {
			st := recState(env, 3, func(i int) int { return 0 })
			var blocks []ref.Block
			blocks = append(blocks, ref.Block{Count: 2, Payload: append(append([]byte(nil), st.Data[0]...), st.Data[1]...)})
			blocks = append(blocks, ref.Block{Count: 1, Payload: st.Data[2]})
			st.File, _ = ref.WriteFile(ref.StdMeta(recSchema.Print(nil), "deflate", true), "deflate", [16]byte{1, 2, 3}, blocks)
			st.Ch = env.NewChan()
			return st
		},
		Body: func(st *State, tid int) Obs {
			if tid == 2 {
				n := 0
				for {
					v, ok := st.Ch.Recv()
					if !ok {
						break
					}
					v.(*avro.ResourceBank).Close()
					n++
				}
				if n != 3 {
					return Obs{S: fmt.Sprintf("DIFF closer received %d banks", n)}
				}
				return Obs{S: "ok"}
			}
			i := 0
			diff := ""
			err := avro.ReadFile(&filedrv.Reader{Data: st.File, Mode: tid}, Rec{}, func(val unsafe.Pointer, rb *avro.ResourceBank) error {
				got := reflect.NewAt(reflect.TypeOf(Rec{}), val).Elem()
				if d := gv.Equal(st.Want[i], got); d != "" && diff == "" {
					diff = fmt.Sprintf("record %d: %s", i, d)
				}
				i++
				if tid == 0 {
					st.Ch.Send(rb)
				} else {
					rb.Close()
				}
				return nil
			})
			if tid == 0 {
				st.Ch.Close()
			}
			if err != nil {
				return Obs{Err: err.Error()}
			}
			if diff != "" || i != 3 {
				return Obs{S: fmt.Sprintf("DIFF %s (%d records)", diff, i)}
			}
			return Obs{S: "ok"}
		},
		Check: allOK})
	// S6: timestamp decode ×3 with the same new zone offset / with different new offsets
	for _, same := range []bool{true, false} {
		same := same
		name := "S6 time decode x3, same new zone offset"
		if !same {
			name = "S6b time decode x3, different new zone offsets"
		}
		out = append(out, Scenario{Name: name, Threads: 3,
			Setup: func(env *Env) *State {
				o := freshOffset()
				return recState(env, 3, func(i int) int {
					if same {
						return o
					}
					if i == 0 {
						return o
					}
					return freshOffset()
				})
			},
			Body:  func(st *State, tid int) Obs { return decodeBody(st, tid, false) },
			Check: allOK})
	}
	// S6c: two threads share one new zone offset, the third uses another (a one-entry "last zone" shortcut would be confused)
	out = append(out, Scenario{Name: "S6c time decode x3, zone offsets X,Y,Y", Threads: 3,
		Setup: func(env *Env) *State {
			x, y := freshOffset(), freshOffset()
			return recState(env, 3, func(i int) int {
				if i == 0 {
					return x
				}
				return y
			})
		},
		Body:  func(st *State, tid int) Obs { return decodeBody(st, tid, false) },
		Check: allOK})
	// S8: Register(T1) ∥ Register(T2) ∥ build: afterwards BOTH registrations must be in effect
	out = append(out, Scenario{Name: "S8 Register(T1) || Register(T2) || Codec+decode, then both must be in effect", Threads: 3,
		Setup: func(env *Env) *State { avro.Register(custT, builder(1000)); return &State{Env: env} },
		Body: func(st *State, tid int) Obs {
			switch tid {
			case 0:
				avro.Register(custT, builder(2000))
				return Obs{S: "ok"}
			case 1:
				avro.Register(cust2T, builder(3000))
				avro.RegisterSchema(cust2T, avro.Schema{Type: "long"})
				return Obs{S: "ok"}
			}
			if e := oneOf(buildAndDecode(), "1005", "2005"); e != "" {
				return Obs{S: "DIFF " + e}
			}
			return Obs{S: "ok"}
		},
		Check: func(st *State, obs []Obs) string {
			if e := allOK(st, obs); e != "" {
				return e
			}
			// sequentially, after both registrations have returned, both are visible
			if e := oneOf(buildAndDecode(), "2005"); e != "" {
				return "after all threads finished, Cust: " + e
			}
			s, _ := avro.SchemaFromString(`{"type":"record","name":"H2","fields":[{"name":"c","type":"long"}]}`)
			codec, err := s.Codec(Holder2{})
			if err != nil {
				return "after all threads finished, Cust2: " + err.Error()
			}
			var h Holder2
			if err := codec.Read(avro.NewReadBuf([]byte{10}), unsafe.Pointer(&h)); err != nil || int64(h.C) != 3005 {
				return fmt.Sprintf("after all threads finished the registration for Cust2 is not in effect: decoded %d err=%v (a lost update)", int64(h.C), err)
			}
			sc, err := avro.SchemaForType(Holder2{})
			if err != nil || len(sc.Object.Fields) != 1 || sc.Object.Fields[0].Type.Type != "long" {
				return fmt.Sprintf("after all threads finished the schema registration for Cust2 is not in effect: %v err=%v", sc, err)
			}
			return ""
		}})
	// S9: a registered builder that builds its sub-codecs through the library (BuildMapCodec re-enters the codec
	// builder) ∥ Register of an unrelated type ∥ the same build again: nobody may wait for ever
	out = append(out, Scenario{Name: "S9 re-entrant registered builder || Register(other) || same build", Threads: 3,
		Setup: func(env *Env) *State {
			avro.Register(custMapT, func(s avro.Schema, t reflect.Type, omit bool) (avro.Codec, error) {
				return avro.BuildMapCodec(s, t, omit)
			})
			return &State{Env: env}
		},
		Body: func(st *State, tid int) Obs {
			if tid == 1 {
				avro.Register(cust2T, builder(3000))
				return Obs{S: "ok"}
			}
			s, err := avro.SchemaFromString(`{"type":"record","name":"HM","fields":[{"name":"m","type":{"type":"map","values":"long"}}]}`)
			if err != nil {
				return Obs{Err: err.Error()}
			}
			codec, err := s.Codec(HolderM{})
			if err != nil {
				return Obs{Err: err.Error()}
			}
			var h HolderM
			if err := codec.Read(avro.NewReadBuf([]byte{2, 2, 'k', 10, 0}), unsafe.Pointer(&h)); err != nil {
				return Obs{Err: err.Error()}
			}
			if len(h.M) != 1 || h.M["k"] != 5 {
				return Obs{S: fmt.Sprintf("DIFF decoded %v", h.M)}
			}
			return Obs{S: "ok"}
		},
		Check: allOK})
	// S10: every thread first abandons a ReadFile from inside the callback (bank closed by the callback, error
	// returned), then decodes with a shared codec keeping its bank open across further decoding: whatever the
	// abandoned read did with its bank must not make two threads share one
	out = append(out, Scenario{Name: "S10 abandoned ReadFile (callback closes bank, returns error) then shared-codec decode x2", Threads: 2,
		Setup: func(env *Env) *State {
			st := recState(env, 3, func(i int) int { return 330 })
			blocks := []ref.Block{{Count: 2, Payload: append(append([]byte(nil), st.Data[0]...), st.Data[1]...)}}
			st.File, _ = ref.WriteFile(ref.StdMeta(recSchema.Print(nil), "null", true), "null", [16]byte{9, 8, 7}, blocks)
			return st
		},
		Body: func(st *State, tid int) Obs {
			n := 0
			err := avro.ReadFile(&filedrv.Reader{Data: st.File, Mode: 0}, Rec{}, func(val unsafe.Pointer, rb *avro.ResourceBank) error {
				n++
				rb.Close()
				return errAbandon
			})
			if err != errAbandon || n != 1 {
				return Obs{S: fmt.Sprintf("DIFF abandoned read: %d callbacks, err=%v", n, err)}
			}
			return decodeBody(st, tid, true)
		},
		Check: allOK})
	// S11: three encoders of the same compression codec, each with its own destination, two blocks each
	for _, comp := range []string{"deflate", "snappy"} {
		comp := comp
		out = append(out, Scenario{Name: "S11-" + comp + " three independent encoders (" + comp + "), two blocks each", Threads: 3,
			Setup: func(env *Env) *State { return &State{Env: env} },
			Body: func(st *State, tid int) Obs {
				var buf bytes.Buffer
				e, err := avro.NewEncoderFor[HolderC](&buf, avro.Compression(comp), 0)
				if err != nil {
					return Obs{Err: err.Error()}
				}
				for i := 0; i < 2; i++ {
					h := HolderC{C: Cust(1000*(tid+1) + i)}
					if err := e.Encode(&h); err != nil {
						return Obs{Err: err.Error()}
					}
				}
				if err := e.Flush(); err != nil {
					return Obs{Err: err.Error()}
				}
				p, err := ref.ParseFile(buf.Bytes())
				if err != nil {
					return Obs{S: "DIFF output is not a container file: " + err.Error()}
				}
				if len(p.Blocks) != 2 {
					return Obs{S: fmt.Sprintf("DIFF %d blocks, 2 were written", len(p.Blocks))}
				}
				for i, b := range p.Blocks {
					v, n, cl := ref.ReadLong(b.Payload)
					if b.Count != 1 || cl != ref.VOK || n != len(b.Payload) || v != int64(1000*(tid+1)+i) {
						return Obs{S: fmt.Sprintf("DIFF block %d: count %d payload %x, written %d", i, b.Count, b.Payload, 1000*(tid+1)+i)}
					}
				}
				return Obs{S: "ok"}
			},
			Check: allOK})
	}
	// S12: every thread registers the null package's codecs itself and uses them at once — from EMPTY registries
	out = append(out, Scenario{Name: "S12 null.RegisterCodecs then use, x2, from empty registries", Threads: 2, NoLibraryRegistration: true,
		Setup: func(env *Env) *State { return &State{Env: env} },
		Body: func(st *State, tid int) Obs {
			reg.Null()
			type nn struct {
				N null.Int    `json:"n"`
				S null.String `json:"s"`
			}
			s, err := avro.SchemaForType(nn{})
			if err != nil {
				return Obs{Err: err.Error()}
			}
			b, _ := s.Marshal()
			if !strings.Contains(string(b), `["null","long"]`) || !strings.Contains(string(b), `["null","string"]`) {
				return Obs{S: "DIFF right after null.RegisterCodecs() returned, the generated schema is " + string(b)}
			}
			codec, err := s.Codec(nn{})
			if err != nil {
				return Obs{Err: err.Error()}
			}
			var v nn
			if err := codec.Read(avro.NewReadBuf([]byte{2, 10, 2, 2, 'x'}), unsafe.Pointer(&v)); err != nil || !v.N.Valid || v.N.Int64 != 5 || v.S.String != "x" {
				return Obs{S: fmt.Sprintf("DIFF decoded %+v err=%v", v, err)}
			}
			return Obs{S: "ok"}
		},
		Check: allOK})
	// S13: logical dates decoded by three threads, different days, one shared codec
	out = append(out, Scenario{Name: "S13 date decode x3, different days, shared codec", Threads: 3,
		Setup: func(env *Env) *State {
			st := &State{Env: env}
			s, err := avro.SchemaFromString(`{"type":"record","name":"d","fields":[{"name":"t","type":{"type":"int","logicalType":"date"}},{"name":"u","type":{"type":"int","logicalType":"date"}}]}`)
			if err != nil {
				panic(err)
			}
			st.Codec, err = s.Codec(TwoDates{})
			if err != nil {
				panic(err)
			}
			return st
		},
		Body: func(st *State, tid int) Obs {
			for round := 0; round < 2; round++ {
				d1, d2 := int64(19000+tid*7+round), int64(-300-tid)
				var v TwoDates
				in := ref.AppendLong(ref.AppendLong(nil, d1), d2)
				if err := st.Codec.Read(avro.NewReadBuf(in), unsafe.Pointer(&v)); err != nil {
					return Obs{Err: err.Error()}
				}
				if !v.T.Equal(time.Unix(d1*86400, 0)) || !v.U.Equal(time.Unix(d2*86400, 0)) {
					return Obs{S: fmt.Sprintf("DIFF days %d,%d decoded as %s, %s", d1, d2, v.T.UTC().Format(time.RFC3339), v.U.UTC().Format(time.RFC3339))}
				}
			}
			return Obs{S: "ok"}
		},
		Check: allOK})
	// S14: timestamps with many different zone offsets; thread 0 decodes from ONE buffer it overwrites every time
	// (as a file reader does with its block buffer), the others from fresh buffers
	out = append(out, Scenario{Name: "S14 time decode, 12 zones, thread 0 reuses its input buffer", Threads: 3,
		Setup: func(env *Env) *State {
			st := &State{Env: env}
			s, err := avro.SchemaFromString(`{"type":"record","name":"d","fields":[{"name":"t","type":"string"}]}`)
			if err != nil {
				panic(err)
			}
			st.Codec, err = s.Codec(OneTime{})
			if err != nil {
				panic(err)
			}
			return st
		},
		Body: func(st *State, tid int) Obs {
			var buf []byte
			for i := 0; i < 4; i++ {
				z := i*3 + tid // twelve distinct offsets over the three threads
				txt := fmt.Sprintf("2021-03-04T05:06:07+%02d:%02d", 1+z, 7*z%60)
				if tid == 0 {
					buf = append(ref.AppendLong(buf[:0], int64(len(txt))), txt...)
				} else {
					buf = append(ref.AppendLong(nil, int64(len(txt))), txt...)
				}
				var v OneTime
				if err := st.Codec.Read(avro.NewReadBuf(buf), unsafe.Pointer(&v)); err != nil {
					return Obs{Err: err.Error()}
				}
				want, _ := time.Parse(time.RFC3339, txt)
				_, wo := want.Zone()
				_, g := v.T.Zone()
				if !v.T.Equal(want) || g != wo {
					return Obs{S: fmt.Sprintf("DIFF %q decoded as %s", txt, v.T.Format(time.RFC3339))}
				}
			}
			return Obs{S: "ok"}
		},
		Check: allOK})
	// S7: mixed
	out = append(out, Scenario{Name: "S7 mixed: Register || shared decode with new zone || build+decode", Threads: 3,
		Setup: func(env *Env) *State {
			avro.Register(custT, builder(1000))
			o := freshOffset()
			return recState(env, 3, func(i int) int { return o })
		},
		Body: func(st *State, tid int) Obs {
			switch tid {
			case 0:
				avro.Register(custT, builder(2000))
				return decodeBody(st, 0, false)
			case 1:
				return decodeBody(st, 1, true)
			default:
				o := buildAndDecode()
				if e := oneOf(o, "1005", "2005"); e != "" {
					return Obs{S: "DIFF " + e}
				}
				return decodeBody(st, 2, false)
			}
		},
		Check: allOK})
	return out
}

// Package fw is the check framework: it shards the case space of a check over
// isolated worker processes, attributes crashes to the case that was running,
// groups violations by computed signature, matches them against the committed
// known-findings file, writes replay files and the evidence file.
package fw

import (
	"bufio"
	"bytes"
	"encoding/json"
	"fmt"
	"hash/fnv"
	"os"
	"os/exec"
	"path/filepath"
	"runtime"
	"runtime/debug"
	"sort"
	"strconv"
	"strings"
	"sync"
	"sync/atomic"
	"syscall"
	"time"
	"unsafe"
)

// Check describes one property check.
type Check struct {
	ID          string
	Level       string // evidence level: exploration | fault_enumeration | model_checking
	Rule        func(tier string) string
	Assumptions []string
	// NumCases returns the number of top-level case indices for a tier.
	NumCases func(tier string) int
	// RunCase runs case idx (which usually enumerates many executions).
	RunCase func(c *Ctx, idx int)
	// Init is called once per worker before the first case.
	Init func(c *Ctx)
	// WorkerEnv is added to the environment of worker processes.
	WorkerEnv []string
	// Workers overrides the number of worker processes (0 = NumCPU).
	Workers int
	// Budget is the wall-clock budget after which workers stop at a case
	// boundary and the evidence says exhaustive:false (never a failure).
	Budget func(tier string) time.Duration
	// StallTimeout: no progress marker change for this long kills the worker
	// and attributes a hang to the current case (default 120 s).
	StallTimeout time.Duration
	// MemLimit is RLIMIT_AS for workers in bytes (0 = 8 GiB).
	MemLimit uint64
	// Post is called in the parent after all workers finished, to add
	// check-specific summary keys to coverage.
	Post func(tier string, cov map[string]interface{})
	// Solo marks case indices that hold exactly one execution which is expected to be able to kill
	// the worker (a recorded known finding): such a death loses nothing else, so it does not clear
	// the exhaustive flag.
	Solo func(tier string, idx int) bool
	// ParentPre, if set, runs in the parent before workers start (e.g. an
	// auxiliary -race pass); it may report violations via the returned list.
	ParentPre func(tier string, p *Parent)
}

var registry = map[string]*Check{}

func Register(c *Check) { registry[c.ID] = c }
func Lookup(id string) *Check { return registry[id] }
func IDs() []string {
	var ids []string
	for k := range registry {
		ids = append(ids, k)
	}
	sort.Strings(ids)
	return ids
}

// Violation is one reported property violation.
type Violation struct {
	Sig    string      `json:"sig"`
	What   string      `json:"what"`
	Case   int         `json:"case"`
	Detail interface{} `json:"detail,omitempty"`
}

// Ctx is the per-worker context handed to RunCase.
type Ctx struct {
	Prop string
	Tier string
	Seed int64

	evals       int64
	ntSet       map[uint64]struct{}
	ntNew       int64
	ntExtra     int64
	counters    map[string]int64
	maxes       map[string]int64
	obsSets     map[string]map[uint64]struct{}
	obsNew      map[string]int64
	samples     []interface{}
	sampleBytes int
	viol        []Violation
	violCount   map[string]int64
	curCase     int
	mark        []byte
	out         *bufio.Writer
	lastFlush   time.Time
	deadline    time.Time
	only        string // replay filter: only report this signature
	notes       []string
	herrs       []string
	inexhaustive bool
}

func (c *Ctx) Eval(n int64) { c.evals += n }

func hash64(s string) uint64 { h := fnv.New64a(); h.Write([]byte(s)); return h.Sum64() }

// Nontrivial records a distinct non-trivial case key (keys must be globally
// unique per distinct case; include the case index).
func (c *Ctx) Nontrivial(key string) {
	h := hash64(key)
	if _, ok := c.ntSet[h]; !ok {
		c.ntSet[h] = struct{}{}
		c.ntNew++
	}
}

// NontrivialN adds n cases that are distinct by construction.
func (c *Ctx) NontrivialN(n int64) { c.ntExtra += n }

func (c *Ctx) Count(key string, n int64) { c.counters[key] += n }
func (c *Ctx) Max(key string, v int64) {
	if v > c.maxes[key] {
		c.maxes[key] = v
	}
}

// Observe records a distinct observation/outcome under a named set; the number
// of distinct ones is reported (summed over workers, so make keys case-unique
// or accept an over-count; used for 'distinct outcomes').
func (c *Ctx) Observe(set, key string) {
	m := c.obsSets[set]
	if m == nil {
		m = map[uint64]struct{}{}
		c.obsSets[set] = m
	}
	h := hash64(key)
	if _, ok := m[h]; !ok {
		m[h] = struct{}{}
		c.obsNew[set]++
	}
}

func (c *Ctx) Sample(v interface{}) {
	if c.sampleBytes+len(c.samples) < 4 {
		c.samples = append(c.samples, v)
	}
}

func (c *Ctx) Note(s string) { c.notes = append(c.notes, s) }

// HarnessError reports a defect of the machinery itself (e.g. a replay divergence): the run exits 2, never 1.
func (c *Ctx) HarnessError(s string) { c.herrs = append(c.herrs, s) }

// NotExhaustive marks that this case cut its space short.
func (c *Ctx) NotExhaustive(why string) { c.inexhaustive = true; c.Note(why) }

// Expired reports whether the budget has run out (checks with long inner
// loops may poll it and stop early, marking NotExhaustive).
func (c *Ctx) Expired() bool { return !c.deadline.IsZero() && time.Now().After(c.deadline) }

// Begin writes a write-ahead marker: if the process dies, the parent
// attributes the death to this locus/description.
func (c *Ctx) Begin(locus, desc string) {
	if c.mark == nil {
		return
	}
	s := locus + "\x00" + desc
	if len(s) > len(c.mark)-32 {
		s = s[:len(c.mark)-32]
	}
	*(*int64)(unsafe.Pointer(&c.mark[0])) = int64(c.curCase)
	*(*int32)(unsafe.Pointer(&c.mark[8])) = int32(len(s))
	copy(c.mark[16:], s)
	seq := (*int64)(unsafe.Pointer(&c.mark[len(c.mark)-8]))
	atomic.AddInt64(seq, 1)
}

// BeginBytes is Begin for hot loops: the marker is locus, a short prefix and
// the raw input bytes (hex-dumped by the parent if the worker dies); it does
// not allocate.
func (c *Ctx) BeginBytes(locus, prefix string, input []byte) {
	if c.mark == nil {
		return
	}
	m := c.mark[16 : len(c.mark)-16]
	n := copy(m, locus)
	if n < len(m) {
		m[n] = 0
		n++
	}
	n += copy(m[n:], prefix)
	if n < len(m) {
		m[n] = 1 // marks the start of raw bytes
		n++
	}
	n += copy(m[n:], input)
	*(*int64)(unsafe.Pointer(&c.mark[0])) = int64(c.curCase)
	*(*int32)(unsafe.Pointer(&c.mark[8])) = int32(n)
	seq := (*int64)(unsafe.Pointer(&c.mark[len(c.mark)-8]))
	atomic.AddInt64(seq, 1)
}

// Violation reports a violation with a computed signature.
func (c *Ctx) Violation(sig, what string, detail interface{}) {
	if c.only != "" && c.only != sig {
		return
	}
	c.violCount[sig]++
	if c.violCount[sig] <= 3 {
		c.viol = append(c.viol, Violation{Sig: sig, What: what, Case: c.curCase, Detail: detail})
	}
}

// Guard runs f, converting a panic into a violation with the given locus; it
// returns true if f panicked.
func (c *Ctx) Guard(locus, desc string, detail interface{}, f func()) (panicked bool) {
	defer func() {
		if r := recover(); r != nil {
			panicked = true
			site := PanicSite(3)
			c.Violation("panic:"+PanicClass(r)+"@"+site+"|"+locus, fmt.Sprintf("panic %v at %s: %s", r, site, desc), detail)
		}
	}()
	f()
	return false
}

// PanicClass abstracts a panic value to its class.
func PanicClass(r interface{}) string {
	s := fmt.Sprint(r)
	switch {
	case strings.Contains(s, "slice bounds out of range"):
		return "slice-bounds"
	case strings.Contains(s, "index out of range"):
		return "index"
	case strings.Contains(s, "nil pointer dereference"):
		return "nil-deref"
	case strings.Contains(s, "makeslice: len out of range"), strings.Contains(s, "makeslice: cap out of range"):
		return "makeslice"
	case strings.Contains(s, "out of memory"), strings.Contains(s, "allocation size out of range"):
		return "alloc-size"
	case strings.Contains(s, "assignment to entry in nil map"):
		return "nil-map"
	case strings.Contains(s, "integer divide by zero"):
		return "div0"
	}
	if i := strings.IndexAny(s, ":("); i > 0 {
		s = s[:i]
	}
	if len(s) > 40 {
		s = s[:40]
	}
	return strings.ReplaceAll(s, " ", "_")
}

// PanicSite returns the innermost frame inside github.com/philpearl/avro
// (function name without line numbers) of the current panic stack.
func PanicSite(skip int) string {
	pcs := make([]uintptr, 64)
	n := runtime.Callers(skip, pcs)
	fr := runtime.CallersFrames(pcs[:n])
	for {
		f, more := fr.Next()
		if strings.Contains(f.Function, "github.com/philpearl/avro") {
			fn := f.Function
			fn = strings.TrimPrefix(fn, "github.com/philpearl/avro")
			fn = strings.TrimPrefix(fn, ".")
			fn = strings.TrimPrefix(fn, "/")
			// drop generic instantiation noise
			if i := strings.Index(fn, "[..."); i >= 0 {
				fn = fn[:i] + fn[i+5:]
			}
			return fn
		}
		if !more {
			break
		}
	}
	return "?"
}

// ----------------------------------------------------------------- worker

type delta struct {
	Evals    int64              `json:"e,omitempty"`
	NT       int64              `json:"nt,omitempty"`
	Counters map[string]int64   `json:"c,omitempty"`
	Maxes    map[string]int64   `json:"m,omitempty"`
	Obs      map[string]int64   `json:"o,omitempty"`
	Samples  []interface{}      `json:"s,omitempty"`
	Viol     []Violation        `json:"v,omitempty"`
	VCount   map[string]int64   `json:"vc,omitempty"`
	Notes    []string           `json:"n,omitempty"`
	CasesDone int               `json:"cd,omitempty"`
	Skipped  int                `json:"sk,omitempty"`
	Inexh    bool               `json:"ix,omitempty"`
	HErrs    []string           `json:"he,omitempty"`
	Done     bool               `json:"done,omitempty"`
}

func (c *Ctx) flush(casesDone, skipped int, done bool) {
	d := delta{Evals: c.evals, NT: c.ntNew + c.ntExtra, Counters: c.counters, Maxes: c.maxes, Obs: c.obsNew,
		Samples: c.samples, Viol: c.viol, VCount: c.violCount, Notes: c.notes, CasesDone: casesDone, Skipped: skipped, Inexh: c.inexhaustive, Done: done, HErrs: c.herrs}
	b, err := json.Marshal(d)
	if err != nil {
		// a sample or detail that cannot be marshalled: drop samples
		d.Samples = nil
		for i := range d.Viol {
			d.Viol[i].Detail = fmt.Sprint(d.Viol[i].Detail)
		}
		b, _ = json.Marshal(d)
	}
	c.out.Write(b)
	c.out.WriteByte('\n')
	c.out.Flush()
	c.evals, c.ntNew, c.ntExtra = 0, 0, 0
	c.counters = map[string]int64{}
	c.obsNew = map[string]int64{}
	c.sampleBytes += len(c.samples)
	c.samples = nil
	c.viol = nil
	c.violCount = map[string]int64{}
	c.notes = nil
	c.herrs = nil
	c.inexhaustive = false
	c.lastFlush = time.Now()
}

// WorkerMain runs inside a worker process.
func WorkerMain(args []string) int {
	var id, tier, markPath, only string
	var shard, of, from, onlyCase = 0, 1, 0, -1
	var seed int64
	var deadline int64
	for i := 0; i+1 < len(args); i += 2 {
		v := args[i+1]
		switch args[i] {
		case "-id":
			id = v
		case "-tier":
			tier = v
		case "-mark":
			markPath = v
		case "-shard":
			shard, _ = strconv.Atoi(v)
		case "-of":
			of, _ = strconv.Atoi(v)
		case "-from":
			from, _ = strconv.Atoi(v)
		case "-case":
			onlyCase, _ = strconv.Atoi(v)
		case "-only":
			only = v
		case "-seed":
			seed, _ = strconv.ParseInt(v, 10, 64)
		case "-deadline":
			deadline, _ = strconv.ParseInt(v, 10, 64)
		}
	}
	ck := Lookup(id)
	if ck == nil {
		fmt.Fprintln(os.Stderr, "worker: unknown check", id)
		return 2
	}
	debug.SetMaxStack(64 << 20)
	lim := ck.MemLimit
	if lim == 0 {
		lim = 8 << 30
	}
	syscall.Setrlimit(syscall.RLIMIT_AS, &syscall.Rlimit{Cur: lim, Max: lim})
	c := &Ctx{Prop: id, Tier: tier, Seed: seed, ntSet: map[uint64]struct{}{}, counters: map[string]int64{}, maxes: map[string]int64{},
		obsSets: map[string]map[uint64]struct{}{}, obsNew: map[string]int64{}, violCount: map[string]int64{}, only: only,
		out: bufio.NewWriterSize(os.Stdout, 1<<16)}
	if deadline > 0 {
		c.deadline = time.Unix(deadline, 0)
	}
	if markPath != "" {
		f, err := os.OpenFile(markPath, os.O_RDWR, 0)
		if err == nil {
			m, err := syscall.Mmap(int(f.Fd()), 0, 4096, syscall.PROT_READ|syscall.PROT_WRITE, syscall.MAP_SHARED)
			if err == nil {
				c.mark = m
			}
			f.Close()
		}
	}
	c.curCase = -1
	c.Begin("init", "worker init")
	if ck.Init != nil {
		ck.Init(c)
	}
	n := ck.NumCases(tier)
	done, skipped := 0, 0
	c.lastFlush = time.Now()
	runOne := func(idx int) {
		c.curCase = idx
		c.Begin("case", fmt.Sprintf("case %d", idx))
		ck.RunCase(c, idx)
		done++
	}
	if onlyCase >= 0 {
		runOne(onlyCase)
		c.flush(done, 0, true)
		return 0
	}
	// strided sharding, rotated by seed: shard s handles indices i with (i+seed)%of==s
	for idx := from; idx < n; idx++ {
		if int((int64(idx)+seed)%int64(of)) != shard {
			continue
		}
		if c.Expired() {
			skipped++
			continue
		}
		runOne(idx)
		if n < 2000 || time.Since(c.lastFlush) > 200*time.Millisecond {
			c.flush(done, skipped, false)
			done, skipped = 0, 0
		}
	}
	c.flush(done, skipped, true)
	return 0
}

// ----------------------------------------------------------------- parent

type Finding struct {
	Property string `json:"property"`
	Sig      string `json:"sig"`
	Status   string `json:"status"` // known | fixed
	Commit   string `json:"commit,omitempty"`
	What     string `json:"what"`
}

// Parent aggregates results.
type Parent struct {
	mu        sync.Mutex
	ck        *Check
	tier      string
	seed      int64
	evals     int64
	nt        int64
	counters  map[string]int64
	maxes     map[string]int64
	obs       map[string]int64
	samples   []interface{}
	groups    map[string]*group
	notes     map[string]bool
	casesDone int
	skipped   int
	inexh     bool
	restarts  int
	lossyRestarts int
	harnessErr []string
}

type group struct {
	first []Violation
	count int64
}

func (p *Parent) AddViolation(v Violation) {
	p.mu.Lock()
	defer p.mu.Unlock()
	g := p.groups[v.Sig]
	if g == nil {
		g = &group{}
		p.groups[v.Sig] = g
	}
	g.count++
	if len(g.first) < 3 {
		g.first = append(g.first, v)
	}
}

func (p *Parent) AddCount(key string, n int64) {
	p.mu.Lock()
	p.counters[key] += n
	p.mu.Unlock()
}

func (p *Parent) HarnessError(s string) {
	p.mu.Lock()
	p.harnessErr = append(p.harnessErr, s)
	p.mu.Unlock()
}

func (p *Parent) merge(d *delta) {
	p.mu.Lock()
	defer p.mu.Unlock()
	p.evals += d.Evals
	p.nt += d.NT
	for k, v := range d.Counters {
		p.counters[k] += v
	}
	for k, v := range d.Maxes {
		if v > p.maxes[k] {
			p.maxes[k] = v
		}
	}
	for k, v := range d.Obs {
		p.obs[k] += v
	}
	for _, s := range d.Samples {
		if s == nil || len(p.samples) >= 6 {
			continue
		}
		sb, _ := json.Marshal(s)
		dup := false
		for _, o := range p.samples {
			if ob, _ := json.Marshal(o); string(ob) == string(sb) {
				dup = true
			}
		}
		if !dup {
			p.samples = append(p.samples, s)
		}
	}
	for _, n := range d.Notes {
		p.notes[n] = true
	}
	p.casesDone += d.CasesDone
	p.skipped += d.Skipped
	if d.Inexh {
		p.inexh = true
	}
	p.harnessErr = append(p.harnessErr, d.HErrs...)
	for _, v := range d.Viol {
		g := p.groups[v.Sig]
		if g == nil {
			g = &group{}
			p.groups[v.Sig] = g
		}
		if len(g.first) < 3 {
			g.first = append(g.first, v)
		}
	}
	for s, n := range d.VCount {
		g := p.groups[s]
		if g == nil {
			g = &group{}
			p.groups[s] = g
		}
		g.count += n
	}
}

func verifDir() string {
	if d := os.Getenv("VERIF_DIR"); d != "" {
		return d
	}
	return "/verif"
}

func loadFindings() ([]Finding, error) {
	b, err := os.ReadFile(filepath.Join(verifDir(), "known_findings.json"))
	if err != nil {
		if os.IsNotExist(err) {
			return nil, nil
		}
		return nil, err
	}
	var fs []Finding
	if err := json.Unmarshal(b, &fs); err != nil {
		return nil, err
	}
	return fs, nil
}

func classifyFatal(stderr string) string {
	for _, ln := range strings.Split(stderr, "\n") {
		switch {
		case strings.HasPrefix(ln, "fatal error: "):
			m := strings.TrimPrefix(ln, "fatal error: ")
			switch {
			case strings.Contains(m, "out of memory"), strings.Contains(m, "cannot allocate"):
				return "fatal:out-of-memory"
			case strings.Contains(m, "stack overflow"), strings.Contains(m, "stack exceeds"):
				return "fatal:stack-overflow"
			case strings.Contains(m, "found pointer to free object"), strings.Contains(m, "bad pointer"), strings.Contains(m, "found bad pointer"):
				return "fatal:bad-pointer"
			case strings.Contains(m, "concurrent map"):
				return "fatal:concurrent-map"
			case strings.Contains(m, "unexpected signal"):
				return "fatal:signal"
			}
			return "fatal:" + strings.ReplaceAll(firstWords(m, 4), " ", "_")
		case strings.HasPrefix(ln, "runtime: goroutine stack exceeds"):
			return "fatal:stack-overflow"
		case strings.HasPrefix(ln, "panic: "), strings.HasPrefix(ln, "unexpected fault address"), strings.Contains(ln, "SIGSEGV"):
			if strings.Contains(stderr, "fatal error: fault") || strings.Contains(ln, "fault") || strings.Contains(ln, "SIGSEGV") {
				return "fatal:fault"
			}
			return "fatal:panic"
		}
	}
	return "fatal:died"
}

func firstWords(s string, n int) string {
	f := strings.Fields(s)
	if len(f) > n {
		f = f[:n]
	}
	return strings.Join(f, " ")
}

type tailBuf struct {
	mu  sync.Mutex
	buf []byte
}

func (t *tailBuf) Write(p []byte) (int, error) {
	t.mu.Lock()
	t.buf = append(t.buf, p...)
	if len(t.buf) > 1<<16 {
		// keep head (fatal message is at the start) — drop the middle
		t.buf = t.buf[:1<<16]
	}
	t.mu.Unlock()
	return len(p), nil
}

// runWorker runs one shard to completion, restarting after crashes.
func (p *Parent) runWorker(self string, shard, of int, deadline time.Time, workDir string) {
	ck := p.ck
	from := 0
	stall := ck.StallTimeout
	if stall == 0 {
		stall = 120 * time.Second
	}
	markPath := filepath.Join(workDir, fmt.Sprintf("mark-%s-%d", ck.ID, shard))
	for attempt := 0; ; attempt++ {
		os.WriteFile(markPath, make([]byte, 4096), 0o644)
		args := []string{"-worker", "-id", ck.ID, "-tier", p.tier, "-mark", markPath, "-shard", strconv.Itoa(shard), "-of", strconv.Itoa(of),
			"-from", strconv.Itoa(from), "-seed", strconv.FormatInt(p.seed, 10), "-deadline", strconv.FormatInt(deadline.Unix(), 10)}
		cmd := exec.Command(self, args...)
		cmd.Env = append(os.Environ(), ck.WorkerEnv...)
		stdout, _ := cmd.StdoutPipe()
		var errBuf tailBuf
		cmd.Stderr = &errBuf
		if err := cmd.Start(); err != nil {
			p.HarnessError("cannot start worker: " + err.Error())
			return
		}
		finished := make(chan bool, 1)
		go func() {
			sc := bufio.NewScanner(stdout)
			sc.Buffer(make([]byte, 1<<20), 1<<28)
			ok := false
			for sc.Scan() {
				var d delta
				if err := json.Unmarshal(sc.Bytes(), &d); err != nil {
					continue
				}
				p.merge(&d)
				if d.Done {
					ok = true
				}
			}
			finished <- ok
		}()
		// watchdog on the mark file's sequence counter
		stop := make(chan struct{})
		var hung int32
		go func() {
			var last int64 = -1
			lastChange := time.Now()
			t := time.NewTicker(2 * time.Second)
			defer t.Stop()
			for {
				select {
				case <-stop:
					return
				case <-t.C:
					b, err := os.ReadFile(markPath)
					if err == nil && len(b) >= 4096 {
						seq := *(*int64)(unsafe.Pointer(&b[4096-8]))
						if seq != last {
							last = seq
							lastChange = time.Now()
						}
					}
					if time.Since(lastChange) > stall {
						atomic.StoreInt32(&hung, 1)
						cmd.Process.Kill()
						return
					}
				}
			}
		}()
		ok := <-finished
		err := cmd.Wait()
		close(stop)
		if ok && err == nil {
			return
		}
		// crashed or hung: attribute to the marker
		b, _ := os.ReadFile(markPath)
		caseIdx, locus, desc := -1, "?", "?"
		if len(b) >= 4096 {
			caseIdx = int(*(*int64)(unsafe.Pointer(&b[0])))
			l := int(*(*int32)(unsafe.Pointer(&b[8])))
			if l > 0 && l <= 4096-16 {
				parts := strings.SplitN(string(b[16:16+l]), "\x00", 2)
				locus = parts[0]
				if len(parts) > 1 {
					desc = parts[1]
					if i := strings.IndexByte(desc, 1); i >= 0 {
						desc = desc[:i] + fmt.Sprintf(" input=%x", desc[i+1:])
					}
				}
			}
		}
		errBuf.mu.Lock()
		stderr := string(errBuf.buf)
		errBuf.mu.Unlock()
		class := classifyFatal(stderr)
		if atomic.LoadInt32(&hung) == 1 {
			class = "hang"
		}
		p.mu.Lock()
		p.restarts++
		if !(ck.Solo != nil && caseIdx >= 0 && ck.Solo(p.tier, caseIdx)) {
			p.lossyRestarts++
		}
		p.mu.Unlock()
		head := stderr
		if len(head) > 600 {
			head = head[:600]
		}
		if locus == "init" || locus == "case" && class == "fatal:died" && attempt > 50 {
			p.HarnessError(fmt.Sprintf("worker %d died outside a case (%s): %s", shard, class, head))
			return
		}
		p.AddViolation(Violation{Sig: class + "|" + locus, What: fmt.Sprintf("worker process died (%s) while running: %s", class, desc), Case: caseIdx,
			Detail: map[string]interface{}{"desc": desc, "stderr_head": head}})
		if caseIdx < 0 {
			p.HarnessError("worker died before its first case: " + head)
			return
		}
		from = caseIdx + 1
		if attempt > 2000 {
			p.HarnessError("too many worker restarts")
			return
		}
	}
}

// Evidence is the evidence file layout.
type Evidence struct {
	PropertyID  string                 `json:"property_id"`
	Tier        string                 `json:"tier"`
	Seed        int64                  `json:"seed"`
	Level       string                 `json:"level"`
	Coverage    map[string]interface{} `json:"coverage"`
	Assumptions []string               `json:"assumptions"`
	WallS       float64                `json:"wall_s"`
	Violations  int                    `json:"violations"`
}

// ParentMain runs a check: returns the process exit code.
func ParentMain(id, tier string) int {
	ck := Lookup(id)
	if ck == nil {
		fmt.Fprintln(os.Stderr, "unknown check", id, "known:", IDs())
		return 2
	}
	start := time.Now()
	seed, _ := strconv.ParseInt(os.Getenv("VERIF_SEED"), 10, 64)
	if seed < 0 {
		seed = -seed
	}
	p := &Parent{ck: ck, tier: tier, seed: seed, counters: map[string]int64{}, maxes: map[string]int64{}, obs: map[string]int64{}, groups: map[string]*group{}, notes: map[string]bool{}}
	self, _ := os.Executable()
	workDir := os.Getenv("VERIF_WORK")
	if workDir == "" {
		workDir = filepath.Join(verifDir(), ".work")
	}
	os.MkdirAll(workDir, 0o755)
	budget := 20 * time.Minute
	if ck.Budget != nil {
		budget = ck.Budget(tier)
	}
	deadline := start.Add(budget)
	if ck.ParentPre != nil {
		ck.ParentPre(tier, p)
	}
	nw := ck.Workers
	if nw == 0 {
		nw = runtime.NumCPU()
	}
	n := ck.NumCases(tier)
	if nw > n {
		nw = n
	}
	if nw < 1 {
		nw = 1
	}
	var wg sync.WaitGroup
	for s := 0; s < nw; s++ {
		wg.Add(1)
		go func(s int) {
			defer wg.Done()
			p.runWorker(self, s, nw, deadline, workDir)
		}(s)
	}
	wg.Wait()

	findings, ferr := loadFindings()
	if ferr != nil {
		p.HarnessError("known_findings.json unreadable: " + ferr.Error())
	}
	known := map[string]Finding{}
	for _, f := range findings {
		if f.Property == id && f.Status == "known" {
			known[f.Sig] = f
		}
	}
	var sigs []string
	for s := range p.groups {
		sigs = append(sigs, s)
	}
	sort.Strings(sigs)
	exit := 0
	nviol := 0
	var knownHit []string
	replayDir := filepath.Join(verifDir(), "replays")
	os.MkdirAll(replayDir, 0o755)
	for _, s := range sigs {
		g := p.groups[s]
		if f, ok := known[s]; ok {
			fmt.Printf("KNOWN-FINDING: property=%s %s — %s (%d occurrences this run)\n", id, s, f.What, g.count)
			knownHit = append(knownHit, s)
			continue
		}
		nviol++
		exit = 1
		v := Violation{Sig: s, What: "(no example recorded)"}
		if len(g.first) > 0 {
			v = g.first[0]
		}
		name := fmt.Sprintf("%s-%016x.json", id, hash64(s))
		path := filepath.Join(replayDir, name)
		rb, _ := json.MarshalIndent(map[string]interface{}{"property": id, "tier": tier, "seed": seed, "case": v.Case, "sig": s, "what": v.What, "detail": v.Detail, "occurrences": g.count}, "", " ")
		os.WriteFile(path, rb, 0o644)
		fmt.Printf("VIOLATION property=%s replay=%s\n", id, path)
		fmt.Printf("  sig: %s\n  what: %s\n  occurrences: %d\n", s, v.What, g.count)
	}
	exhaustive := !p.inexh && p.skipped == 0 && len(p.harnessErr) == 0 && p.lossyRestarts == 0
	cov := map[string]interface{}{
		"evaluations":         p.evals,
		"distinct_nontrivial": p.nt,
		"rule":                ck.Rule(tier),
		"samples":             p.samples,
		"exhaustive":          exhaustive,
		"cases_total":         n,
		"cases_completed":     p.casesDone,
		"cases_skipped_budget": p.skipped,
		"worker_restarts":     p.restarts,
		"known_findings_hit":  knownHit,
	}
	for k, v := range p.counters {
		cov[k] = v
	}
	for k, v := range p.maxes {
		cov[k] = v
	}
	for k, v := range p.obs {
		cov["distinct_"+k] = v
	}
	if len(p.notes) > 0 {
		var ns []string
		for k := range p.notes {
			ns = append(ns, k)
		}
		sort.Strings(ns)
		if len(ns) > 20 {
			ns = ns[:20]
		}
		cov["notes"] = ns
	}
	if ck.Post != nil {
		ck.Post(tier, cov)
	}
	if p.samples == nil {
		cov["samples"] = []interface{}{}
	}
	ev := Evidence{PropertyID: id, Tier: tier, Seed: seed, Level: ck.Level, Coverage: cov, Assumptions: ck.Assumptions, WallS: time.Since(start).Seconds(), Violations: nviol}
	eb, _ := json.MarshalIndent(ev, "", " ")
	evDir := filepath.Join(verifDir(), "evidence")
	os.MkdirAll(evDir, 0o755)
	if err := os.WriteFile(filepath.Join(evDir, id+".json"), append(eb, '\n'), 0o644); err != nil {
		p.HarnessError("cannot write evidence: " + err.Error())
	}
	fmt.Printf("%s %s: cases=%d/%d evaluations=%d distinct_nontrivial=%d violations=%d known=%d exhaustive=%v restarts=%d wall=%.1fs\n",
		id, tier, p.casesDone, n, p.evals, p.nt, nviol, len(knownHit), exhaustive, p.restarts, time.Since(start).Seconds())
	if len(p.harnessErr) > 0 {
		for _, e := range p.harnessErr {
			fmt.Fprintln(os.Stderr, "HARNESS-ERROR:", e)
		}
		if exit == 1 {
			// violations were found AND the machinery also tripped (typically a tree whose misbehaviour is itself
			// non-deterministic, so that a replay diverged): the violations stand — exit 1, harness errors shown
			return 1
		}
		return 2
	}
	return exit
}

// ReplayMain re-runs the single case recorded in a replay file and prints
// what it observes.
func ReplayMain(path string) int {
	b, err := os.ReadFile(path)
	if err != nil {
		fmt.Fprintln(os.Stderr, err)
		return 2
	}
	var r struct {
		Property string `json:"property"`
		Tier     string `json:"tier"`
		Seed     int64  `json:"seed"`
		Case     int    `json:"case"`
		Sig      string `json:"sig"`
	}
	if err := json.Unmarshal(b, &r); err != nil {
		fmt.Fprintln(os.Stderr, err)
		return 2
	}
	ck := Lookup(r.Property)
	if ck == nil {
		fmt.Fprintln(os.Stderr, "unknown property", r.Property)
		return 2
	}
	self, _ := os.Executable()
	cmd := exec.Command(self, "-worker", "-id", r.Property, "-tier", r.Tier, "-case", strconv.Itoa(r.Case), "-only", r.Sig, "-seed", strconv.FormatInt(r.Seed, 10))
	cmd.Env = append(os.Environ(), ck.WorkerEnv...)
	var out, errb bytes.Buffer
	cmd.Stdout = &out
	cmd.Stderr = &errb
	werr := cmd.Run()
	found := false
	for _, ln := range strings.Split(out.String(), "\n") {
		var d delta
		if json.Unmarshal([]byte(ln), &d) != nil {
			continue
		}
		for _, v := range d.Viol {
			found = true
			vb, _ := json.MarshalIndent(v, "", " ")
			fmt.Printf("REPRODUCED %s\n%s\n", v.Sig, vb)
		}
	}
	if werr != nil {
		class := classifyFatal(errb.String())
		fmt.Printf("worker died: %s\n%s\n", class, firstN(errb.String(), 1500))
		if strings.HasPrefix(r.Sig, class) {
			found = true
			fmt.Printf("REPRODUCED %s\n", r.Sig)
		}
	}
	if !found {
		fmt.Println("NOT REPRODUCED", r.Sig)
		return 0
	}
	return 1
}

func firstN(s string, n int) string {
	if len(s) > n {
		return s[:n]
	}
	return s
}

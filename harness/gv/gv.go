// Package gv binds Go values to reference datums: the abstraction function
// ToDatum (what a Go value means under a schema, per the documented mapping),
// Expect (the Go value a datum must decode to for a given target type) and
// Equal (equality up to the documented normalisations). It is written from
// the property statements and the package documentation, not from the
// library's code.
package gv

import (
	"fmt"
	"math"
	"reflect"
	"sort"
	"strings"
	"time"
	"unsafe"

	"github.com/unravelin/null/v5"

	"verifharness/ref"
)

var (
	TimeT       = reflect.TypeOf(time.Time{})
	NullIntT    = reflect.TypeOf(null.Int{})
	NullBoolT   = reflect.TypeOf(null.Bool{})
	NullFloatT  = reflect.TypeOf(null.Float{})
	NullStringT = reflect.TypeOf(null.String{})
	NullTimeT   = reflect.TypeOf(null.Time{})
	BytesT      = reflect.TypeOf([]byte(nil))
)

// Payload returns the payload field of a null.* wrapper value.
func Payload(v reflect.Value) reflect.Value {
	switch v.Type() {
	case NullIntT:
		return v.FieldByName("Int64")
	case NullBoolT:
		return v.FieldByName("Bool")
	case NullFloatT:
		return v.FieldByName("Float64")
	case NullStringT:
		return v.FieldByName("String")
	case NullTimeT:
		return v.FieldByName("Time")
	}
	panic("not a wrapper")
}

var (
	minNsTime = time.Unix(0, math.MinInt64).UTC()
	maxNsTime = time.Unix(0, math.MaxInt64).UTC()
)

func IsNullWrapper(t reflect.Type) bool {
	return t == NullIntT || t == NullBoolT || t == NullFloatT || t == NullStringT || t == NullTimeT
}

// FieldName is the documented naming rule: json tag name, "-" excludes,
// bq:"-" excludes, unexported excluded.
func FieldName(sf reflect.StructField) (string, bool) {
	if sf.PkgPath != "" {
		return "", false
	}
	if sf.Tag.Get("bq") == "-" {
		return "", false
	}
	name := sf.Name
	if tag, ok := sf.Tag.Lookup("json"); ok {
		n, _, _ := strings.Cut(tag, ",")
		if n == "-" {
			return "", false
		}
		if n != "" {
			name = n
		}
	}
	return name, true
}

func OmitEmpty(sf reflect.StructField) bool {
	tag := sf.Tag.Get("json")
	parts := strings.Split(tag, ",")
	for _, p := range parts[1:] {
		if p == "omitempty" {
			return true
		}
	}
	return false
}

// fieldByName finds the struct field carrying the schema field name.
func fieldByName(t reflect.Type, name string) (reflect.StructField, bool) {
	var found reflect.StructField
	ok := false
	for i := 0; i < t.NumField(); i++ {
		sf := t.Field(i)
		if n, in := FieldName(sf); in && n == name {
			found, ok = sf, true // last one wins (map semantics)
		}
	}
	return found, ok
}

func nullBranch(s *ref.Schema) (nullIdx, otherIdx int, ok bool) {
	if s.Type != "union" || len(s.Branches) != 2 {
		return 0, 0, false
	}
	if s.Branches[0].Type == "null" && s.Branches[1].Type != "null" {
		return 0, 1, true
	}
	if s.Branches[1].Type == "null" && s.Branches[0].Type != "null" {
		return 1, 0, true
	}
	return 0, 0, false
}

// Accessible returns a settable/readable view of v even when it was obtained
// through an unexported field.
func Accessible(v reflect.Value) reflect.Value {
	if v.CanAddr() && !v.CanInterface() {
		return reflect.NewAt(v.Type(), unsafe.Pointer(v.UnsafeAddr())).Elem()
	}
	return v
}

// Unsupported marks (schema, value) pairs the abstraction does not define.
type Unsupported struct{ Msg string }

func (u *Unsupported) Error() string { return "unsupported: " + u.Msg }

// ToDatum is the abstraction function. omit says whether the value sits in
// an omitempty field.
func ToDatum(s *ref.Schema, v reflect.Value, omit bool) (ref.Datum, error) {
	return toDatum(s, v, omit, true)
}

// ToDatumEmptyNonNull is the other admissible reading of "a zero omitempty
// field is written as null": a non-nil but empty slice or map is not the zero
// value, so it may also be written as the non-null branch. Checks accept either.
func ToDatumEmptyNonNull(s *ref.Schema, v reflect.Value, omit bool) (ref.Datum, error) {
	return toDatum(s, v, omit, false)
}

func toDatum(s *ref.Schema, v reflect.Value, omit bool, emptyIsNull bool) (ref.Datum, error) {
	t := v.Type()
	if s.Type == "null" {
		return ref.DNull(), nil
	}
	if ni, oi, ok := nullBranch(s); ok {
		other := s.Branches[oi]
		isNull := false
		inner := v
		switch {
		case t.Kind() == reflect.Ptr:
			for inner.Kind() == reflect.Ptr {
				if inner.IsNil() {
					isNull = true
					break
				}
				inner = inner.Elem()
			}
			if !isNull && IsNullWrapper(inner.Type()) && !inner.FieldByName("Valid").Bool() {
				// non-nil pointer to an invalid wrapper: no non-null representation exists
				isNull = true
			}
		case IsNullWrapper(t):
			isNull = !v.FieldByName("Valid").Bool()
		case t == TimeT:
			isNull = v.Interface().(time.Time).IsZero()
		case t.Kind() == reflect.Struct, t.Kind() == reflect.Array:
			isNull = false // like encoding/json, omitempty never omits a struct or a (non-empty) array
		default:
			isNull = omit && v.IsZero()
			if omit && (t.Kind() == reflect.Slice || t.Kind() == reflect.Map) && v.Len() == 0 {
				isNull = emptyIsNull || v.IsNil()
			}
		}
		if isNull {
			return ref.DUnion(ni, ref.DNull()), nil
		}
		d, err := toDatum(other, inner, false, emptyIsNull)
		if err != nil {
			return ref.Datum{}, err
		}
		return ref.DUnion(oi, d), nil
	}
	if s.Type == "union" {
		return ref.Datum{}, &Unsupported{"writing multi-branch unions"}
	}
	// pointers under a non-union schema
	if t.Kind() == reflect.Ptr {
		if v.IsNil() {
			switch s.Type {
			case "array":
				return ref.DArray(), nil
			case "map":
				return ref.DMap(nil, nil), nil
			}
			return ref.Datum{}, &Unsupported{"nil pointer under non-nullable schema " + s.Type}
		}
		return toDatum(s, v.Elem(), false, emptyIsNull)
	}
	switch s.Type {
	case "null":
		return ref.DNull(), nil
	case "boolean":
		if t == NullBoolT {
			return ref.DBool(v.FieldByName("Bool").Bool()), nil
		}
		if t.Kind() == reflect.Bool {
			return ref.DBool(v.Bool()), nil
		}
	case "int", "long":
		var i int64
		switch {
		case t == NullIntT:
			i = v.FieldByName("Int64").Int()
		case t == TimeT:
			tm := v.Interface().(time.Time)
			if s.Type == "int" {
				if s.Logical != "date" {
					return ref.Datum{}, &Unsupported{"time under int without date"}
				}
				i = floorDiv(tm.Unix(), 86400)
			} else {
				if tm.Before(minNsTime) || tm.After(maxNsTime) {
					// the library's long time codecs are specified for instants representable in int64 nanoseconds
					return ref.Datum{}, &Unsupported{"time outside the int64-nanosecond range under a long schema"}
				}
				switch s.Logical {
				case "timestamp-millis":
					i = tm.UnixMilli()
				case "timestamp-micros":
					i = tm.UnixMicro()
				default:
					i = tm.UnixNano()
				}
			}
		case t.Kind() == reflect.Int || t.Kind() == reflect.Int64 || t.Kind() == reflect.Int32 || t.Kind() == reflect.Int16 || t.Kind() == reflect.Int8:
			i = v.Int()
		default:
			return ref.Datum{}, &Unsupported{fmt.Sprintf("%s under %s", t, s.Type)}
		}
		if s.Type == "int" {
			if i < math.MinInt32 || i > math.MaxInt32 {
				return ref.Datum{}, &Unsupported{"value out of int range"}
			}
			return ref.Datum{K: ref.KInt, I: i}, nil
		}
		return ref.DLong(i), nil
	case "float":
		switch {
		case t == NullFloatT:
			return ref.DFloat(float32(v.FieldByName("Float64").Float())), nil
		case t.Kind() == reflect.Float32:
			return ref.DFloat(float32(v.Float())), nil
		}
	case "double":
		switch {
		case t == NullFloatT:
			return ref.DDouble(v.FieldByName("Float64").Float()), nil
		case t.Kind() == reflect.Float32, t.Kind() == reflect.Float64:
			return ref.DDouble(v.Float()), nil
		}
	case "string":
		switch {
		case t == NullStringT:
			return ref.DString(v.FieldByName("String").String()), nil
		case t == TimeT:
			return ref.DString(v.Interface().(time.Time).Format(time.RFC3339Nano)), nil
		case t == NullTimeT:
			return ref.DString(v.FieldByName("Time").Interface().(time.Time).Format(time.RFC3339Nano)), nil
		case t.Kind() == reflect.String:
			return ref.DString(v.String()), nil
		}
	case "bytes":
		if t.Kind() == reflect.Slice && t.Elem().Kind() == reflect.Uint8 {
			return ref.DBytes(string(v.Bytes())), nil
		}
	case "fixed":
		if t.Kind() == reflect.Array && t.Elem().Kind() == reflect.Uint8 && t.Len() == s.Size {
			b := make([]byte, t.Len())
			reflect.Copy(reflect.ValueOf(b), v)
			return ref.DFixed(string(b)), nil
		}
	case "array":
		if t.Kind() == reflect.Slice {
			out := ref.DArray()
			for i := 0; i < v.Len(); i++ {
				d, err := toDatum(s.Items, v.Index(i), false, emptyIsNull)
				if err != nil {
					return ref.Datum{}, err
				}
				out.L = append(out.L, d)
			}
			return out, nil
		}
	case "map":
		if t.Kind() == reflect.Map && t.Key().Kind() == reflect.String {
			out := ref.DMap(nil, nil)
			keys := v.MapKeys()
			sort.Slice(keys, func(i, j int) bool { return keys[i].String() < keys[j].String() })
			for _, k := range keys {
				d, err := toDatum(s.Values, v.MapIndex(k), false, emptyIsNull)
				if err != nil {
					return ref.Datum{}, err
				}
				out.Keys = append(out.Keys, k.String())
				out.L = append(out.L, d)
			}
			return out, nil
		}
	case "record":
		if t.Kind() == reflect.Struct && t != TimeT {
			out := ref.DRecord()
			for _, f := range s.Fields {
				sf, ok := fieldByName(t, f.Name)
				if !ok {
					return ref.Datum{}, &Unsupported{"struct does not cover field " + f.Name}
				}
				d, err := toDatum(f.Type, Accessible(v.FieldByIndex(sf.Index)), OmitEmpty(sf), emptyIsNull)
				if err != nil {
					return ref.Datum{}, err
				}
				out.L = append(out.L, d)
			}
			return out, nil
		}
	}
	return ref.Datum{}, &Unsupported{fmt.Sprintf("Go type %s under schema %s", t, s.Type)}
}

func floorDiv(a, b int64) int64 {
	q := a / b
	if (a%b != 0) && ((a < 0) != (b < 0)) {
		q--
	}
	return q
}

// ErrExpected means: decoding this datum into this target must fail.
type ErrExpected struct{ Msg string }

func (e *ErrExpected) Error() string { return "an error is expected: " + e.Msg }

// Expect fills dst (settable, zeroed) with the value that decoding datum d of
// schema s into dst's type must produce. It returns *ErrExpected when the
// decode must fail (integer does not fit) and *Unsupported when the pair is
// outside the documented mapping.
func Expect(s *ref.Schema, d ref.Datum, dst reflect.Value) error {
	t := dst.Type()
	if s.Type == "union" {
		br := s.Branches[d.I]
		if br.Type == "null" {
			return nil // stays zero / nil / invalid
		}
		return Expect(br, d.L[0], dst)
	}
	if s.Type == "null" {
		return nil // nothing is stored
	}
	if t.Kind() == reflect.Ptr {
		if dst.IsNil() {
			dst.Set(reflect.New(t.Elem()))
		}
		return Expect(s, d, dst.Elem())
	}
	switch s.Type {
	case "null":
		return nil
	case "boolean":
		switch {
		case t == NullBoolT:
			dst.Set(reflect.ValueOf(null.NewBool(d.I != 0, true)))
			return nil
		case t.Kind() == reflect.Bool:
			dst.SetBool(d.I != 0)
			return nil
		}
	case "int", "long":
		switch {
		case t == NullIntT:
			dst.Set(reflect.ValueOf(null.NewInt(d.I, true)))
			return nil
		case t == TimeT:
			var tm time.Time
			if s.Type == "int" {
				if s.Logical != "date" {
					return &Unsupported{"time under int without date"}
				}
				tm = time.Unix(d.I*86400, 0).UTC()
			} else {
				switch s.Logical {
				case "timestamp-millis":
					tm = time.UnixMilli(d.I).UTC()
				case "timestamp-micros":
					tm = time.UnixMicro(d.I).UTC()
				default:
					tm = time.Unix(0, d.I).UTC()
				}
			}
			dst.Set(reflect.ValueOf(tm))
			return nil
		}
		switch t.Kind() {
		case reflect.Int, reflect.Int64, reflect.Int32, reflect.Int16:
			if dst.OverflowInt(d.I) {
				return &ErrExpected{fmt.Sprintf("%d does not fit %s", d.I, t)}
			}
			dst.SetInt(d.I)
			return nil
		}
	case "float":
		f := math.Float32frombits(uint32(d.F))
		switch {
		case t == NullFloatT:
			dst.Set(reflect.ValueOf(null.NewFloat(float64(f), true)))
			return nil
		case t.Kind() == reflect.Float32:
			dst.SetFloat(float64(f))
			return nil
		}
	case "double":
		f := math.Float64frombits(d.F)
		switch {
		case t == NullFloatT:
			dst.Set(reflect.ValueOf(null.NewFloat(f, true)))
			return nil
		case t.Kind() == reflect.Float64:
			dst.SetFloat(f)
			return nil
		case t.Kind() == reflect.Float32:
			dst.SetFloat(float64(float32(f)))
			return nil
		}
	case "string":
		switch {
		case t == NullStringT:
			dst.Set(reflect.ValueOf(null.NewString(d.S, true)))
			return nil
		case t == TimeT, t == NullTimeT:
			tm, err := time.Parse(time.RFC3339, d.S)
			if err != nil {
				return &Unsupported{"string is not RFC3339: " + d.S}
			}
			if t == TimeT {
				dst.Set(reflect.ValueOf(tm))
			} else {
				dst.Set(reflect.ValueOf(null.NewTime(tm, true)))
			}
			return nil
		case t.Kind() == reflect.String:
			dst.SetString(d.S)
			return nil
		}
	case "bytes":
		if t.Kind() == reflect.Slice && t.Elem().Kind() == reflect.Uint8 {
			dst.SetBytes([]byte(d.S))
			return nil
		}
	case "fixed":
		if t.Kind() == reflect.Array && t.Elem().Kind() == reflect.Uint8 && t.Len() == s.Size {
			reflect.Copy(dst, reflect.ValueOf([]byte(d.S)))
			return nil
		}
	case "array":
		if t.Kind() == reflect.Slice {
			sl := reflect.MakeSlice(t, len(d.L), len(d.L))
			for i := range d.L {
				if err := Expect(s.Items, d.L[i], sl.Index(i)); err != nil {
					return err
				}
			}
			dst.Set(sl)
			return nil
		}
	case "map":
		if t.Kind() == reflect.Map && t.Key().Kind() == reflect.String {
			m := reflect.MakeMapWithSize(t, len(d.L))
			for i := range d.L {
				ev := reflect.New(t.Elem()).Elem()
				if err := Expect(s.Values, d.L[i], ev); err != nil {
					return err
				}
				m.SetMapIndex(reflect.ValueOf(d.Keys[i]).Convert(t.Key()), ev)
			}
			dst.Set(m)
			return nil
		}
	case "record":
		if t.Kind() == reflect.Struct && t != TimeT {
			for i, f := range s.Fields {
				sf, ok := fieldByName(t, f.Name)
				if !ok {
					continue // skipped
				}
				if err := Expect(f.Type, d.L[i], Accessible(dst.FieldByIndex(sf.Index))); err != nil {
					return err
				}
			}
			return nil
		}
	}
	return &Unsupported{fmt.Sprintf("datum of %s into %s", s.Type, t)}
}

// Equal compares two Go values up to the documented normalisations: nil and
// empty slices / maps / byte strings are identified; a nil pointer to a slice
// or map equals a pointer to an empty one; times compare by instant and UTC
// offset; NaN equals NaN; an invalid null.* wrapper equals any other invalid
// one. It returns "" or the path of the first difference.
func Equal(a, b reflect.Value) string { return equal(a, b, "") }

// DiffLocus returns the path of the first difference, the (at most two)
// innermost type constructors on the way to it, e.g. "slice>int16", and the
// class of the value a (the expected one) at the outer of those constructors.
func DiffLocus(a, b reflect.Value) (path, locus, vclass string) {
	path = equal(a, b, "")
	if path == "" {
		return "", "", ""
	}
	t := a.Type()
	v := a
	var chain []string
	var vals []reflect.Value
	p := path
	if i := strings.Index(p, ": "); i >= 0 {
		p = p[:i]
	}
	push := func() {
		chain = append(chain, KindName(t))
		vals = append(vals, v)
	}
	for len(p) > 0 && t != nil {
		push()
		switch {
		case p[0] == '*':
			if t.Kind() == reflect.Ptr {
				t = t.Elem()
				if v.IsValid() && !v.IsNil() {
					v = v.Elem()
				} else {
					v = reflect.Value{}
				}
			}
			p = p[1:]
		case p[0] == '[':
			j := strings.IndexByte(p, ']')
			if j < 0 {
				p = ""
				break
			}
			key := p[1:j]
			if t.Kind() == reflect.Slice || t.Kind() == reflect.Array || t.Kind() == reflect.Map {
				nv := reflect.Value{}
				if v.IsValid() {
					switch t.Kind() {
					case reflect.Map:
						for _, k := range v.MapKeys() {
							if fmt.Sprint(k) == key {
								nv = v.MapIndex(k)
							}
						}
					default:
						var idx int
						if _, err := fmt.Sscanf(key, "%d", &idx); err == nil && idx < v.Len() {
							nv = v.Index(idx)
						}
					}
				}
				v = nv
				t = t.Elem()
			}
			p = p[j+1:]
		case p[0] == '.':
			j := 1
			for j < len(p) && p[j] != '.' && p[j] != '[' && p[j] != '*' {
				j++
			}
			name := p[1:j]
			if t.Kind() == reflect.Struct {
				if f, ok := t.FieldByName(name); ok {
					t = f.Type
					if v.IsValid() {
						v = Accessible(v.FieldByIndex(f.Index))
					}
				} else {
					t = nil
				}
			} else {
				t = nil
			}
			p = p[j:]
		default:
			p = ""
		}
	}
	if t != nil {
		push()
	}
	// a difference AT a non-nil pointer whose pointee is a nil pointer (a **T with nil inner pointer) is identified
	// by that input shape alone, wherever the **T sits: the schema [null,T] has one null level (see the recorded
	// known finding), and the container around it is irrelevant
	if n := len(vals); n > 0 {
		if last := vals[n-1]; last.IsValid() && last.Kind() == reflect.Ptr && !last.IsNil() && last.Elem().Kind() == reflect.Ptr && last.Elem().IsNil() {
			return path, "ptr", "&nil"
		}
	}
	if len(chain) > 2 {
		chain = chain[len(chain)-2:]
		vals = vals[len(vals)-2:]
	}
	vclass = "?"
	if len(vals) > 0 && vals[0].IsValid() {
		vclass = ValueClass(vals[0])
	}
	return path, strings.Join(chain, ">"), vclass
}

// KindName names a type constructor for loci.
func KindName(t reflect.Type) string {
	switch {
	case t == TimeT:
		return "time.Time"
	case IsNullWrapper(t):
		return "null.*"
	}
	switch t.Kind() {
	case reflect.Ptr:
		return "ptr"
	case reflect.Slice:
		if t.Elem().Kind() == reflect.Uint8 {
			return "bytes"
		}
		return "slice"
	case reflect.Map:
		return "map"
	case reflect.Struct:
		return "struct"
	case reflect.Array:
		return "array"
	}
	return t.Kind().String()
}

// ValueClass abstracts a value for signatures.
func ValueClass(v reflect.Value) string {
	v = Accessible(v)
	t := v.Type()
	switch {
	case t == TimeT:
		tm := v.Interface().(time.Time)
		_, off := tm.Zone()
		switch {
		case tm.IsZero():
			return "zero-time"
		case off != 0:
			return "offset-time"
		case tm.Unix() < 0:
			return "pre-1970"
		}
		return "utc-time"
	case IsNullWrapper(t):
		if !v.FieldByName("Valid").Bool() {
			return "invalid"
		}
		return "valid:" + ValueClass(Payload(v))
	}
	switch t.Kind() {
	case reflect.Ptr:
		if v.IsNil() {
			return "nil"
		}
		return "&" + ValueClass(v.Elem())
	case reflect.Slice, reflect.Map:
		if v.IsNil() {
			return "nil"
		}
		if v.Len() == 0 {
			return "empty"
		}
		return fmt.Sprintf("len%d", min(v.Len(), 3))
	case reflect.String:
		if v.Len() == 0 {
			return "empty"
		}
		return "nonempty"
	case reflect.Bool:
		return fmt.Sprint(v.Bool())
	case reflect.Int, reflect.Int8, reflect.Int16, reflect.Int32, reflect.Int64:
		switch {
		case v.Int() == 0:
			return "zero"
		case v.Int() < 0:
			return "negative"
		}
		return "positive"
	case reflect.Float32, reflect.Float64:
		f := v.Float()
		switch {
		case f != f:
			return "nan"
		case f == 0 && math.Signbit(f):
			return "negzero"
		case f == 0:
			return "zero"
		case math.IsInf(f, 0):
			return "inf"
		}
		return "finite"
	case reflect.Struct:
		if v.IsZero() {
			return "zero-struct"
		}
		if t.NumField() == 1 {
			return "{" + ValueClass(v.Field(0)) + "}"
		}
		return "struct"
	}
	return t.Kind().String()
}

func equal(a, b reflect.Value, path string) string {
	if a.Type() != b.Type() {
		return path + ": type " + a.Type().String() + " vs " + b.Type().String()
	}
	t := a.Type()
	a, b = Accessible(a), Accessible(b)
	switch {
	case t == TimeT:
		x, y := a.Interface().(time.Time), b.Interface().(time.Time)
		_, ox := x.Zone()
		_, oy := y.Zone()
		if !x.Equal(y) || ox != oy {
			return fmt.Sprintf("%s: time %s vs %s", path, x.Format(time.RFC3339Nano), y.Format(time.RFC3339Nano))
		}
		return ""
	case IsNullWrapper(t):
		va, vb := a.FieldByName("Valid").Bool(), b.FieldByName("Valid").Bool()
		if va != vb {
			return fmt.Sprintf("%s: Valid %v vs %v", path, va, vb)
		}
		if !va {
			return ""
		}
		return equal(Payload(a), Payload(b), path+".payload")
	}
	switch t.Kind() {
	case reflect.Bool:
		if a.Bool() != b.Bool() {
			return fmt.Sprintf("%s: %v vs %v", path, a.Bool(), b.Bool())
		}
	case reflect.Int, reflect.Int8, reflect.Int16, reflect.Int32, reflect.Int64:
		if a.Int() != b.Int() {
			return fmt.Sprintf("%s: %d vs %d", path, a.Int(), b.Int())
		}
	case reflect.Uint, reflect.Uint8, reflect.Uint16, reflect.Uint32, reflect.Uint64, reflect.Uintptr:
		if a.Uint() != b.Uint() {
			return fmt.Sprintf("%s: %d vs %d", path, a.Uint(), b.Uint())
		}
	case reflect.Float32, reflect.Float64:
		x, y := a.Float(), b.Float()
		if x != x && y != y {
			return ""
		}
		if math.Float64bits(x) != math.Float64bits(y) {
			return fmt.Sprintf("%s: %v vs %v", path, x, y)
		}
	case reflect.String:
		if a.String() != b.String() {
			return fmt.Sprintf("%s: %q vs %q", path, clip(a.String()), clip(b.String()))
		}
	case reflect.Slice:
		if a.Len() != b.Len() {
			return fmt.Sprintf("%s: len %d vs %d", path, a.Len(), b.Len())
		}
		for i := 0; i < a.Len(); i++ {
			if d := equal(a.Index(i), b.Index(i), fmt.Sprintf("%s[%d]", path, i)); d != "" {
				return d
			}
		}
	case reflect.Array:
		for i := 0; i < a.Len(); i++ {
			if d := equal(a.Index(i), b.Index(i), fmt.Sprintf("%s[%d]", path, i)); d != "" {
				return d
			}
		}
	case reflect.Map:
		if a.Len() != b.Len() {
			return fmt.Sprintf("%s: map len %d vs %d", path, a.Len(), b.Len())
		}
		for _, k := range a.MapKeys() {
			bv := b.MapIndex(k)
			if !bv.IsValid() {
				return fmt.Sprintf("%s: key %v missing", path, k)
			}
			if d := equal(a.MapIndex(k), bv, fmt.Sprintf("%s[%v]", path, k)); d != "" {
				return d
			}
		}
	case reflect.Ptr:
		// a pointer chain that ends in a slice or map: the schema has no null there, so a nil
		// pointer at any level ≡ pointers to an empty collection
		et := t
		for et.Kind() == reflect.Ptr {
			et = et.Elem()
		}
		if et.Kind() == reflect.Slice || et.Kind() == reflect.Map {
			eff := func(v reflect.Value) (reflect.Value, int) {
				for v.Kind() == reflect.Ptr {
					if v.IsNil() {
						return reflect.Value{}, 0
					}
					v = v.Elem()
				}
				return v, v.Len()
			}
			va, la := eff(a)
			vb, lb := eff(b)
			if la == 0 && lb == 0 {
				return ""
			}
			if !va.IsValid() || !vb.IsValid() {
				return fmt.Sprintf("%s: nil vs non-empty", path)
			}
			return equal(va, vb, path+"*")
		}
		if a.IsNil() != b.IsNil() {
			return fmt.Sprintf("%s: nil %v vs %v", path, a.IsNil(), b.IsNil())
		}
		if !a.IsNil() {
			return equal(a.Elem(), b.Elem(), path+"*")
		}
	case reflect.Struct:
		for i := 0; i < t.NumField(); i++ {
			if d := equal(a.Field(i), b.Field(i), path+"."+t.Field(i).Name); d != "" {
				return d
			}
		}
	default:
		if !reflect.DeepEqual(Accessible(a).Interface(), Accessible(b).Interface()) {
			return path + ": differ"
		}
	}
	return ""
}

func clip(s string) string {
	if len(s) > 24 {
		return s[:24] + "…"
	}
	return s
}

// Show renders a Go value compactly for reports; it never panics (a corrupted value is reported as such).
func Show(v reflect.Value) (out string) {
	defer func() {
		if r := recover(); r != nil {
			out = fmt.Sprintf("<value cannot be rendered: %v>", r)
		}
	}()
	if !v.IsValid() {
		return "<invalid>"
	}
	return show(v)
}

func show(v reflect.Value) string {
	v = Accessible(v)
	t := v.Type()
	switch {
	case t == TimeT:
		return v.Interface().(time.Time).Format(time.RFC3339Nano)
	case IsNullWrapper(t):
		if !v.FieldByName("Valid").Bool() {
			return "invalid"
		}
		return "valid(" + Show(Payload(v)) + ")"
	}
	switch t.Kind() {
	case reflect.Ptr:
		if v.IsNil() {
			return "nil"
		}
		return "&" + Show(v.Elem())
	case reflect.Slice:
		if v.IsNil() {
			return "nil[]"
		}
		if t.Elem().Kind() == reflect.Uint8 {
			return fmt.Sprintf("b%q", clip(string(v.Bytes())))
		}
		var ps []string
		for i := 0; i < v.Len(); i++ {
			ps = append(ps, Show(v.Index(i)))
		}
		return "[" + strings.Join(ps, ",") + "]"
	case reflect.Map:
		if v.IsNil() {
			return "nilmap"
		}
		keys := v.MapKeys()
		sort.Slice(keys, func(i, j int) bool { return fmt.Sprint(keys[i]) < fmt.Sprint(keys[j]) })
		var ps []string
		for _, k := range keys {
			ps = append(ps, fmt.Sprintf("%v:%s", k, Show(v.MapIndex(k))))
		}
		return "map{" + strings.Join(ps, ",") + "}"
	case reflect.Struct:
		var ps []string
		for i := 0; i < t.NumField(); i++ {
			ps = append(ps, t.Field(i).Name+":"+Show(v.Field(i)))
		}
		return "{" + strings.Join(ps, " ") + "}"
	case reflect.String:
		return fmt.Sprintf("%q", clip(v.String()))
	case reflect.Float32, reflect.Float64:
		return fmt.Sprintf("%v", v.Float())
	case reflect.Array:
		if t.Elem().Kind() == reflect.Uint8 {
			b := make([]byte, v.Len())
			reflect.Copy(reflect.ValueOf(b), v)
			return fmt.Sprintf("fx%x", b)
		}
	}
	if v.CanInterface() {
		return fmt.Sprint(v.Interface())
	}
	return "?"
}

// TypeString renders a type expression (struct types with tags).
func TypeString(t reflect.Type) string {
	s := t.String()
	if len(s) > 300 {
		s = s[:300] + "…"
	}
	return s
}

// DeepCopy copies v completely (no storage shared with v).
func DeepCopy(v reflect.Value) reflect.Value {
	out := reflect.New(v.Type()).Elem()
	deepCopy(out, v)
	return out
}

func deepCopy(dst, src reflect.Value) {
	dst, src = Accessible(dst), Accessible(src)
	t := src.Type()
	if t == TimeT {
		dst.Set(src)
		return
	}
	switch t.Kind() {
	case reflect.String:
		dst.SetString(strings.Clone(src.String()))
	case reflect.Ptr:
		if src.IsNil() {
			return
		}
		n := reflect.New(t.Elem())
		deepCopy(n.Elem(), src.Elem())
		dst.Set(n)
	case reflect.Slice:
		if src.IsNil() {
			return
		}
		n := reflect.MakeSlice(t, src.Len(), src.Len())
		for i := 0; i < src.Len(); i++ {
			deepCopy(n.Index(i), src.Index(i))
		}
		dst.Set(n)
	case reflect.Map:
		if src.IsNil() {
			return
		}
		n := reflect.MakeMapWithSize(t, src.Len())
		for _, k := range src.MapKeys() {
			kc := reflect.New(t.Key()).Elem()
			deepCopy(kc, k)
			vc := reflect.New(t.Elem()).Elem()
			deepCopy(vc, src.MapIndex(k))
			n.SetMapIndex(kc, vc)
		}
		dst.Set(n)
	case reflect.Struct:
		for i := 0; i < t.NumField(); i++ {
			deepCopy(dst.Field(i), src.Field(i))
		}
	case reflect.Array:
		for i := 0; i < t.Len(); i++ {
			deepCopy(dst.Index(i), src.Index(i))
		}
	default:
		dst.Set(src)
	}
}

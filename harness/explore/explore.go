// Package explore is the explorer core: exhaustive / deviation-bounded
// enumeration of choice vectors by prefix replay (stateless model checking),
// and a small explicit-state BFS helper.
package explore

import "fmt"

// Chooser hands out the answers of one execution. Choice 0 is always the
// default answer; any other answer is a deviation.
type Chooser struct {
	prefix []int
	Arity  []int // arity of every choice point met in this execution
	Taken  []int // answer taken at every choice point
	Labels []string
}

func NewChooser(prefix []int) *Chooser { return &Chooser{prefix: prefix} }

// Choose returns the answer for a choice point with n alternatives (n>=1).
func (c *Chooser) Choose(label string, n int) int {
	if n < 1 {
		panic("explore: Choose with n<1")
	}
	i := len(c.Taken)
	a := 0
	if i < len(c.prefix) {
		a = c.prefix[i]
		if a >= n {
			panic(fmt.Sprintf("explore: replay divergence at point %d (%s): prefix answer %d but arity %d", i, label, a, n))
		}
	}
	c.Arity = append(c.Arity, n)
	c.Taken = append(c.Taken, a)
	c.Labels = append(c.Labels, label)
	return a
}

func (c *Chooser) Deviations() int {
	d := 0
	for _, a := range c.Taken {
		if a != 0 {
			d++
		}
	}
	return d
}

func (c *Chooser) Vector() []int { return append([]int(nil), c.Taken...) }

type Stats struct {
	Executions   int64
	ChoicePoints int64
	MaxDepth     int
	Bound        int // completed deviation bound (-1 = unbounded / all)
	Capped       bool
}

// Run enumerates every choice vector with at most bound deviations (bound<0:
// all vectors). exec is called once per vector with a fresh Chooser; it must be
// deterministic given the answers. cost, if non-nil, says whether taking a
// non-default answer at point i of the given execution counts as a deviation
// (used for preemption bounding, where switching away from a blocked thread is
// free); nil means every non-default answer costs 1. maxExec>0 caps the number
// of executions (Capped is then set).
func Run(bound int, maxExec int64, exec func(c *Chooser), cost func(c *Chooser, i int, alt int) int) Stats {
	return RunUntil(bound, maxExec, exec, cost, nil)
}

// RunUntil is Run that also stops (Capped) as soon as stop() says so — e.g. once a violation has been recorded
// and further executions of the same scenario would only repeat it.
func RunUntil(bound int, maxExec int64, exec func(c *Chooser), cost func(c *Chooser, i int, alt int) int, stop func() bool) Stats {
	st := Stats{Bound: bound}
	var rec func(prefix []int, used int)
	rec = func(prefix []int, used int) {
		if (maxExec > 0 && st.Executions >= maxExec) || (stop != nil && stop()) {
			st.Capped = true
			return
		}
		c := NewChooser(prefix)
		exec(c)
		st.Executions++
		st.ChoicePoints += int64(len(c.Taken))
		if len(c.Taken) > st.MaxDepth {
			st.MaxDepth = len(c.Taken)
		}
		if len(c.Taken) < len(prefix) {
			panic(fmt.Sprintf("explore: replay divergence: execution ended after %d points, prefix has %d", len(c.Taken), len(prefix)))
		}
		for i := len(prefix); i < len(c.Taken); i++ {
			for alt := 1; alt < c.Arity[i]; alt++ {
				k := 1
				if cost != nil {
					k = cost(c, i, alt)
				}
				if bound >= 0 && used+k > bound {
					continue
				}
				np := make([]int, i+1)
				copy(np, c.Taken[:i])
				np[i] = alt
				rec(np, used+k)
			}
		}
	}
	rec(nil, 0)
	return st
}

// All enumerates every choice vector.
func All(exec func(c *Chooser)) Stats { return Run(-1, 0, exec, nil) }

// Compositions returns every composition (ordered partition) of n into
// positive parts; n==0 gives one empty composition.
func Compositions(n int) [][]int {
	if n == 0 {
		return [][]int{{}}
	}
	var out [][]int
	for first := n; first >= 1; first-- {
		for _, rest := range Compositions(n - first) {
			out = append(out, append([]int{first}, rest...))
		}
	}
	return out
}

// Sequences calls f with every sequence over [0,alpha) of length exactly n.
func Sequences(alpha, n int, f func(seq []int)) {
	seq := make([]int, n)
	var rec func(i int)
	rec = func(i int) {
		if i == n {
			f(seq)
			return
		}
		for a := 0; a < alpha; a++ {
			seq[i] = a
			rec(i + 1)
		}
	}
	rec(0)
}

// Package ref is an independent reference model of the Avro 1.8 specification
// (schemas, binary encoding, object container files). It shares no code with
// github.com/philpearl/avro and is the oracle of most checks.
package ref

import (
	"bytes"
	"encoding/json"
	"fmt"
	"sort"
	"strconv"
	"strings"
)

// Schema is the reference AST of an Avro schema.
type Schema struct {
	Type      string // null boolean int long float double bytes string fixed record enum array map union
	Logical   string
	Name      string
	Namespace string
	Fields    []Field
	Items     *Schema
	Values    *Schema
	Size      int
	Symbols   []string
	Branches  []*Schema
	// ObjectForm: render a primitive as {"type":"long"} instead of "long".
	ObjectForm bool
	// Extra: unknown attributes (name -> raw JSON) to be rendered with the object.
	Extra []ExtraAttr
}

type Field struct {
	Name string
	Type *Schema
	// Extra attributes on the field object
	Extra []ExtraAttr
}

type ExtraAttr struct {
	Key string
	Raw string
}

func Prim(t string) *Schema           { return &Schema{Type: t} }
func Array(items *Schema) *Schema     { return &Schema{Type: "array", Items: items} }
func Map(values *Schema) *Schema      { return &Schema{Type: "map", Values: values} }
func Union(bs ...*Schema) *Schema     { return &Schema{Type: "union", Branches: bs} }
func Fixed(name string, n int) *Schema { return &Schema{Type: "fixed", Name: name, Size: n} }
func Record(name string, fs ...Field) *Schema {
	return &Schema{Type: "record", Name: name, Fields: fs}
}
func Logical(t, l string) *Schema { return &Schema{Type: t, Logical: l, ObjectForm: true} }
func F(name string, t *Schema) Field { return Field{Name: name, Type: t} }

func IsPrimitive(t string) bool {
	switch t {
	case "null", "boolean", "int", "long", "float", "double", "bytes", "string":
		return true
	}
	return false
}

// ParseSchema parses schema JSON with the standard library.
func ParseSchema(doc []byte) (*Schema, error) {
	dec := json.NewDecoder(bytes.NewReader(doc))
	dec.UseNumber()
	var v interface{}
	if err := dec.Decode(&v); err != nil {
		return nil, err
	}
	if dec.More() {
		return nil, fmt.Errorf("trailing data after schema")
	}
	return fromJSON(v)
}

func fromJSON(v interface{}) (*Schema, error) {
	switch x := v.(type) {
	case string:
		return &Schema{Type: x}, nil
	case []interface{}:
		s := &Schema{Type: "union"}
		for _, b := range x {
			bs, err := fromJSON(b)
			if err != nil {
				return nil, err
			}
			s.Branches = append(s.Branches, bs)
		}
		return s, nil
	case map[string]interface{}:
		t, ok := x["type"]
		if !ok {
			return nil, fmt.Errorf("schema object without type")
		}
		ts, ok := t.(string)
		if !ok {
			// {"type": {...}} or {"type":[...]} : nested type; flatten
			return fromJSON(t)
		}
		s := &Schema{Type: ts, ObjectForm: true}
		if l, ok := x["logicalType"].(string); ok {
			s.Logical = l
		}
		if n, ok := x["name"].(string); ok {
			s.Name = n
		}
		if n, ok := x["namespace"].(string); ok {
			s.Namespace = n
		}
		switch ts {
		case "record":
			fs, ok := x["fields"].([]interface{})
			if !ok {
				return nil, fmt.Errorf("record without fields")
			}
			for _, f := range fs {
				fm, ok := f.(map[string]interface{})
				if !ok {
					return nil, fmt.Errorf("field is not an object")
				}
				name, _ := fm["name"].(string)
				ft, ok := fm["type"]
				if !ok {
					return nil, fmt.Errorf("field without type")
				}
				fsch, err := fromJSON(ft)
				if err != nil {
					return nil, err
				}
				s.Fields = append(s.Fields, Field{Name: name, Type: fsch})
			}
		case "array":
			it, ok := x["items"]
			if !ok {
				return nil, fmt.Errorf("array without items")
			}
			is, err := fromJSON(it)
			if err != nil {
				return nil, err
			}
			s.Items = is
		case "map":
			it, ok := x["values"]
			if !ok {
				return nil, fmt.Errorf("map without values")
			}
			is, err := fromJSON(it)
			if err != nil {
				return nil, err
			}
			s.Values = is
		case "fixed":
			n, ok := x["size"].(json.Number)
			if !ok {
				return nil, fmt.Errorf("fixed without size")
			}
			i, err := strconv.Atoi(string(n))
			if err != nil {
				return nil, err
			}
			s.Size = i
		case "enum":
			sy, _ := x["symbols"].([]interface{})
			for _, e := range sy {
				es, _ := e.(string)
				s.Symbols = append(s.Symbols, es)
			}
		}
		return s, nil
	}
	return nil, fmt.Errorf("unexpected JSON value %T in schema", v)
}

// PrintOpts controls rendering.
type PrintOpts struct {
	// KeyPerm permutes the keys of every object: key i of the canonical order
	// is emitted at position given by rotating/permuting with this seed. nil = canonical.
	KeyOrder func(keys []string) []string
	// Layout 0 = compact, 1 = spaces after separators, 2 = newlines+indent
	Layout int
	// Escape 1 writes one character of every JSON string (values and keys alike) as a \uXXXX escape, as an
	// ASCII-only or paranoid JSON writer may; 2 also writes '/' as \/ . The document denotes the same strings.
	Escape int
}

// qs renders a JSON string under the escape option.
func (o *PrintOpts) qs(s string) string {
	if o == nil || o.Escape == 0 || s == "" {
		return q(s)
	}
	// escape the middle rune if it is plain ASCII (deterministic, position varies with length)
	i := len(s) / 2
	c := s[i]
	if c < 0x20 || c >= 0x7f || c == '"' || c == '\\' {
		return q(s)
	}
	out := q(s[:i])
	out = out[:len(out)-1] + fmt.Sprintf("\\u%04x", c) + q(s[i+1:])[1:]
	if o.Escape == 2 {
		out = strings.ReplaceAll(out, "/", "\\/")
	}
	return out
}

type kv struct {
	k string
	v string
}

func q(s string) string { b, _ := json.Marshal(s); return string(b) }

// Print renders the schema as JSON.
func (s *Schema) Print(o *PrintOpts) string {
	if o == nil {
		o = &PrintOpts{}
	}
	return s.print(o, 0)
}

func (s *Schema) String() string { return s.Print(nil) }

func sepFor(o *PrintOpts, depth int) (open, comma, colon, close string) {
	switch o.Layout {
	case 1:
		return " ", ", ", " : ", " "
	case 2:
		ind := "\n" + strings.Repeat("\t", depth+1)
		return ind, "," + ind, ":\t", "\n" + strings.Repeat("\t", depth)
	}
	return "", ",", ":", ""
}

func (s *Schema) print(o *PrintOpts, depth int) string {
	open, comma, colon, closeS := sepFor(o, depth)
	if s.Type == "union" {
		var parts []string
		for _, b := range s.Branches {
			parts = append(parts, b.print(o, depth+1))
		}
		if len(parts) == 0 {
			return "[]"
		}
		return "[" + open + strings.Join(parts, comma) + closeS + "]"
	}
	if IsPrimitive(s.Type) && !s.ObjectForm && s.Logical == "" && len(s.Extra) == 0 {
		return o.qs(s.Type)
	}
	var kvs []kv
	kvs = append(kvs, kv{"type", o.qs(s.Type)})
	if s.Logical != "" {
		kvs = append(kvs, kv{"logicalType", o.qs(s.Logical)})
	}
	if s.Name != "" {
		kvs = append(kvs, kv{"name", o.qs(s.Name)})
	}
	if s.Namespace != "" {
		kvs = append(kvs, kv{"namespace", o.qs(s.Namespace)})
	}
	switch s.Type {
	case "record":
		var fs []string
		fopen, fcomma, fcolon, fclose := sepFor(o, depth+2)
		for _, f := range s.Fields {
			fk := []kv{{"name", o.qs(f.Name)}, {"type", f.Type.print(o, depth+3)}}
			for _, e := range f.Extra {
				fk = append(fk, kv{e.Key, e.Raw})
			}
			fk = orderKVs(o, fk)
			var ps []string
			for _, e := range fk {
				ps = append(ps, o.qs(e.k)+fcolon+e.v)
			}
			fs = append(fs, "{"+fopen+strings.Join(ps, fcomma)+fclose+"}")
		}
		aopen, acomma, _, aclose := sepFor(o, depth+1)
		if len(fs) == 0 {
			kvs = append(kvs, kv{"fields", "[]"})
		} else {
			kvs = append(kvs, kv{"fields", "[" + aopen + strings.Join(fs, acomma) + aclose + "]"})
		}
	case "enum":
		b, _ := json.Marshal(s.Symbols)
		if s.Symbols == nil {
			b = []byte("[]")
		}
		kvs = append(kvs, kv{"symbols", string(b)})
	case "array":
		kvs = append(kvs, kv{"items", s.Items.print(o, depth+1)})
	case "map":
		kvs = append(kvs, kv{"values", s.Values.print(o, depth+1)})
	case "fixed":
		kvs = append(kvs, kv{"size", strconv.Itoa(s.Size)})
	}
	for _, e := range s.Extra {
		kvs = append(kvs, kv{e.Key, e.Raw})
	}
	kvs = orderKVs(o, kvs)
	var ps []string
	for _, e := range kvs {
		ps = append(ps, o.qs(e.k)+colon+e.v)
	}
	return "{" + open + strings.Join(ps, comma) + closeS + "}"
}

func orderKVs(o *PrintOpts, kvs []kv) []kv {
	if o.KeyOrder == nil {
		return kvs
	}
	keys := make([]string, len(kvs))
	m := map[string]string{}
	for i, e := range kvs {
		keys[i] = e.k
		m[e.k] = e.v
	}
	nk := o.KeyOrder(keys)
	out := make([]kv, 0, len(kvs))
	for _, k := range nk {
		out = append(out, kv{k, m[k]})
	}
	return out
}

// Equal compares two schemas structurally (ObjectForm and Extra are rendering
// details and ignored).
func (s *Schema) Equal(t *Schema) bool {
	if s == nil || t == nil {
		return s == t
	}
	if s.Type != t.Type || s.Logical != t.Logical || s.Name != t.Name || s.Namespace != t.Namespace || s.Size != t.Size {
		return false
	}
	if len(s.Fields) != len(t.Fields) || len(s.Branches) != len(t.Branches) || len(s.Symbols) != len(t.Symbols) {
		return false
	}
	for i := range s.Fields {
		if s.Fields[i].Name != t.Fields[i].Name || !s.Fields[i].Type.Equal(t.Fields[i].Type) {
			return false
		}
	}
	for i := range s.Branches {
		if !s.Branches[i].Equal(t.Branches[i]) {
			return false
		}
	}
	for i := range s.Symbols {
		if s.Symbols[i] != t.Symbols[i] {
			return false
		}
	}
	if (s.Items == nil) != (t.Items == nil) || (s.Values == nil) != (t.Values == nil) {
		return false
	}
	if s.Items != nil && !s.Items.Equal(t.Items) {
		return false
	}
	if s.Values != nil && !s.Values.Equal(t.Values) {
		return false
	}
	return true
}

// Validate checks the structural rules of the Avro specification that the
// properties name: unions never directly contain unions, never repeat an
// unnamed type (or the same named type), and every named type (full name) is
// defined at most once. It returns a list of problems.
func (s *Schema) Validate() []string {
	var probs []string
	seen := map[string]int{}
	var walk func(s *Schema, path string)
	walk = func(s *Schema, path string) {
		switch s.Type {
		case "union":
			kinds := map[string]bool{}
			for i, b := range s.Branches {
				if b.Type == "union" {
					probs = append(probs, fmt.Sprintf("%s: union directly inside union", path))
				}
				k := b.Type
				if b.Type == "record" || b.Type == "fixed" || b.Type == "enum" {
					k = b.Type + ":" + b.Namespace + "." + b.Name
				}
				if kinds[k] {
					probs = append(probs, fmt.Sprintf("%s: union repeats branch %s", path, k))
				}
				kinds[k] = true
				walk(b, fmt.Sprintf("%s[%d]", path, i))
			}
		case "record":
			if s.Name != "" {
				full := s.Namespace + "." + s.Name
				seen[full]++
				if seen[full] == 2 {
					probs = append(probs, fmt.Sprintf("%s: named type %s defined more than once", path, full))
				}
			}
			names := map[string]bool{}
			for _, f := range s.Fields {
				if names[f.Name] {
					probs = append(probs, fmt.Sprintf("%s: duplicate field %s", path, f.Name))
				}
				names[f.Name] = true
				walk(f.Type, path+"."+f.Name)
			}
		case "fixed", "enum":
			if s.Name != "" {
				full := s.Namespace + "." + s.Name
				seen[full]++
				if seen[full] == 2 {
					probs = append(probs, fmt.Sprintf("%s: named type %s defined more than once", path, full))
				}
			}
		case "array":
			walk(s.Items, path+"[]")
		case "map":
			walk(s.Values, path+"{}")
		}
	}
	walk(s, "$")
	sort.Strings(probs)
	return probs
}

// Nodes counts schema nodes.
func (s *Schema) Nodes() int {
	n := 1
	for _, f := range s.Fields {
		n += f.Type.Nodes()
	}
	for _, b := range s.Branches {
		n += b.Nodes()
	}
	if s.Items != nil {
		n += s.Items.Nodes()
	}
	if s.Values != nil {
		n += s.Values.Nodes()
	}
	return n
}

package ref

import (
	"encoding/binary"
	"math"
	"os"
	"testing"
)

func TestVarintAgainstStdlib(t *testing.T) {
	vals := []int64{0, 1, -1, 63, 64, -64, -65, 8191, 8192, math.MaxInt32, math.MinInt32, math.MaxInt64, math.MinInt64}
	for k := 0; k < 63; k++ {
		vals = append(vals, 1<<k, -(1 << k), 1<<k-1, -(1<<k)-1)
	}
	for _, v := range vals {
		got := AppendLong(nil, v)
		want := binary.AppendVarint(nil, v)
		if string(got) != string(want) {
			t.Fatalf("%d: %x vs %x", v, got, want)
		}
		r, n, c := ReadLong(got)
		if c != VOK || n != len(got) || r != v {
			t.Fatalf("%d: read back %d n=%d class=%d", v, r, n, c)
		}
	}
}

func TestRoundTripAllEncodings(t *testing.T) {
	s := Record("r", F("a", Array(Union(Prim("null"), Prim("long")))), F("m", Map(Array(Prim("string")))), F("f", Fixed("fx", 3)))
	d := DRecord(
		DArray(DUnion(0, DNull()), DUnion(1, DLong(-5)), DUnion(1, DLong(1<<40))),
		DMap([]string{"k", "j"}, []Datum{DArray(DString("x"), DString("")), DArray()}),
		DFixed("abc"))
	n := AllEncodings(s, d, 0, func(enc []byte, vec []int) {
		got, used, err := Decode(s, enc)
		if err != nil || used != len(enc) || !got.Equal(d) {
			t.Fatalf("vec %v: err=%v used=%d/%d got=%s", vec, err, used, len(enc), got)
		}
	})
	if n < 100 {
		t.Fatalf("only %d encodings", n)
	}
}

func TestParseCheckedInFiles(t *testing.T) {
	for _, f := range []string{"/repo/testdata/avro1", "/repo/null/testdata/nullavro"} {
		b, err := os.ReadFile(f)
		if err != nil {
			t.Skip(err)
		}
		p, err := ParseFile(b)
		if err != nil {
			t.Fatalf("%s: %v", f, err)
		}
		s, err := ParseSchema(p.Meta["avro.schema"])
		if err != nil {
			t.Fatalf("%s: schema: %v", f, err)
		}
		total := 0
		for _, bl := range p.Blocks {
			ds, err := DecodeAll(s, bl.Payload, bl.Count)
			if err != nil {
				t.Fatalf("%s: %v", f, err)
			}
			total += len(ds)
		}
		if total == 0 {
			t.Fatalf("%s: no records", f)
		}
		// print -> parse is the identity on the AST
		s2, err := ParseSchema([]byte(s.Print(&PrintOpts{Layout: 2})))
		if err != nil || !s.Equal(s2) {
			t.Fatalf("%s: schema print/parse mismatch: %v", f, err)
		}
	}
}

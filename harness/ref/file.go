package ref

import (
	"bytes"
	"compress/flate"
	"encoding/binary"
	"fmt"
	"hash/crc32"
	"io"

	"github.com/golang/snappy"
)

var Magic = []byte{'O', 'b', 'j', 1}

// Block is one container-file block before compression.
type Block struct {
	Count   int64
	Payload []byte
}

type MetaEntry struct {
	Key string
	Val []byte
}

// Compress compresses a payload with the named codec ("null", "deflate", "snappy").
func Compress(codec string, payload []byte) []byte {
	switch codec {
	case "null", "":
		return append([]byte(nil), payload...)
	case "deflate":
		var buf bytes.Buffer
		w, _ := flate.NewWriter(&buf, flate.DefaultCompression)
		w.Write(payload)
		w.Close()
		return buf.Bytes()
	case "snappy":
		out := snappy.Encode(nil, payload)
		return binary.BigEndian.AppendUint32(out, crc32.ChecksumIEEE(payload))
	}
	panic("ref.Compress: unknown codec " + codec)
}

// Decompress is the reference decompressor; an error means "the decompressor rejects".
func Decompress(codec string, raw []byte) ([]byte, error) {
	switch codec {
	case "null", "":
		return raw, nil
	case "deflate":
		r := flate.NewReader(bytes.NewReader(raw))
		out, err := io.ReadAll(r)
		if err != nil {
			return nil, err
		}
		return out, nil
	case "snappy":
		if len(raw) < 4 {
			return nil, fmt.Errorf("snappy block shorter than its checksum")
		}
		out, err := snappy.Decode(nil, raw[:len(raw)-4])
		if err != nil {
			return nil, err
		}
		if crc32.ChecksumIEEE(out) != binary.BigEndian.Uint32(raw[len(raw)-4:]) {
			return nil, fmt.Errorf("snappy crc mismatch")
		}
		return out, nil
	}
	return nil, fmt.Errorf("unknown codec %q", codec)
}

// Layout records where things ended up in a written file.
type Layout struct {
	HeaderEnd  int
	SyncOff    int // offset of the header sync
	Blocks     []BlockLayout
	MetaCountOff int
}

type BlockLayout struct {
	Start        int // offset of the count varint
	SizeOff      int
	PayloadStart int
	PayloadEnd   int // one past the last payload byte (compressed)
	End          int // one past the sync marker
}

// WriteFile writes a container file. meta is written in the given order as a
// single map block.
func WriteFile(meta []MetaEntry, codec string, sync [16]byte, blocks []Block) ([]byte, Layout) {
	return WriteFileSplit(meta, nil, false, codec, sync, blocks)
}

// WriteFileSplit is WriteFile with the metadata map written in several map blocks (split gives the number of
// entries per block, nil = one block), each block in the byte-size-prefixed form (negative count, then the byte
// size) when sized is set — both are what the specification allows for any map.
func WriteFileSplit(meta []MetaEntry, split []int, sized bool, codec string, sync [16]byte, blocks []Block) ([]byte, Layout) {
	var lay Layout
	b := append([]byte(nil), Magic...)
	lay.MetaCountOff = len(b)
	if split == nil && len(meta) > 0 {
		split = []int{len(meta)}
	}
	pos := 0
	for _, n := range split {
		var body []byte
		for _, m := range meta[pos : pos+n] {
			body = AppendLong(body, int64(len(m.Key)))
			body = append(body, m.Key...)
			body = AppendLong(body, int64(len(m.Val)))
			body = append(body, m.Val...)
		}
		pos += n
		if sized {
			b = AppendLong(b, -int64(n))
			b = AppendLong(b, int64(len(body)))
		} else {
			b = AppendLong(b, int64(n))
		}
		b = append(b, body...)
	}
	b = AppendLong(b, 0)
	lay.SyncOff = len(b)
	b = append(b, sync[:]...)
	lay.HeaderEnd = len(b)
	for _, bl := range blocks {
		var l BlockLayout
		l.Start = len(b)
		b = AppendLong(b, bl.Count)
		raw := Compress(codec, bl.Payload)
		l.SizeOff = len(b)
		b = AppendLong(b, int64(len(raw)))
		l.PayloadStart = len(b)
		b = append(b, raw...)
		l.PayloadEnd = len(b)
		b = append(b, sync[:]...)
		l.End = len(b)
		lay.Blocks = append(lay.Blocks, l)
	}
	return b, lay
}

// StdMeta is the usual metadata: schema then codec ("" = no codec entry).
func StdMeta(schemaJSON string, codec string, withCodec bool) []MetaEntry {
	m := []MetaEntry{{"avro.schema", []byte(schemaJSON)}}
	if withCodec {
		m = append(m, MetaEntry{"avro.codec", []byte(codec)})
	}
	return m
}

type ParsedBlock struct {
	Count   int64
	Size    int64
	Raw     []byte
	Payload []byte // decompressed
	BlockLayout
}

type Parsed struct {
	Meta      map[string][]byte
	MetaOrder []string
	Sync      [16]byte
	HeaderEnd int
	Codec     string
	Blocks    []ParsedBlock
}

// ParseFile strictly parses a container file: magic, metadata map (possibly
// several map blocks), sync, then blocks until the end of input; every block's
// sync must equal the header's and every payload must decompress.
func ParseFile(b []byte) (*Parsed, error) {
	p := &Parsed{Meta: map[string][]byte{}}
	if len(b) < 4 || !bytes.Equal(b[:4], Magic) {
		return nil, fmt.Errorf("bad magic")
	}
	i := 4
	long := func() (int64, error) {
		v, n, c := ReadLong(b[i:])
		if c != VOK {
			return 0, fmt.Errorf("bad varint at %d", i)
		}
		i += n
		return v, nil
	}
	next := func(n int64) ([]byte, error) {
		if n < 0 || n > int64(len(b)-i) {
			return nil, fmt.Errorf("length %d out of range at %d", n, i)
		}
		out := b[i : i+int(n)]
		i += int(n)
		return out, nil
	}
	for {
		cnt, err := long()
		if err != nil {
			return nil, err
		}
		if cnt == 0 {
			break
		}
		if cnt < 0 {
			cnt = -cnt
			if _, err := long(); err != nil {
				return nil, err
			}
		}
		for ; cnt > 0; cnt-- {
			kl, err := long()
			if err != nil {
				return nil, err
			}
			k, err := next(kl)
			if err != nil {
				return nil, err
			}
			vl, err := long()
			if err != nil {
				return nil, err
			}
			v, err := next(vl)
			if err != nil {
				return nil, err
			}
			p.Meta[string(k)] = v
			p.MetaOrder = append(p.MetaOrder, string(k))
		}
	}
	s, err := next(16)
	if err != nil {
		return nil, fmt.Errorf("header sync: %w", err)
	}
	copy(p.Sync[:], s)
	p.HeaderEnd = i
	p.Codec = "null"
	if c, ok := p.Meta["avro.codec"]; ok {
		p.Codec = string(c)
		// "If codec is absent, it is assumed to be null": a PRESENT entry must name a codec; the empty string names none
		if p.Codec != "null" && p.Codec != "deflate" && p.Codec != "snappy" {
			return nil, fmt.Errorf("avro.codec %q names no codec this reader implements (null, deflate, snappy)", p.Codec)
		}
	}
	if _, ok := p.Meta["avro.schema"]; !ok {
		return nil, fmt.Errorf("no avro.schema in metadata")
	}
	for i < len(b) {
		var pb ParsedBlock
		pb.Start = i
		if pb.Count, err = long(); err != nil {
			return nil, fmt.Errorf("block count: %w", err)
		}
		pb.SizeOff = i
		if pb.Size, err = long(); err != nil {
			return nil, fmt.Errorf("block size: %w", err)
		}
		pb.PayloadStart = i
		if pb.Raw, err = next(pb.Size); err != nil {
			return nil, fmt.Errorf("block payload: %w", err)
		}
		pb.PayloadEnd = i
		sy, err := next(16)
		if err != nil {
			return nil, fmt.Errorf("block sync: %w", err)
		}
		if !bytes.Equal(sy, p.Sync[:]) {
			return nil, fmt.Errorf("block sync mismatch at %d", i-16)
		}
		pb.End = i
		if pb.Count < 0 {
			return nil, fmt.Errorf("negative block count %d", pb.Count)
		}
		if pb.Payload, err = Decompress(p.Codec, pb.Raw); err != nil {
			return nil, fmt.Errorf("block %d: decompress: %w", len(p.Blocks), err)
		}
		p.Blocks = append(p.Blocks, pb)
	}
	return p, nil
}

package ref

import (
	"encoding/binary"
	"fmt"
	"math"
	"sort"
	"strings"

	"verifharness/explore"
)

type Kind int

const (
	KNull Kind = iota
	KBool
	KInt
	KLong
	KFloat
	KDouble
	KBytes
	KString
	KFixed
	KRecord
	KArray
	KMap
	KUnion
	KEnum
)

// Datum is an Avro datum.
type Datum struct {
	K    Kind
	I    int64   // bool (0/1), int, long, enum index, union branch index
	F    uint64  // float32 bits (low 32) or float64 bits
	S    string  // bytes / string / fixed payload
	L    []Datum // record fields, array items, map values, union value (1 element)
	Keys []string
}

func DNull() Datum            { return Datum{K: KNull} }
func DBool(b bool) Datum      { d := Datum{K: KBool}; if b { d.I = 1 }; return d }
func DInt(i int32) Datum      { return Datum{K: KInt, I: int64(i)} }
func DLong(i int64) Datum     { return Datum{K: KLong, I: i} }
func DFloat(f float32) Datum  { return Datum{K: KFloat, F: uint64(math.Float32bits(f))} }
func DDouble(f float64) Datum { return Datum{K: KDouble, F: math.Float64bits(f)} }
func DBytes(b string) Datum   { return Datum{K: KBytes, S: b} }
func DString(s string) Datum  { return Datum{K: KString, S: s} }
func DFixed(s string) Datum   { return Datum{K: KFixed, S: s} }
func DRecord(fs ...Datum) Datum { return Datum{K: KRecord, L: fs} }
func DArray(items ...Datum) Datum { return Datum{K: KArray, L: items} }
func DMap(keys []string, vals []Datum) Datum {
	return Datum{K: KMap, Keys: keys, L: vals}
}
func DUnion(branch int, v Datum) Datum { return Datum{K: KUnion, I: int64(branch), L: []Datum{v}} }

// Canon returns the datum with every map's entries sorted by key.
func (d Datum) Canon() Datum {
	out := d
	if len(d.L) > 0 {
		out.L = make([]Datum, len(d.L))
		for i := range d.L {
			out.L[i] = d.L[i].Canon()
		}
	}
	if d.K == KMap {
		idx := make([]int, len(d.Keys))
		for i := range idx {
			idx[i] = i
		}
		sort.SliceStable(idx, func(a, b int) bool { return d.Keys[idx[a]] < d.Keys[idx[b]] })
		keys := make([]string, len(idx))
		l := make([]Datum, len(idx))
		for i, j := range idx {
			keys[i] = d.Keys[j]
			l[i] = out.L[j]
		}
		out.Keys, out.L = keys, l
	}
	return out
}

// Equal compares canonical forms; floats by bit pattern.
func (d Datum) Equal(e Datum) bool {
	return d.Canon().eq(e.Canon())
}

func (d Datum) eq(e Datum) bool {
	if d.K != e.K || d.I != e.I || d.F != e.F || d.S != e.S || len(d.L) != len(e.L) || len(d.Keys) != len(e.Keys) {
		return false
	}
	for i := range d.Keys {
		if d.Keys[i] != e.Keys[i] {
			return false
		}
	}
	for i := range d.L {
		if !d.L[i].eq(e.L[i]) {
			return false
		}
	}
	return true
}

func (d Datum) String() string {
	switch d.K {
	case KNull:
		return "null"
	case KBool:
		return fmt.Sprint(d.I != 0)
	case KInt:
		return fmt.Sprintf("%di", d.I)
	case KLong:
		return fmt.Sprintf("%dL", d.I)
	case KFloat:
		return fmt.Sprintf("f32:%08x", d.F)
	case KDouble:
		return fmt.Sprintf("f64:%016x", d.F)
	case KBytes:
		return fmt.Sprintf("b%q", clip(d.S))
	case KString:
		return fmt.Sprintf("%q", clip(d.S))
	case KFixed:
		return fmt.Sprintf("fx%q", clip(d.S))
	case KEnum:
		return fmt.Sprintf("enum#%d", d.I)
	case KRecord, KArray:
		var ps []string
		for _, x := range d.L {
			ps = append(ps, x.String())
		}
		if d.K == KRecord {
			return "{" + strings.Join(ps, ",") + "}"
		}
		return "[" + strings.Join(ps, ",") + "]"
	case KMap:
		var ps []string
		for i, x := range d.L {
			ps = append(ps, fmt.Sprintf("%q:%s", d.Keys[i], x.String()))
		}
		return "map{" + strings.Join(ps, ",") + "}"
	case KUnion:
		return fmt.Sprintf("u%d(%s)", d.I, d.L[0].String())
	}
	return "?"
}

func clip(s string) string {
	if len(s) > 24 {
		return s[:24] + fmt.Sprintf("...(%d)", len(s))
	}
	return s
}

// ---------------------------------------------------------------- varints

// AppendLong appends the zig-zag base-128 varint of v, exactly as the Avro
// specification describes it (written from the spec text, not via
// encoding/binary).
func AppendLong(b []byte, v int64) []byte {
	u := (uint64(v) << 1) ^ uint64(v>>63)
	for u >= 0x80 {
		b = append(b, byte(u&0x7f)|0x80)
		u >>= 7
	}
	return append(b, byte(u))
}

type VarintClass int

const (
	VOK VarintClass = iota
	VTruncated
	VTooLong  // more than 10 bytes
	VOverflow // tenth byte carries more than 1 bit
)

// ReadLong decodes one zig-zag varint and classifies failures.
func ReadLong(b []byte) (v int64, n int, class VarintClass) {
	var u uint64
	for i := 0; ; i++ {
		if i >= len(b) {
			return 0, i, VTruncated
		}
		c := b[i]
		if i == 10 {
			return 0, i, VTooLong
		}
		if i == 9 && c > 1 {
			if c&0x80 != 0 {
				// continues past ten bytes
				return 0, i, VTooLong
			}
			return 0, i, VOverflow
		}
		u |= uint64(c&0x7f) << (7 * uint(i))
		if c&0x80 == 0 {
			return int64(u>>1) ^ -int64(u&1), i + 1, VOK
		}
	}
}

// ---------------------------------------------------------------- encoding

// Annot marks a region of an encoding for single-field mutation.
type Annot struct {
	Off, Len int
	Role     string // len count bsize sel payload
	Val      int64
}

// Enc is a choice-driven encoder: every legal serialisation of a datum is
// reachable through some answer vector of Ch (nil Ch = the default, simplest
// encoding: one block per collection, no byte sizes).
type Enc struct {
	Ch  *explore.Chooser
	Ann *[]Annot
	// MaxBlocks limits how many blocks a collection may be split into (0 = no limit)
	MaxBlocks int
	// Policy, when set, answers every choice instead of Ch (a fixed writer behaviour, e.g. "one item per block")
	Policy func(label string, n int) int
}

func (e *Enc) choose(label string, n int) int {
	if e == nil || n <= 1 {
		return 0
	}
	if e.Policy != nil {
		return e.Policy(label, n)
	}
	if e.Ch == nil {
		return 0
	}
	return e.Ch.Choose(label, n)
}

func (e *Enc) ann(off, l int, role string, v int64) {
	if e != nil && e.Ann != nil {
		*e.Ann = append(*e.Ann, Annot{off, l, role, v})
	}
}

func (e *Enc) long(b []byte, v int64, role string) []byte {
	off := len(b)
	b = AppendLong(b, v)
	e.ann(off, len(b)-off, role, v)
	return b
}

// Encode appends the binary encoding of d under s.
func (e *Enc) Encode(b []byte, s *Schema, d Datum) []byte {
	switch s.Type {
	case "null":
		return b
	case "boolean":
		off := len(b)
		b = append(b, byte(d.I))
		e.ann(off, 1, "payload", d.I)
		return b
	case "int", "long":
		return e.long(b, d.I, "payload")
	case "enum":
		return e.long(b, d.I, "sel")
	case "float":
		off := len(b)
		b = binary.LittleEndian.AppendUint32(b, uint32(d.F))
		e.ann(off, 4, "payload", 0)
		return b
	case "double":
		off := len(b)
		b = binary.LittleEndian.AppendUint64(b, d.F)
		e.ann(off, 8, "payload", 0)
		return b
	case "bytes", "string":
		b = e.long(b, int64(len(d.S)), "len")
		off := len(b)
		b = append(b, d.S...)
		if len(d.S) > 0 {
			e.ann(off, len(d.S), "payload", 0)
		}
		return b
	case "fixed":
		off := len(b)
		b = append(b, d.S...)
		if len(d.S) > 0 {
			e.ann(off, len(d.S), "payload", 0)
		}
		return b
	case "record":
		for i, f := range s.Fields {
			b = e.Encode(b, f.Type, d.L[i])
		}
		return b
	case "union":
		b = e.long(b, d.I, "sel")
		return e.Encode(b, s.Branches[d.I], d.L[0])
	case "array", "map":
		n := len(d.L)
		pos := 0
		blocks := 0
		for pos < n {
			rem := n - pos
			// choice: size of this block (default: all the rest)
			var sz int
			if e != nil && e.MaxBlocks > 0 && blocks+1 >= e.MaxBlocks {
				sz = rem
			} else {
				sz = rem - e.choose("blocksize", rem)
			}
			withSize := e.choose("sizeprefix", 2) == 1
			var body []byte
			// encode items into a scratch buffer so the byte size is known;
			// annotations are offset afterwards.
			var sub *Enc
			var subAnn []Annot
			if e != nil {
				sub = &Enc{Ch: e.Ch, MaxBlocks: e.MaxBlocks, Policy: e.Policy}
				if e.Ann != nil {
					sub.Ann = &subAnn
				}
			}
			for i := pos; i < pos+sz; i++ {
				if s.Type == "map" {
					body = sub.Encode(body, Prim("string"), DString(d.Keys[i]))
					body = sub.Encode(body, s.Values, d.L[i])
				} else {
					body = sub.Encode(body, s.Items, d.L[i])
				}
			}
			if withSize {
				b = e.long(b, -int64(sz), "count")
				b = e.long(b, int64(len(body)), "bsize")
			} else {
				b = e.long(b, int64(sz), "count")
			}
			base := len(b)
			b = append(b, body...)
			for _, a := range subAnn {
				e.ann(a.Off+base, a.Len, a.Role, a.Val)
			}
			pos += sz
			blocks++
		}
		return e.long(b, 0, "count")
	}
	panic("ref.Encode: unsupported schema type " + s.Type)
}

// Encode is the default (canonical) encoding.
func Encode(s *Schema, d Datum) []byte { return (*Enc)(nil).Encode(nil, s, d) }

// AllEncodings enumerates every legal serialisation of d under s (subject to maxBlocks).
func AllEncodings(s *Schema, d Datum, maxBlocks int, f func(enc []byte, vec []int)) int {
	st := explore.All(func(c *explore.Chooser) {
		e := &Enc{Ch: c, MaxBlocks: maxBlocks}
		out := e.Encode(nil, s, d)
		f(out, c.Taken)
	})
	return int(st.Executions)
}

// ---------------------------------------------------------------- decoding

type DecodeError struct{ Msg string }

func (e *DecodeError) Error() string { return e.Msg }

func derr(f string, a ...interface{}) error { return &DecodeError{fmt.Sprintf(f, a...)} }

// Decode strictly decodes one datum of schema s from b and returns the
// number of bytes consumed.
func Decode(s *Schema, b []byte) (Datum, int, error) {
	d := decoder{b: b}
	out, err := d.decode(s, 0)
	return out, d.i, err
}

type decoder struct {
	b []byte
	i int
}

func (d *decoder) long() (int64, error) {
	v, n, c := ReadLong(d.b[d.i:])
	if c != VOK {
		return 0, derr("bad varint at %d (class %d)", d.i, c)
	}
	d.i += n
	return v, nil
}

func (d *decoder) next(n int64) ([]byte, error) {
	if n < 0 || n > int64(len(d.b)-d.i) {
		return nil, derr("length %d out of range at %d (have %d)", n, d.i, len(d.b)-d.i)
	}
	out := d.b[d.i : d.i+int(n)]
	d.i += int(n)
	return out, nil
}

func (d *decoder) decode(s *Schema, depth int) (Datum, error) {
	if depth > 64 {
		return Datum{}, derr("too deep")
	}
	switch s.Type {
	case "null":
		return DNull(), nil
	case "boolean":
		x, err := d.next(1)
		if err != nil {
			return Datum{}, err
		}
		if x[0] > 1 {
			return Datum{}, derr("boolean byte %d", x[0])
		}
		return Datum{K: KBool, I: int64(x[0])}, nil
	case "int":
		v, err := d.long()
		if err != nil {
			return Datum{}, err
		}
		if v < math.MinInt32 || v > math.MaxInt32 {
			return Datum{}, derr("int out of range %d", v)
		}
		return Datum{K: KInt, I: v}, nil
	case "long":
		v, err := d.long()
		return Datum{K: KLong, I: v}, err
	case "enum":
		v, err := d.long()
		if err == nil && (v < 0 || v >= int64(len(s.Symbols))) {
			err = derr("enum index %d", v)
		}
		return Datum{K: KEnum, I: v}, err
	case "float":
		x, err := d.next(4)
		if err != nil {
			return Datum{}, err
		}
		return Datum{K: KFloat, F: uint64(binary.LittleEndian.Uint32(x))}, nil
	case "double":
		x, err := d.next(8)
		if err != nil {
			return Datum{}, err
		}
		return Datum{K: KDouble, F: binary.LittleEndian.Uint64(x)}, nil
	case "bytes", "string":
		l, err := d.long()
		if err != nil {
			return Datum{}, err
		}
		x, err := d.next(l)
		if err != nil {
			return Datum{}, err
		}
		k := KBytes
		if s.Type == "string" {
			k = KString
		}
		return Datum{K: k, S: string(x)}, nil
	case "fixed":
		x, err := d.next(int64(s.Size))
		if err != nil {
			return Datum{}, err
		}
		return Datum{K: KFixed, S: string(x)}, nil
	case "record":
		out := Datum{K: KRecord}
		for _, f := range s.Fields {
			v, err := d.decode(f.Type, depth+1)
			if err != nil {
				return Datum{}, fmt.Errorf("field %s: %w", f.Name, err)
			}
			out.L = append(out.L, v)
		}
		return out, nil
	case "union":
		sel, err := d.long()
		if err != nil {
			return Datum{}, err
		}
		if sel < 0 || sel >= int64(len(s.Branches)) {
			return Datum{}, derr("union selector %d out of range (%d branches)", sel, len(s.Branches))
		}
		v, err := d.decode(s.Branches[sel], depth+1)
		if err != nil {
			return Datum{}, err
		}
		return DUnion(int(sel), v), nil
	case "array", "map":
		out := Datum{K: KArray}
		if s.Type == "map" {
			out.K = KMap
		}
		for {
			cnt, err := d.long()
			if err != nil {
				return Datum{}, err
			}
			if cnt == 0 {
				break
			}
			var bs int64 = -1
			var start int
			if cnt < 0 {
				if cnt == math.MinInt64 {
					return Datum{}, derr("block count overflow")
				}
				cnt = -cnt
				bs, err = d.long()
				if err != nil {
					return Datum{}, err
				}
				if bs < 0 || bs > int64(len(d.b)-d.i) {
					return Datum{}, derr("block byte size %d out of range", bs)
				}
				start = d.i
			}
			if cnt > int64(len(d.b)-d.i)+1 && !zeroSized(s) {
				return Datum{}, derr("block count %d exceeds remaining input", cnt)
			}
			if cnt > 1<<20 {
				return Datum{}, derr("block count %d too large for the reference decoder", cnt)
			}
			for ; cnt > 0; cnt-- {
				if s.Type == "map" {
					k, err := d.decode(Prim("string"), depth+1)
					if err != nil {
						return Datum{}, err
					}
					out.Keys = append(out.Keys, k.S)
					v, err := d.decode(s.Values, depth+1)
					if err != nil {
						return Datum{}, err
					}
					out.L = append(out.L, v)
				} else {
					v, err := d.decode(s.Items, depth+1)
					if err != nil {
						return Datum{}, err
					}
					out.L = append(out.L, v)
				}
			}
			if bs >= 0 && int64(d.i-start) != bs {
				return Datum{}, derr("block byte size %d does not match the %d bytes of its items", bs, d.i-start)
			}
		}
		return out, nil
	}
	return Datum{}, derr("unsupported schema type %q", s.Type)
}

func zeroSized(s *Schema) bool {
	if s.Type == "map" {
		return false
	}
	return minSize(s.Items) == 0
}

func minSize(s *Schema) int {
	switch s.Type {
	case "null":
		return 0
	case "record":
		n := 0
		for _, f := range s.Fields {
			n += minSize(f.Type)
		}
		return n
	case "fixed":
		return s.Size
	case "float":
		return 4
	case "double":
		return 8
	}
	return 1
}

// DecodeAll decodes exactly count datums and requires that no byte is left.
func DecodeAll(s *Schema, b []byte, count int64) ([]Datum, error) {
	var out []Datum
	pos := 0
	for i := int64(0); i < count; i++ {
		d, n, err := Decode(s, b[pos:])
		if err != nil {
			return out, fmt.Errorf("record %d at offset %d: %w", i, pos, err)
		}
		pos += n
		out = append(out, d)
	}
	if pos != len(b) {
		return out, derr("%d leftover bytes after %d records", len(b)-pos, count)
	}
	return out, nil
}

// DatumDiff returns the path of the first difference between two datums of
// schema s and the (at most two) innermost schema constructors leading to it.
func DatumDiff(s *Schema, a, b Datum) (path, locus string) {
	a, b = a.Canon(), b.Canon()
	var chain []string
	var walk func(s *Schema, a, b Datum, p string) string
	walk = func(s *Schema, a, b Datum, p string) string {
		chain = append(chain, s.Type)
		if a.K != b.K {
			return fmt.Sprintf("%s: kind %d vs %d", p, a.K, b.K)
		}
		switch s.Type {
		case "record":
			for i, f := range s.Fields {
				if i >= len(a.L) || i >= len(b.L) {
					return p + ": field count"
				}
				if !a.L[i].eq(b.L[i]) {
					return walk(f.Type, a.L[i], b.L[i], p+"."+f.Name)
				}
			}
		case "array":
			if len(a.L) != len(b.L) {
				return fmt.Sprintf("%s: array length %d vs %d", p, len(a.L), len(b.L))
			}
			for i := range a.L {
				if !a.L[i].eq(b.L[i]) {
					return walk(s.Items, a.L[i], b.L[i], fmt.Sprintf("%s[%d]", p, i))
				}
			}
		case "map":
			if len(a.L) != len(b.L) {
				return fmt.Sprintf("%s: map length %d vs %d", p, len(a.L), len(b.L))
			}
			for i := range a.L {
				if a.Keys[i] != b.Keys[i] {
					return fmt.Sprintf("%s: key %q vs %q", p, a.Keys[i], b.Keys[i])
				}
				if !a.L[i].eq(b.L[i]) {
					return walk(s.Values, a.L[i], b.L[i], fmt.Sprintf("%s[%q]", p, a.Keys[i]))
				}
			}
		case "union":
			if a.I != b.I {
				return fmt.Sprintf("%s: union branch %d vs %d", p, a.I, b.I)
			}
			return walk(s.Branches[a.I], a.L[0], b.L[0], p)
		}
		return fmt.Sprintf("%s: %s vs %s", p, a.String(), b.String())
	}
	if a.eq(b) {
		return "", ""
	}
	path = walk(s, a, b, "$")
	if len(chain) > 0 && chain[0] == "record" {
		chain = chain[1:]
	}
	if len(chain) > 2 {
		chain = chain[len(chain)-2:]
	}
	return path, strings.Join(chain, ">")
}

// ZeroSizeFlood reports whether decoding b under s reaches an array whose items can encode to zero bytes with a
// declared block count above limit (in absolute value): a few input bytes then legitimately stand for that many
// items. The walk follows the reference decoder and stops (false) at the first thing it would reject.
func ZeroSizeFlood(s *Schema, b []byte, limit int64) bool {
	w := floodWalker{decoder: decoder{b: b}, limit: limit}
	w.walk(s, 0)
	return w.flood
}

// HasZeroSizeArray: the schema contains an array whose items can encode to zero bytes.
func HasZeroSizeArray(s *Schema) bool {
	switch s.Type {
	case "array":
		return minSize(s.Items) == 0 || HasZeroSizeArray(s.Items)
	case "map":
		return HasZeroSizeArray(s.Values)
	case "record":
		for _, f := range s.Fields {
			if HasZeroSizeArray(f.Type) {
				return true
			}
		}
	case "union":
		for _, br := range s.Branches {
			if HasZeroSizeArray(br) {
				return true
			}
		}
	}
	return false
}

type floodWalker struct {
	decoder
	limit int64
	flood bool
	steps int
}

// walk returns false when the walk must stop (flood found, input rejected or work bound reached).
func (w *floodWalker) walk(s *Schema, depth int) bool {
	w.steps++
	if depth > 64 || w.steps > 1<<20 {
		return false
	}
	switch s.Type {
	case "record":
		for _, f := range s.Fields {
			if !w.walk(f.Type, depth+1) {
				return false
			}
		}
		return true
	case "union":
		sel, err := w.long()
		if err != nil || sel < 0 || sel >= int64(len(s.Branches)) {
			return false
		}
		return w.walk(s.Branches[sel], depth+1)
	case "array", "map":
		for {
			cnt, err := w.long()
			if err != nil {
				return false
			}
			if cnt == 0 {
				return true
			}
			if cnt < 0 {
				if cnt == math.MinInt64 {
					return false
				}
				cnt = -cnt
				if _, err := w.long(); err != nil {
					return false
				}
			}
			if s.Type == "array" && minSize(s.Items) == 0 && cnt > w.limit {
				w.flood = true
				return false
			}
			if cnt > int64(len(w.b)-w.i)+1 && !(s.Type == "array" && minSize(s.Items) == 0) {
				return false
			}
			for ; cnt > 0; cnt-- {
				if s.Type == "map" {
					if !w.walk(Prim("string"), depth+1) || !w.walk(s.Values, depth+1) {
						return false
					}
				} else if !w.walk(s.Items, depth+1) {
					return false
				}
			}
		}
	case "boolean":
		_, err := w.next(1) // any byte: the walk is more lenient than the reference decoder wherever a reader might be
		return err == nil
	case "int", "long", "enum":
		_, err := w.long()
		return err == nil
	default:
		_, err := w.decode(s, depth)
		return err == nil
	}
}

// HasLargeVarint reports whether some offset of b starts a well-formed varint whose absolute value exceeds limit.
func HasLargeVarint(b []byte, limit int64) bool {
	for i := range b {
		v, _, cl := ReadLong(b[i:])
		if cl == VOK && (v > limit || v < -limit) {
			return true
		}
	}
	return false
}

// Package statics is the static (source-level) realisation of the probe
// universe: named struct types through which the real generic
// avro.NewEncoderFor[T] is instantiated.
package statics

import (
	"io"
	"reflect"
	"strings"
	"unsafe"

	"github.com/philpearl/avro"

	"verifharness/univ"
)

// Enc is the type-erased view of an avro.Encoder[T].
type Enc interface {
	Encode(p unsafe.Pointer) error
	Flush() error
}

type encW[T any] struct{ e *avro.Encoder[T] }

func (w encW[T]) Encode(p unsafe.Pointer) error { return w.e.Encode((*T)(p)) }
func (w encW[T]) Flush() error                  { return w.e.Flush() }

// NewFor returns the constructor of a real generic Encoder[T] for any static type T.
func NewFor[T any]() func(w io.Writer, comp string, blockSize int) (Enc, error) {
	return func(w io.Writer, comp string, blockSize int) (Enc, error) {
		e, err := avro.NewEncoderFor[T](w, avro.Compression(comp), blockSize)
		if err != nil {
			return nil, err
		}
		return encW[T]{e}, nil
	}
}

type Static struct {
	Probe univ.Probe
	New   func(w io.Writer, comp string, blockSize int) (Enc, error)
}

func parseChain(chain string) *univ.Expr {
	parts := strings.Split(chain, ">")
	var e *univ.Expr
	for i := len(parts) - 1; i >= 0; i-- {
		e = &univ.Expr{Op: parts[i], Elem: e}
	}
	return e
}

func entry[T any](chain, tag string) Static {
	e := parseChain(chain)
	t := reflect.TypeFor[T]()
	return Static{
		Probe: univ.Probe{Name: "static struct{F " + e.String() + " `" + tag + "`}", Expr: e, Tag: tag, Type: t},
		New: func(w io.Writer, comp string, bs int) (Enc, error) {
			enc, err := avro.NewEncoderFor[T](w, avro.Compression(comp), bs)
			if err != nil {
				return nil, err
			}
			return encW[T]{enc}, nil
		},
	}
}

package univ

import (
	"fmt"
	"math"
	"reflect"
	"strings"
	"time"

	"verifharness/gv"
	"verifharness/ref"
)

// SNode is a data-schema expression together with the machinery to
// enumerate its datums and the Go target types compatible with it.
type SNode struct {
	Schema *ref.Schema
	Chain  string // constructor chain, e.g. "array>union01>long"
	Depth  int
}

func leafSchemas() []SNode {
	mk := func(s *ref.Schema, name string) SNode { return SNode{Schema: s, Chain: name} }
	return []SNode{
		mk(ref.Prim("boolean"), "boolean"), mk(ref.Prim("int"), "int"), mk(ref.Prim("long"), "long"), mk(ref.Prim("float"), "float"), mk(ref.Prim("double"), "double"),
		mk(ref.Prim("bytes"), "bytes"), mk(ref.Prim("string"), "string"), mk(&ref.Schema{Type: "fixed", Name: "F4", Size: 4}, "fixed4"),
		mk(ref.Record("Leaf", ref.F("a", ref.Prim("long")), ref.F("b", ref.Prim("string"))), "record"),
		// values that encode to zero bytes
		mk(ref.Prim("null"), "null"), mk(ref.Record("Empty"), "emptyrec"),
	}
}

// LogicalLeaves are the logical time types (targets: time.Time).
func LogicalLeaves() []SNode {
	return []SNode{
		{Schema: ref.Logical("int", "date"), Chain: "date"},
		{Schema: ref.Logical("long", "timestamp-millis"), Chain: "timestamp-millis"},
		{Schema: ref.Logical("long", "timestamp-micros"), Chain: "timestamp-micros"},
		// a string carrying RFC 3339 text (the marker is an unknown logicalType, which readers ignore)
		{Schema: ref.Logical("string", "x-rfc3339"), Chain: "timestring"},
	}
}

var recCtr int

// wrapSchemas applies every constructor once.
func wrapSchemas(in []SNode, unions bool) []SNode {
	var out []SNode
	for _, n := range in {
		out = append(out, SNode{ref.Array(n.Schema), "array>" + n.Chain, n.Depth + 1})
		out = append(out, SNode{ref.Map(n.Schema), "map>" + n.Chain, n.Depth + 1})
		recCtr++
		out = append(out, SNode{ref.Record(fmt.Sprintf("W%d", recCtr), ref.F("x", n.Schema)), "rec>" + n.Chain, n.Depth + 1})
		if unions && n.Schema.Type != "union" && n.Schema.Type != "null" {
			out = append(out, SNode{ref.Union(ref.Prim("null"), n.Schema), "union01>" + n.Chain, n.Depth + 1})
			out = append(out, SNode{ref.Union(n.Schema, ref.Prim("null")), "union10>" + n.Chain, n.Depth + 1})
		}
	}
	return out
}

// DataSchemas returns the schema universe up to the given depth (leaves are depth 0).
func DataSchemas(depth int, logical bool) []SNode {
	recCtr = 0
	l := leafSchemas()
	if logical {
		l = append(l, LogicalLeaves()...)
	}
	all := append([]SNode(nil), l...)
	cur := l
	for d := 1; d <= depth; d++ {
		cur = wrapSchemas(cur, true)
		all = append(all, cur...)
	}
	return all
}

// Datums enumerates a small alphabet of datums for a schema (at most max).
func Datums(s *ref.Schema, full bool) []ref.Datum {
	pick := func(all []ref.Datum, idx ...int) []ref.Datum {
		if full {
			return all
		}
		var out []ref.Datum
		for _, i := range idx {
			if i < 0 {
				i += len(all)
			}
			out = append(out, all[i])
		}
		return out
	}
	switch s.Type {
	case "null":
		return []ref.Datum{ref.DNull()}
	case "boolean":
		return []ref.Datum{ref.DBool(false), ref.DBool(true)}
	case "int":
		if s.Logical == "date" {
			return pick([]ref.Datum{ref.DInt(0), ref.DInt(1), ref.DInt(-1), ref.DInt(18690), ref.DInt(-25567), ref.DInt(2932896), ref.DInt(-719162)}, 0, 2, 3)
		}
		return pick([]ref.Datum{ref.DInt(0), ref.DInt(1), ref.DInt(-1), ref.DInt(63), ref.DInt(64), ref.DInt(-64), ref.DInt(-65), ref.DInt(8192), ref.DInt(32767), ref.DInt(-32768), ref.DInt(32768), ref.DInt(math.MaxInt32), ref.DInt(math.MinInt32)}, 0, 2, -1)
	case "long":
		switch s.Logical {
		case "timestamp-millis":
			return pick([]ref.Datum{ref.DLong(0), ref.DLong(1), ref.DLong(-1), ref.DLong(1614834367123), ref.DLong(-86400001)}, 0, 2, 3)
		case "timestamp-micros":
			return pick([]ref.Datum{ref.DLong(0), ref.DLong(1), ref.DLong(-1), ref.DLong(1614834367123456), ref.DLong(-86400000001)}, 0, 2, 3)
		}
		return pick([]ref.Datum{ref.DLong(0), ref.DLong(1), ref.DLong(-1), ref.DLong(64), ref.DLong(-65), ref.DLong(32767), ref.DLong(-32769), ref.DLong(math.MaxInt32), ref.DLong(math.MaxInt32 + 1), ref.DLong(math.MinInt32 - 1), ref.DLong(1 << 40), ref.DLong(math.MaxInt64), ref.DLong(math.MinInt64)}, 0, 2, -2)
	case "float":
		return pick([]ref.Datum{ref.DFloat(0), ref.DFloat(float32(math.Copysign(0, -1))), ref.DFloat(1.5), ref.DFloat(-2.25), ref.DFloat(math.MaxFloat32), ref.DFloat(math.SmallestNonzeroFloat32), ref.DFloat(float32(math.Inf(1))), ref.DFloat(float32(math.NaN()))}, 0, 3, 4)
	case "double":
		return pick([]ref.Datum{ref.DDouble(0), ref.DDouble(math.Copysign(0, -1)), ref.DDouble(1.5), ref.DDouble(-2.25), ref.DDouble(math.MaxFloat64), ref.DDouble(math.SmallestNonzeroFloat64), ref.DDouble(math.Inf(-1)), ref.DDouble(math.NaN()), ref.DDouble(float64(float32(0.1)))}, 0, 3, 4)
	case "bytes":
		return pick([]ref.Datum{ref.DBytes(""), ref.DBytes("\x00"), ref.DBytes("\x01\x02\x03"), ref.DBytes(strings.Repeat("\x07\xf0", 100))}, 0, 2, 3)
	case "string":
		if s.Logical == "x-rfc3339" {
			return pick([]ref.Datum{ref.DString("2021-03-04T05:06:07.123456789Z"), ref.DString("1969-12-31T23:59:59.5-08:00"), ref.DString("2021-03-04T05:06:07+05:30"), ref.DString("9999-12-31T23:59:59Z"), ref.DString("0001-01-01T00:00:00.000000001Z")}, 0, 1, 3)
		}
		return pick([]ref.Datum{ref.DString(""), ref.DString("a"), ref.DString("héllo"), ref.DString("\xff\xfe"), ref.DString(strings.Repeat("x", 200))}, 0, 2, 4)
	case "fixed":
		return []ref.Datum{ref.DFixed(strings.Repeat("\x00", s.Size)), ref.DFixed(strings.Repeat("\xa5", s.Size))}
	case "record":
		if len(s.Fields) == 0 {
			return []ref.Datum{ref.DRecord()}
		}
		// product capped: zero-ish, typical, boundary per field position
		var out []ref.Datum
		n := 3
		if full && len(s.Fields) == 1 {
			for _, d := range Datums(s.Fields[0].Type, true) {
				out = append(out, ref.DRecord(d))
			}
			return out
		}
		for k := 0; k < n; k++ {
			var fs []ref.Datum
			for _, f := range s.Fields {
				ds := Datums(f.Type, false)
				fs = append(fs, ds[k%len(ds)])
			}
			out = append(out, ref.DRecord(fs...))
		}
		return out
	case "array":
		ds := Datums(s.Items, false)
		if s.Items.Type == "null" || (s.Items.Type == "record" && len(s.Items.Fields) == 0) {
			// items that encode to zero bytes: also an array with more items than bytes follow it
			many := make([]ref.Datum, 12)
			for i := range many {
				many[i] = ds[0]
			}
			return []ref.Datum{ref.DArray(), ref.DArray(ds[0], ds[0]), ref.DArray(many...)}
		}
		out := []ref.Datum{ref.DArray(), ref.DArray(ds[1%len(ds)]), ref.DArray(ds[0], ds[len(ds)-1]), ref.DArray(ds[len(ds)-1], ds[0], ds[1%len(ds)])}
		if full {
			for _, d := range Datums(s.Items, true) {
				out = append(out, ref.DArray(d))
			}
			return out
		}
		return []ref.Datum{out[0], out[2], out[3]}
	case "map":
		ds := Datums(s.Values, false)
		out := []ref.Datum{ref.DMap(nil, nil), ref.DMap([]string{"k"}, []ref.Datum{ds[1%len(ds)]}), ref.DMap([]string{"a", "héllo"}, []ref.Datum{ds[0], ds[len(ds)-1]}),
			ref.DMap([]string{"", "k1", "k2"}, []ref.Datum{ds[len(ds)-1], ds[0], ds[1%len(ds)]})}
		if full {
			for i, d := range Datums(s.Values, true) {
				out = append(out, ref.DMap([]string{fmt.Sprintf("key%d", i)}, []ref.Datum{d}))
			}
			return out
		}
		return []ref.Datum{out[0], out[2], out[3]}
	case "union":
		var out []ref.Datum
		for i, b := range s.Branches {
			for _, d := range Datums(b, full) {
				out = append(out, ref.DUnion(i, d))
			}
		}
		if !full && len(out) > 3 {
			// null, first and last non-null
			var nulls, non []ref.Datum
			for _, d := range out {
				if d.L[0].K == ref.KNull {
					nulls = append(nulls, d)
				} else {
					non = append(non, d)
				}
			}
			out = append(nulls, non[0], non[len(non)-1])
		}
		return out
	}
	panic("Datums: " + s.Type)
}

// LeafRec is the Go type for the universe's leaf record.
type LeafRec struct {
	A int64  `json:"a"`
	B string `json:"b"`
}

// Targets returns the Go types compatible with schema s (the variations the
// property names: pointer indirection, integer width, float width, wrapper
// types). all=false returns only the canonical target.
func Targets(s *ref.Schema, all bool) []reflect.Type {
	one := func(ts ...reflect.Type) []reflect.Type {
		if all {
			return ts
		}
		return ts[:1]
	}
	ptr := reflect.PointerTo
	switch s.Type {
	case "null":
		// nothing is stored: any destination will do; a pointer shows most (it must stay nil)
		return one(ptr(reflect.TypeOf(int64(0))), reflect.TypeOf(""))
	case "boolean":
		return one(reflect.TypeOf(false), gv.NullBoolT, ptr(reflect.TypeOf(false)), ptr(gv.NullBoolT))
	case "int", "long":
		if s.Logical != "" {
			return one(gv.TimeT, reflect.TypeOf(int64(0)), ptr(gv.TimeT))
		}
		i64 := reflect.TypeOf(int64(0))
		return one(i64, reflect.TypeOf(int(0)), reflect.TypeOf(int32(0)), reflect.TypeOf(int16(0)), ptr(i64), ptr(ptr(i64)), gv.NullIntT, ptr(gv.NullIntT))
	case "float":
		return one(reflect.TypeOf(float32(0)), gv.NullFloatT, ptr(reflect.TypeOf(float32(0))), ptr(gv.NullFloatT))
	case "double":
		return one(reflect.TypeOf(float64(0)), reflect.TypeOf(float32(0)), ptr(reflect.TypeOf(float64(0))), gv.NullFloatT, ptr(gv.NullFloatT))
	case "string":
		if s.Logical == "x-rfc3339" {
			return one(gv.TimeT, gv.NullTimeT, ptr(gv.TimeT), reflect.TypeOf(""))
		}
		return one(reflect.TypeOf(""), ptr(reflect.TypeOf("")), gv.NullStringT, ptr(gv.NullStringT))
	case "bytes":
		return one(reflect.TypeOf([]byte(nil)), ptr(reflect.TypeOf([]byte(nil))))
	case "fixed":
		a := reflect.ArrayOf(s.Size, reflect.TypeOf(byte(0)))
		return one(a, ptr(a))
	case "record":
		if s.Name == "Leaf" {
			t := reflect.TypeOf(LeafRec{})
			return one(t, ptr(t))
		}
		if len(s.Fields) == 0 {
			t := reflect.TypeOf(struct{}{})
			return one(t, ptr(t))
		}
		var out []reflect.Type
		// one-field wrapper record: struct{X T} for each target of the field
		for _, ft := range Targets(s.Fields[0].Type, all) {
			st := reflect.StructOf([]reflect.StructField{{Name: "X", Type: ft, Tag: `json:"x"`}})
			out = append(out, st)
			if all {
				out = append(out, ptr(st))
			}
		}
		return out
	case "array":
		var out []reflect.Type
		for _, it := range Targets(s.Items, all) {
			out = append(out, reflect.SliceOf(it))
			if all && it == Targets(s.Items, false)[0] {
				out = append(out, ptr(reflect.SliceOf(it)))
			}
		}
		return out
	case "map":
		var out []reflect.Type
		for _, it := range Targets(s.Values, all) {
			mt := reflect.MapOf(reflect.TypeOf(""), it)
			out = append(out, mt)
			if all && it == Targets(s.Values, false)[0] {
				out = append(out, ptr(mt))
			}
		}
		return out
	case "union":
		// [null,X] / [X,null]: T and *T for every target T of X (pointer types keep their own indirection)
		var x *ref.Schema
		for _, b := range s.Branches {
			if b.Type != "null" {
				x = b
			}
		}
		var out []reflect.Type
		for _, t := range Targets(x, all) {
			if t.Kind() == reflect.Ptr || gv.IsNullWrapper(t) || t.Kind() == reflect.Slice || t.Kind() == reflect.Map {
				out = append(out, t)
				continue
			}
			// canonical nullable target is the pointer
			out = append(out, ptr(t))
			if all {
				out = append(out, t)
			}
		}
		return out
	}
	panic("Targets: " + s.Type)
}

// TimeAtResolution truncates (floors) t to the resolution of the logical type.
func TimeAtResolution(t time.Time, logical string) time.Time {
	switch logical {
	case "date":
		d := t.Unix() / 86400
		if t.Unix()%86400 < 0 {
			d--
		}
		return time.Unix(d*86400, 0).UTC()
	case "timestamp-millis":
		return time.UnixMilli(t.UnixMilli()).UTC()
	case "timestamp-micros":
		return time.UnixMicro(t.UnixMicro()).UTC()
	}
	return t
}

// Package univ holds the bounded universes (alphabets): Go type expressions,
// probe structs with canary fields, and value alphabets.
package univ

import (
	"fmt"
	"math"
	"reflect"
	"strings"
	"time"
	"unsafe"

	"github.com/unravelin/null/v5"

	"verifharness/gv"
)

// Rec is the named leaf struct of the type universe.
type Rec struct {
	A int64
	B string
}

// Expr is a Go type expression.
type Expr struct {
	Op   string // leaf name, or ptr slice map struct
	Elem *Expr
}

var LeafNames = []string{"bool", "int", "int16", "int32", "int64", "float32", "float64", "string", "[]byte", "time.Time",
	"null.Int", "null.Bool", "null.Float", "null.String", "null.Time", "univ.Rec"}

var leafTypes = map[string]reflect.Type{
	"bool": reflect.TypeOf(false), "int": reflect.TypeOf(int(0)), "int16": reflect.TypeOf(int16(0)), "int32": reflect.TypeOf(int32(0)), "int64": reflect.TypeOf(int64(0)),
	"float32": reflect.TypeOf(float32(0)), "float64": reflect.TypeOf(float64(0)), "string": reflect.TypeOf(""), "[]byte": reflect.TypeOf([]byte(nil)),
	"time.Time": gv.TimeT, "null.Int": gv.NullIntT, "null.Bool": gv.NullBoolT, "null.Float": gv.NullFloatT, "null.String": gv.NullStringT, "null.Time": gv.NullTimeT,
	"univ.Rec": reflect.TypeOf(Rec{}),
}

var Wrappers = []string{"ptr", "slice", "map", "struct"}

// Exprs returns every type expression of exactly the given wrapper depth.
func Exprs(depth int) []*Expr {
	if depth == 0 {
		var out []*Expr
		for _, l := range LeafNames {
			out = append(out, &Expr{Op: l})
		}
		return out
	}
	var out []*Expr
	for _, w := range Wrappers {
		for _, e := range Exprs(depth - 1) {
			out = append(out, &Expr{Op: w, Elem: e})
		}
	}
	return out
}

// Source renders the expression as Go source (pkg is the qualifier for Rec: "univ." or "").
func (e *Expr) Source(recQual string) string {
	switch e.Op {
	case "ptr":
		return "*" + e.Elem.Source(recQual)
	case "slice":
		return "[]" + e.Elem.Source(recQual)
	case "map":
		return "map[string]" + e.Elem.Source(recQual)
	case "struct":
		return "struct{ X " + e.Elem.Source(recQual) + " }"
	case "univ.Rec":
		return recQual + "Rec"
	}
	return e.Op
}

func (e *Expr) String() string { return e.Source("univ.") }

// Chain is the constructor chain used as violation locus, e.g. "ptr>slice>int16".
func (e *Expr) Chain() string {
	if e.Elem == nil {
		return e.Op
	}
	return e.Op + ">" + e.Elem.Chain()
}

// Type builds the reflect.Type of the expression.
func (e *Expr) Type() reflect.Type {
	switch e.Op {
	case "ptr":
		return reflect.PointerTo(e.Elem.Type())
	case "slice":
		return reflect.SliceOf(e.Elem.Type())
	case "map":
		return reflect.MapOf(reflect.TypeOf(""), e.Elem.Type())
	case "struct":
		return reflect.StructOf([]reflect.StructField{{Name: "X", Type: e.Elem.Type()}})
	}
	t, ok := leafTypes[e.Op]
	if !ok {
		panic("unknown leaf " + e.Op)
	}
	return t
}

// TagVariants of the probe field.
var TagVariants = []string{``, `json:"f"`, `json:"f,omitempty"`, `json:",omitempty"`}

func TagClass(tag string) string {
	if strings.Contains(tag, "omitempty") {
		return "omitempty"
	}
	return "plain"
}

const (
	Canary0 uint16 = 0xA5C3
	Canary1 uint16 = 0xBBBB
	Canary2 uint64 = 0x1122334455667788
)

// Probe describes a probe struct: excluded canary fields around one probe field F.
//
//	struct { c0 uint16; F τ `tag`; c1 uint16; c2 uint64 }
type Probe struct {
	Name string
	Expr *Expr
	Tag  string
	Type reflect.Type
}

const canaryPkg = "verifharness/univ"

// DynProbe builds the probe struct type dynamically.
func DynProbe(e *Expr, tag string) Probe {
	t := reflect.StructOf([]reflect.StructField{
		{Name: "c0", PkgPath: canaryPkg, Type: reflect.TypeOf(uint16(0))},
		{Name: "F", Type: e.Type(), Tag: reflect.StructTag(tag)},
		{Name: "c1", PkgPath: canaryPkg, Type: reflect.TypeOf(uint16(0))},
		{Name: "c2", PkgPath: canaryPkg, Type: reflect.TypeOf(uint64(0))},
	})
	return Probe{Name: fmt.Sprintf("struct{F %s `%s`}", e, tag), Expr: e, Tag: tag, Type: t}
}

// SetCanaries writes the canary patterns into a probe struct value (addressable).
func SetCanaries(v reflect.Value) {
	base := unsafe.Pointer(v.UnsafeAddr())
	t := v.Type()
	for i := 0; i < t.NumField(); i++ {
		f := t.Field(i)
		p := unsafe.Add(base, f.Offset)
		switch f.Name {
		case "c0":
			*(*uint16)(p) = Canary0
		case "c1":
			*(*uint16)(p) = Canary1
		case "c2":
			*(*uint64)(p) = Canary2
		}
	}
}

// CanariesIntact checks the canary fields; returns "" or which one was damaged.
func CanariesIntact(v reflect.Value, want0, want1 uint16, want2 uint64) string {
	base := unsafe.Pointer(v.UnsafeAddr())
	t := v.Type()
	for i := 0; i < t.NumField(); i++ {
		f := t.Field(i)
		p := unsafe.Add(base, f.Offset)
		switch f.Name {
		case "c0":
			if *(*uint16)(p) != want0 {
				return fmt.Sprintf("c0=%#x", *(*uint16)(p))
			}
		case "c1":
			if *(*uint16)(p) != want1 {
				return fmt.Sprintf("c1=%#x", *(*uint16)(p))
			}
		case "c2":
			if *(*uint64)(p) != want2 {
				return fmt.Sprintf("c2=%#x", *(*uint64)(p))
			}
		}
	}
	return ""
}

// ProbeField returns the probe field F of a probe struct value.
func ProbeField(v reflect.Value) reflect.Value { return v.FieldByName("F") }

// ---------------------------------------------------------------- values

var (
	tTyp     = time.Date(2021, 3, 4, 5, 6, 7, 123456789, time.UTC)
	tOff     = time.Date(2021, 3, 4, 5, 6, 7, 123456789, time.FixedZone("", 5*3600+1800))
	tNeg     = time.Date(1969, 12, 31, 23, 59, 59, 500000000, time.FixedZone("", -8*3600))
	tMax     = time.Date(9999, 12, 31, 23, 59, 59, 0, time.UTC)
	tYear0   = time.Date(0, 1, 1, 0, 0, 0, 0, time.UTC)
	tEpoch   = time.Unix(0, 0).UTC()
	long200  = strings.Repeat("x", 200)
	bytes200 = []byte(strings.Repeat("\x07\xf0", 100))
)

func intVals(bits int) []int64 {
	lo, hi := -(int64(1) << (bits - 1)), int64(1)<<(bits-1)-1
	if bits == 64 {
		lo, hi = math.MinInt64, math.MaxInt64
	}
	cand := []int64{0, 1, -1, 63, 64, -64, -65, 8191, 8192, lo, hi}
	var out []int64
	for _, c := range cand {
		if c >= lo && c <= hi {
			out = append(out, c)
		}
	}
	return out
}

// Values returns the value alphabet of type t. full selects the complete leaf
// alphabets; otherwise three representatives {zero/null-ish, typical, boundary}.
func Values(t reflect.Type, full bool) []reflect.Value {
	mk := func(xs ...interface{}) []reflect.Value {
		var out []reflect.Value
		for _, x := range xs {
			out = append(out, reflect.ValueOf(x).Convert(t))
		}
		return out
	}
	pick := func(all []reflect.Value, idx ...int) []reflect.Value {
		if full {
			return all
		}
		var out []reflect.Value
		for _, i := range idx {
			if i < 0 {
				i += len(all)
			}
			out = append(out, all[i])
		}
		return out
	}
	switch t {
	case gv.TimeT:
		return pick(mk(time.Time{}, tEpoch, tTyp, tOff, tNeg, tMax, tYear0), 0, 3, 4)
	case gv.NullIntT:
		return pick(mk(null.NewInt(0, false), null.NewInt(0, true), null.NewInt(-8192, true), null.NewInt(math.MaxInt64, true), null.NewInt(math.MinInt64, true)), 0, 1, 3)
	case gv.NullBoolT:
		return mk(null.NewBool(false, false), null.NewBool(false, true), null.NewBool(true, true))
	case gv.NullFloatT:
		return pick(mk(null.NewFloat(0.0, false), null.NewFloat(0.0, true), null.NewFloat(-2.25, true), null.NewFloat(math.Inf(1), true), null.NewFloat(math.NaN(), true), null.NewFloat(math.SmallestNonzeroFloat64, true)), 0, 1, 2)
	case gv.NullStringT:
		return pick(mk(null.NewString("", false), null.NewString("", true), null.NewString("héllo", true), null.NewString("\xff\xfe", true)), 0, 1, 2)
	case gv.NullTimeT:
		return pick(mk(null.NewTime(time.Time{}, false), null.NewTime(tTyp, true), null.NewTime(tNeg, true), null.NewTime(time.Time{}, true)), 0, 1, 2)
	}
	switch t.Kind() {
	case reflect.Bool:
		return mk(false, true)
	case reflect.Int, reflect.Int64:
		vs := intVals(64)
		var all []reflect.Value
		for _, v := range vs {
			all = append(all, reflect.ValueOf(v).Convert(t))
		}
		return pick(all, 0, 2, -1)
	case reflect.Int32, reflect.Int16, reflect.Int8:
		var all []reflect.Value
		for _, v := range intVals(t.Bits()) {
			all = append(all, reflect.ValueOf(v).Convert(t))
		}
		return pick(all, 0, 2, -2)
	case reflect.Float32:
		return pick(mk(float32(0), float32(math.Copysign(0, -1)), float32(1.5), float32(-2.25), float32(math.MaxFloat32), float32(math.SmallestNonzeroFloat32), float32(math.Inf(1)), float32(math.Inf(-1)), float32(math.NaN())), 0, 3, 4)
	case reflect.Float64:
		return pick(mk(float64(0), math.Copysign(0, -1), 1.5, -2.25, math.MaxFloat64, math.SmallestNonzeroFloat64, math.Inf(1), math.Inf(-1), math.NaN()), 0, 3, 4)
	case reflect.String:
		return pick(mk("", "a", "héllo", "\xff\xfe", long200), 0, 2, 4)
	case reflect.Slice:
		if t.Elem().Kind() == reflect.Uint8 {
			return pick(mk([]byte(nil), []byte{}, []byte{0}, []byte{1, 2, 3}, bytes200), 0, 3, 4)
		}
		ev := Values(t.Elem(), false)
		out := []reflect.Value{reflect.Zero(t), reflect.MakeSlice(t, 0, 0)}
		one := reflect.MakeSlice(t, 1, 1)
		one.Index(0).Set(ev[1%len(ev)])
		out = append(out, one)
		// (null-ish, non-null) and (non-null, null-ish)
		a := reflect.MakeSlice(t, 2, 2)
		a.Index(0).Set(ev[0])
		a.Index(1).Set(ev[len(ev)-1])
		b := reflect.MakeSlice(t, 2, 3)
		b.Index(0).Set(ev[len(ev)-1])
		b.Index(1).Set(ev[0])
		out = append(out, a, b)
		if full {
			// every element value alone, and a 3-element slice
			for _, v := range Values(t.Elem(), true) {
				s := reflect.MakeSlice(t, 1, 1)
				s.Index(0).Set(v)
				out = append(out, s)
			}
			c := reflect.MakeSlice(t, 3, 3)
			for i := 0; i < 3; i++ {
				c.Index(i).Set(ev[i%len(ev)])
			}
			out = append(out, c)
			return out
		}
		return []reflect.Value{out[0], out[3], out[4]}
	case reflect.Map:
		ev := Values(t.Elem(), false)
		out := []reflect.Value{reflect.Zero(t), reflect.MakeMap(t)}
		one := reflect.MakeMap(t)
		one.SetMapIndex(reflect.ValueOf("k"), ev[1%len(ev)])
		two := reflect.MakeMap(t)
		two.SetMapIndex(reflect.ValueOf("a"), ev[0])
		two.SetMapIndex(reflect.ValueOf("héllo"), ev[len(ev)-1])
		out = append(out, one, two)
		if full {
			for i, v := range Values(t.Elem(), true) {
				m := reflect.MakeMap(t)
				m.SetMapIndex(reflect.ValueOf(fmt.Sprintf("key%d", i)), v)
				out = append(out, m)
			}
			three := reflect.MakeMap(t)
			for i := 0; i < 3; i++ {
				three.SetMapIndex(reflect.ValueOf(strings.Repeat("k", i)), ev[i%len(ev)])
			}
			out = append(out, three)
			return out
		}
		return []reflect.Value{out[0], out[2], out[3]}
	case reflect.Ptr:
		out := []reflect.Value{reflect.Zero(t)}
		for _, v := range Values(t.Elem(), full) {
			p := reflect.New(t.Elem())
			p.Elem().Set(v)
			out = append(out, p)
		}
		if !full && len(out) > 3 {
			return []reflect.Value{out[0], out[1], out[len(out)-1]}
		}
		return out
	case reflect.Struct:
		// product of field alphabets, capped: for a one-field struct every value; for Rec three values
		if t == reflect.TypeOf(Rec{}) {
			return mk(Rec{}, Rec{A: 1, B: "b"}, Rec{A: math.MinInt64, B: "\xff"})
		}
		var out []reflect.Value
		if t.NumField() == 1 {
			for _, v := range Values(t.Field(0).Type, full) {
				s := reflect.New(t).Elem()
				s.Field(0).Set(v)
				out = append(out, s)
			}
			return out
		}
		// general: zero, all-typical, all-boundary
		for k := 0; k < 3; k++ {
			s := reflect.New(t).Elem()
			for i := 0; i < t.NumField(); i++ {
				if t.Field(i).PkgPath != "" {
					continue
				}
				fv := Values(t.Field(i).Type, false)
				s.Field(i).Set(fv[k%len(fv)])
			}
			out = append(out, s)
		}
		return out
	case reflect.Array:
		if t.Elem().Kind() == reflect.Uint8 {
			a := reflect.New(t).Elem()
			b := reflect.New(t).Elem()
			for i := 0; i < t.Len(); i++ {
				b.Index(i).SetUint(uint64(0xf0 + i))
			}
			return []reflect.Value{a, b}
		}
	}
	return []reflect.Value{reflect.Zero(t)}
}

// Package encdrv drives the real avro.Encoder[T] through call histories and
// keeps the lock-step reference model (a list of pending records).
package encdrv

import (
	"fmt"
	"io"
	"strings"

	"github.com/philpearl/avro"

	"verifharness/ref"
)

type R0 struct{}
type R1 struct {
	S string
}

// RW is R1 with 23 more fields under long names: its generated schema is well above 1 KiB (the file writer builds
// the header in a fixed-size scratch buffer; a schema that does not fit takes whatever other path there is).
type RW struct {
	S string
	LongFieldNameToMakeTheSchemaBig01 int64 `json:"long_field_name_to_make_the_schema_big_01"`
	LongFieldNameToMakeTheSchemaBig02 int64 `json:"long_field_name_to_make_the_schema_big_02"`
	LongFieldNameToMakeTheSchemaBig03 int64 `json:"long_field_name_to_make_the_schema_big_03"`
	LongFieldNameToMakeTheSchemaBig04 int64 `json:"long_field_name_to_make_the_schema_big_04"`
	LongFieldNameToMakeTheSchemaBig05 int64 `json:"long_field_name_to_make_the_schema_big_05"`
	LongFieldNameToMakeTheSchemaBig06 int64 `json:"long_field_name_to_make_the_schema_big_06"`
	LongFieldNameToMakeTheSchemaBig07 int64 `json:"long_field_name_to_make_the_schema_big_07"`
	LongFieldNameToMakeTheSchemaBig08 int64 `json:"long_field_name_to_make_the_schema_big_08"`
	LongFieldNameToMakeTheSchemaBig09 int64 `json:"long_field_name_to_make_the_schema_big_09"`
	LongFieldNameToMakeTheSchemaBig10 int64 `json:"long_field_name_to_make_the_schema_big_10"`
	LongFieldNameToMakeTheSchemaBig11 int64 `json:"long_field_name_to_make_the_schema_big_11"`
	LongFieldNameToMakeTheSchemaBig12 int64 `json:"long_field_name_to_make_the_schema_big_12"`
	LongFieldNameToMakeTheSchemaBig13 int64 `json:"long_field_name_to_make_the_schema_big_13"`
	LongFieldNameToMakeTheSchemaBig14 int64 `json:"long_field_name_to_make_the_schema_big_14"`
	LongFieldNameToMakeTheSchemaBig15 int64 `json:"long_field_name_to_make_the_schema_big_15"`
	LongFieldNameToMakeTheSchemaBig16 int64 `json:"long_field_name_to_make_the_schema_big_16"`
	LongFieldNameToMakeTheSchemaBig17 int64 `json:"long_field_name_to_make_the_schema_big_17"`
	LongFieldNameToMakeTheSchemaBig18 int64 `json:"long_field_name_to_make_the_schema_big_18"`
	LongFieldNameToMakeTheSchemaBig19 int64 `json:"long_field_name_to_make_the_schema_big_19"`
	LongFieldNameToMakeTheSchemaBig20 int64 `json:"long_field_name_to_make_the_schema_big_20"`
	LongFieldNameToMakeTheSchemaBig21 int64 `json:"long_field_name_to_make_the_schema_big_21"`
	LongFieldNameToMakeTheSchemaBig22 int64 `json:"long_field_name_to_make_the_schema_big_22"`
	LongFieldNameToMakeTheSchemaBig23 int64 `json:"long_field_name_to_make_the_schema_big_23"`
}

// Op codes: 0..n-1 encode record i of the kind's alphabet, n = flush.
type Kind struct {
	Name    string
	Records []string // for R1: the strings; for R0: one entry ""
	Schema  *ref.Schema
	Wide    bool
}

// KW: few small records, big schema
var KW = func() Kind {
	fs := []ref.Field{ref.F("S", ref.Prim("string"))}
	for i := 1; i < 24; i++ {
		fs = append(fs, ref.F(fmt.Sprintf("long_field_name_to_make_the_schema_big_%02d", i), ref.Prim("long")))
	}
	return Kind{Name: "struct{S string; 23 more fields} (schema > 1 KiB)", Records: []string{"", strings.Repeat("w", 30)}, Schema: ref.Record("RW", fs...), Wide: true}
}()

var K0 = Kind{Name: "struct{}", Records: []string{""}, Schema: ref.Record("R0")}
var K1 = Kind{Name: "struct{S string}", Records: []string{"", strings.Repeat("k", 9), strings.Repeat("B", 40)},
	Schema: ref.Record("R1", ref.F("S", ref.Prim("string")))}

// K1big: block lengths that need two- and three-byte varints (8192..16383 and beyond)
var K1big = Kind{Name: "struct{S string} (large records)", Records: []string{strings.Repeat("s", 100), strings.Repeat("m", 9000), strings.Repeat("L", 20000)},
	Schema: ref.Record("R1", ref.F("S", ref.Prim("string")))}

// K1huge: a record above 1 MiB (buffer-retention logic, if any, kicks in) next to small ones
var K1huge = Kind{Name: "struct{S string} (huge record)", Records: []string{strings.Repeat("a", 10), strings.Repeat("b", 2000), strings.Repeat("H", 1300000)},
	Schema: ref.Record("R1", ref.F("S", ref.Prim("string")))}

func (k Kind) NumOps() int { return len(k.Records) + 1 }
func (k Kind) IsFlush(op int) bool { return op == len(k.Records) }
func (k Kind) OpName(op int) string {
	if k.IsFlush(op) {
		return "flush"
	}
	return fmt.Sprintf("encode(%dB)", len(k.RecordBytes(op)))
}

// RecordBytes is the reference encoding of record op.
func (k Kind) RecordBytes(op int) []byte {
	if len(k.Schema.Fields) == 0 {
		return nil
	}
	if k.Wide {
		ds := []ref.Datum{ref.DString(k.Records[op])}
		for i := 1; i < len(k.Schema.Fields); i++ {
			ds = append(ds, ref.DLong(0))
		}
		return ref.Encode(k.Schema, ref.DRecord(ds...))
	}
	return ref.Encode(k.Schema, ref.DRecord(ref.DString(k.Records[op])))
}

type Enc interface {
	Encode(op int) error
	Flush() error
}

type enc0 struct{ e *avro.Encoder[R0] }

func (e enc0) Encode(op int) error { var r R0; return e.e.Encode(&r) }
func (e enc0) Flush() error        { return e.e.Flush() }

type enc1 struct {
	e *avro.Encoder[R1]
	k Kind
}

func (e enc1) Encode(op int) error { r := R1{S: e.k.Records[op]}; return e.e.Encode(&r) }
func (e enc1) Flush() error        { return e.e.Flush() }

type encW struct {
	e *avro.Encoder[RW]
	k Kind
}

func (e encW) Encode(op int) error { r := RW{S: e.k.Records[op]}; return e.e.Encode(&r) }
func (e encW) Flush() error        { return e.e.Flush() }

func New(k Kind, w io.Writer, comp string, blockSize int) (Enc, error) {
	if k.Wide {
		e, err := avro.NewEncoderFor[RW](w, avro.Compression(comp), blockSize)
		if err != nil {
			return nil, err
		}
		return encW{e, k}, nil
	}
	if len(k.Schema.Fields) == 0 {
		e, err := avro.NewEncoderFor[R0](w, avro.Compression(comp), blockSize)
		if err != nil {
			return nil, err
		}
		return enc0{e}, nil
	}
	e, err := avro.NewEncoderFor[R1](w, avro.Compression(comp), blockSize)
	if err != nil {
		return nil, err
	}
	return enc1{e, k}, nil
}

// Model is the reference model of the encoder: pending records and emitted blocks.
type Model struct {
	K         Kind
	BlockSize int
	Pending   []int
	PendBytes int
	Blocks    [][]int
}

func (m *Model) Step(op int) {
	if m.K.IsFlush(op) {
		m.emit()
		return
	}
	m.Pending = append(m.Pending, op)
	m.PendBytes += len(m.K.RecordBytes(op))
	if m.PendBytes >= m.BlockSize {
		m.emit()
	}
}

// StepNoEmit records an encode whose size-triggered flush did not go through (the writer refused it): the record is
// pending, the block is not emitted.
func (m *Model) StepNoEmit(op int) {
	m.Pending = append(m.Pending, op)
	m.PendBytes += len(m.K.RecordBytes(op))
}

func (m *Model) emit() {
	if len(m.Pending) == 0 {
		return
	}
	m.Blocks = append(m.Blocks, m.Pending)
	m.Pending = nil
	m.PendBytes = 0
}

// CheckOutput compares the bytes written so far with the model: header +
// exactly the model's blocks. It returns "" or a (sigpart, message).
func (m *Model) CheckOutput(out []byte, codec string) (string, string) {
	p, err := ref.ParseFile(out)
	if err != nil {
		return "unparseable", fmt.Sprintf("output does not parse as a container file: %v", err)
	}
	if got := string(p.Meta["avro.codec"]); got != codec {
		return "wrong-codec-meta", fmt.Sprintf("avro.codec=%q, requested %q", got, codec)
	}
	if _, err := ref.ParseSchema(p.Meta["avro.schema"]); err != nil {
		return "bad-schema-meta", fmt.Sprintf("embedded schema unparseable: %v", err)
	}
	if len(p.Blocks) != len(m.Blocks) {
		return "block-count", fmt.Sprintf("%d blocks emitted, model expects %d", len(p.Blocks), len(m.Blocks))
	}
	for i, b := range p.Blocks {
		want := m.Blocks[i]
		if b.Count != int64(len(want)) {
			return "record-count", fmt.Sprintf("block %d declares %d records, model has %d", i, b.Count, len(want))
		}
		if b.Count == 0 {
			return "empty-block", fmt.Sprintf("block %d is empty", i)
		}
		var exp []byte
		for _, op := range want {
			exp = append(exp, m.K.RecordBytes(op)...)
		}
		if string(b.Payload) != string(exp) {
			return "payload", fmt.Sprintf("block %d payload %x, model expects %x", i, clip(b.Payload), clip(exp))
		}
	}
	return "", ""
}

func clip(b []byte) []byte {
	if len(b) > 48 {
		return b[:48]
	}
	return b
}

func HistString(k Kind, h []int) string {
	if len(h) > 64 {
		// long histories are summarised: operation counts, then the last few operations verbatim
		cnt := map[int]int{}
		for _, op := range h {
			cnt[op]++
		}
		s := fmt.Sprintf("%d calls (", len(h))
		for op := 0; op < k.NumOps(); op++ {
			if cnt[op] > 0 {
				s += fmt.Sprintf("%s x%d ", k.OpName(op), cnt[op])
			}
		}
		return s + "interleaved round-robin) ending in " + HistString(k, h[len(h)-3:])
	}
	var ps []string
	for _, op := range h {
		ps = append(ps, k.OpName(op))
	}
	return strings.Join(ps, " ")
}

// Package dynenc drives the encoder for dynamically built struct types
// (reflect.StructOf), for which the generic avro.NewEncoderFor[T] cannot be
// instantiated: it performs, with public API only, exactly the steps
// NewEncoderFor/Encode/Flush perform (SchemaForType, Schema.Codec,
// Schema.Marshal, NewFileWriter, WriteHeader, Codec.Write, WriteBlock).
package dynenc

import (
	"fmt"
	"io"
	"reflect"
	"unsafe"

	"github.com/philpearl/avro"
)

type Enc struct {
	codec avro.Codec
	fw    *avro.FileWriter
	w     io.Writer
	bs    int
	wb    *avro.WriteBuf
	count int
	Schema avro.Schema
}

func New(t reflect.Type, w io.Writer, comp string, blockSize int) (*Enc, error) {
	item := reflect.New(t).Elem().Interface()
	s, err := avro.SchemaForType(item)
	if err != nil {
		return nil, fmt.Errorf("generating schema: %w", err)
	}
	c, err := s.Codec(item)
	if err != nil {
		return nil, fmt.Errorf("generating codec: %w", err)
	}
	sb, err := s.Marshal()
	if err != nil {
		return nil, fmt.Errorf("marshaling schema: %w", err)
	}
	fw, err := avro.NewFileWriter(sb, avro.Compression(comp))
	if err != nil {
		return nil, err
	}
	if err := fw.WriteHeader(w); err != nil {
		return nil, err
	}
	return &Enc{codec: c, fw: fw, w: w, bs: blockSize, wb: avro.NewWriteBuf(make([]byte, 0, 64)), Schema: s}, nil
}

func (e *Enc) Encode(p unsafe.Pointer) error {
	e.codec.Write(e.wb, p)
	e.count++
	if e.wb.Len() >= e.bs {
		return e.Flush()
	}
	return nil
}

func (e *Enc) Flush() error {
	if e.count > 0 {
		if err := e.fw.WriteBlock(e.w, e.count, e.wb.Bytes()); err != nil {
			return err
		}
		e.count = 0
		e.wb.Reset()
	}
	return nil
}

// Package spec is the documented Go-type -> Avro-schema mapping written as a
// total specification function (C15), independent of the library's code.
package spec

import (
	"fmt"
	"reflect"
	"strings"

	"verifharness/gv"
	"verifharness/ref"
)

// Verdict of the specification for a type.
type Verdict int

const (
	Defined     Verdict = iota // the mapping defines a schema
	MustFail                   // the type cannot be expressed: an error is required
	Unspecified                // the documented mapping is silent (Go arrays): no claim
)

// Registered schemas (type -> schema), mirrored by the harness for the types it registers.
type Registry map[reflect.Type]*ref.Schema

// LibraryRegistry is what avro/time and avro/null RegisterCodecs register.
func LibraryRegistry() Registry {
	n := func(t string) *ref.Schema { return ref.Union(ref.Prim("null"), ref.Prim(t)) }
	return Registry{
		gv.TimeT:       n("string"),
		gv.NullIntT:    n("long"),
		gv.NullBoolT:   n("boolean"),
		gv.NullFloatT:  n("double"),
		gv.NullStringT: n("string"),
		gv.NullTimeT:   n("string"),
	}
}

func nullable(s *ref.Schema) *ref.Schema { return ref.Union(ref.Prim("null"), s) }

var nsReplacer = strings.NewReplacer("/", ".", "-", "_")

// SchemaFor is the specification function for a struct type.
func SchemaFor(t reflect.Type, reg Registry) (*ref.Schema, Verdict, string) {
	if t.Kind() == reflect.Ptr {
		t = t.Elem()
	}
	if t.Kind() != reflect.Struct {
		return nil, MustFail, "not a struct"
	}
	return schemaFor(t, reg, map[reflect.Type]bool{})
}

func schemaFor(t reflect.Type, reg Registry, visiting map[reflect.Type]bool) (*ref.Schema, Verdict, string) {
	if s, ok := reg[t]; ok {
		return s, Defined, ""
	}
	switch t.Kind() {
	case reflect.Bool:
		return ref.Prim("boolean"), Defined, ""
	case reflect.Int, reflect.Int8, reflect.Int16, reflect.Int32, reflect.Int64:
		return ref.Prim("long"), Defined, ""
	case reflect.Float32, reflect.Float64:
		return ref.Prim("double"), Defined, ""
	case reflect.String:
		return ref.Prim("string"), Defined, ""
	case reflect.Slice:
		if t.Elem().Kind() == reflect.Uint8 {
			return ref.Prim("bytes"), Defined, ""
		}
		e, v, why := schemaFor(t.Elem(), reg, visiting)
		if v != Defined {
			return nil, v, why
		}
		return ref.Array(e), Defined, ""
	case reflect.Array:
		// the documented mapping does not mention Go arrays; but whatever is inside must still be expressible
		if t.Elem().Kind() != reflect.Uint8 {
			if _, v, why := schemaFor(t.Elem(), reg, visiting); v == MustFail {
				return nil, MustFail, why
			}
		}
		return nil, Unspecified, "Go array"
	case reflect.Map:
		if t.Key().Kind() != reflect.String {
			return nil, MustFail, "map key is not a string"
		}
		e, v, why := schemaFor(t.Elem(), reg, visiting)
		if v != Defined {
			return nil, v, why
		}
		return ref.Map(e), Defined, ""
	case reflect.Ptr:
		e, v, why := schemaFor(t.Elem(), reg, visiting)
		if v != Defined {
			return nil, v, why
		}
		if e.Type == "union" || e.Type == "array" || e.Type == "map" {
			return e, Defined, ""
		}
		return nullable(e), Defined, ""
	case reflect.Struct:
		if visiting[t] {
			return nil, MustFail, "self-referential type (Avro needs a named-type reference the generator cannot emit)"
		}
		visiting[t] = true
		defer delete(visiting, t)
		s := &ref.Schema{Type: "record", Name: t.Name(), Namespace: nsReplacer.Replace(t.PkgPath())}
		unspec := ""
		for i := 0; i < t.NumField(); i++ {
			sf := t.Field(i)
			name, in := gv.FieldName(sf)
			if !in {
				continue
			}
			fs, v, why := schemaFor(sf.Type, reg, visiting)
			if v == MustFail {
				return nil, MustFail, fmt.Sprintf("field %s: %s", name, why)
			}
			if v == Unspecified {
				unspec = why
				continue
			}
			if gv.OmitEmpty(sf) && fs.Type != "union" {
				fs = nullable(fs)
			}
			s.Fields = append(s.Fields, ref.Field{Name: name, Type: fs})
		}
		if unspec != "" {
			return nil, Unspecified, unspec
		}
		return s, Defined, ""
	}
	return nil, MustFail, fmt.Sprintf("kind %s has no Avro counterpart", t.Kind())
}

// Package reg registers the library's own custom codecs once per process.
package reg

import (
	"sync"

	avronull "github.com/philpearl/avro/null"
	avrotime "github.com/philpearl/avro/time"
)

var once sync.Once

// Again re-registers unconditionally (after the overlay build's ResetAll emptied the registries).
func Again() {
	avrotime.RegisterCodecs()
	avronull.RegisterCodecs()
}

// Time and Null call one of the library's two RegisterCodecs functions on its own.
func Time() { avrotime.RegisterCodecs() }
func Null() { avronull.RegisterCodecs() }

func Init() {
	once.Do(func() {
		avrotime.RegisterCodecs()
		avronull.RegisterCodecs()
	})
}

// Package filedrv owns the I/O environment of avro.ReadFile: fake readers
// whose legal answers (full reads, 1-byte reads, data together with EOF) are
// chosen by the explorer, and helpers to run ReadFile and collect deep copies
// of the delivered records.
package filedrv

import (
	"bufio"
	"bytes"
	"fmt"
	"io"
	"reflect"
	"unsafe"

	"github.com/philpearl/avro"

	"verifharness/gv"
)

const (
	ModeFull     = 0 // Read fills the whole buffer when possible, EOF separately
	ModeOneByte  = 1 // Read returns at most one byte
	ModeDataEOF  = 2 // the last Read returns the data together with io.EOF
	NumModes     = 3
	// Read additionally accepts two modes that hand ReadFile a standard-library reader type, with all the
	// optional methods those types have (Next, WriteTo, Peek, Discard, ...): they are legal avro.Readers too
	ModeBytesBuffer = 3 // *bytes.Buffer
	ModeBufio16     = 4 // *bufio.Reader with a 16-byte buffer (short reads at every refill boundary)
	ModeZeroNil     = 5 // every other Read returns (0, nil) — discouraged but legal: "nothing happened"
	NumReadModes    = 6
)

func ModeName(m int) string {
	return [...]string{"full", "1-byte", "data+EOF", "*bytes.Buffer", "*bufio.Reader(16)", "every-other-read-(0,nil)"}[m]
}

// NewReader returns the reader for a mode of Read.
func NewReader(data []byte, mode int) avro.Reader {
	switch mode {
	case ModeBytesBuffer:
		return bytes.NewBuffer(append([]byte(nil), data...))
	case ModeBufio16:
		return bufio.NewReaderSize(&Reader{Data: data, Mode: ModeFull}, 16)
	}
	return &Reader{Data: data, Mode: mode}
}

type Reader struct {
	Data []byte
	Pos  int
	Mode int
	tick int
}

func (r *Reader) Read(p []byte) (int, error) {
	if len(p) == 0 {
		return 0, nil
	}
	if r.Pos >= len(r.Data) {
		return 0, io.EOF
	}
	if r.Mode == ModeZeroNil {
		r.tick++
		if r.tick%2 == 1 {
			return 0, nil
		}
	}
	n := len(p)
	if r.Mode == ModeOneByte {
		n = 1
	}
	if n > len(r.Data)-r.Pos {
		n = len(r.Data) - r.Pos
	}
	copy(p, r.Data[r.Pos:r.Pos+n])
	r.Pos += n
	if r.Mode == ModeDataEOF && r.Pos == len(r.Data) {
		return n, io.EOF
	}
	return n, nil
}

func (r *Reader) ReadByte() (byte, error) {
	if r.Pos >= len(r.Data) {
		return 0, io.EOF
	}
	r.Pos++
	return r.Data[r.Pos-1], nil
}

// Result of one ReadFile run.
type Result struct {
	Records []reflect.Value // deep copies taken inside the callback
	// Retained holds plain struct copies taken inside the callback (banks are never closed): what a caller
	// that collects records the documented way still holds after ReadFile has returned
	Retained []reflect.Value
	Err     error
	Panic   interface{}
	Site    string
}

// Read runs avro.ReadFile over data into a fresh value of type t (passed by
// value, or by pointer when ptr is set). failAt>=0 makes the callback return
// cbErr at that record index. Banks are never closed.
func Read(data []byte, mode int, t reflect.Type, ptr bool, failAt int, cbErr error) (res Result) {
	defer func() {
		if r := recover(); r != nil {
			res.Panic = r
			res.Site = panicSite()
		}
	}()
	var out interface{}
	if ptr {
		out = reflect.New(t).Interface()
	} else {
		out = reflect.New(t).Elem().Interface()
	}
	n := 0
	res.Err = avro.ReadFile(NewReader(data, mode), out, func(val unsafe.Pointer, rb *avro.ResourceBank) error {
		v := reflect.NewAt(t, val).Elem()
		res.Records = append(res.Records, gv.DeepCopy(v))
		// the idiom of ReadFile's documentation: records = append(records, *(*record)(val)) — a plain struct
		// copy kept while the bank stays open
		keep := reflect.New(t).Elem()
		keep.Set(v)
		res.Retained = append(res.Retained, keep)
		if n == failAt {
			n++
			return cbErr
		}
		n++
		return nil
	})
	return res
}

// ReadReusing reads data twice into ONE caller-owned *T: a first pass that the callback abandons with an error at
// record index stopAt (a lookup), then a complete pass. The result is that of the second pass: what the first
// pass left behind in the destination must not show.
func ReadReusing(data []byte, mode int, t reflect.Type, stopAt int) (res Result) {
	defer func() {
		if r := recover(); r != nil {
			res.Panic = r
			res.Site = panicSite()
		}
	}()
	dst := reflect.New(t)
	errStop := fmt.Errorf("found what I was looking for")
	n := 0
	avro.ReadFile(NewReader(data, mode), dst.Interface(), func(val unsafe.Pointer, rb *avro.ResourceBank) error {
		if n == stopAt {
			return errStop
		}
		n++
		return nil
	})
	res.Err = avro.ReadFile(NewReader(data, mode), dst.Interface(), func(val unsafe.Pointer, rb *avro.ResourceBank) error {
		v := reflect.NewAt(t, val).Elem()
		res.Records = append(res.Records, gv.DeepCopy(v))
		return nil
	})
	return res
}

// ReadClosing is Read for a streaming consumer: every record is deep-copied inside the callback and its bank closed
// at once (the documented way to recycle memory), so later records are decoded into recycled banks.
func ReadClosing(data []byte, mode int, t reflect.Type) (res Result) {
	defer func() {
		if r := recover(); r != nil {
			res.Panic = r
			res.Site = panicSite()
		}
	}()
	res.Err = avro.ReadFile(NewReader(data, mode), reflect.New(t).Elem().Interface(), func(val unsafe.Pointer, rb *avro.ResourceBank) error {
		res.Records = append(res.Records, gv.DeepCopy(reflect.NewAt(t, val).Elem()))
		rb.Close()
		return nil
	})
	return res
}

// ReadNested reads data and, from inside the callback for record index at, reads inner completely with a second
// ReadFile (two readers alive at once, in one goroutine — e.g. a join against a second file). Result is that of the
// OUTER read; innerN is the number of records the inner read delivered and innerErr its error.
func ReadNested(data, inner []byte, mode int, t reflect.Type, at int) (res Result, innerN int, innerErr error) {
	defer func() {
		if r := recover(); r != nil {
			res.Panic = r
			res.Site = panicSite()
		}
	}()
	n := 0
	res.Err = avro.ReadFile(NewReader(data, mode), reflect.New(t).Elem().Interface(), func(val unsafe.Pointer, rb *avro.ResourceBank) error {
		v := reflect.NewAt(t, val).Elem()
		res.Records = append(res.Records, gv.DeepCopy(v))
		if n == at {
			innerErr = avro.ReadFile(NewReader(inner, mode), reflect.New(t).Elem().Interface(), func(val unsafe.Pointer, rb2 *avro.ResourceBank) error {
				innerN++
				rb2.Close()
				return nil
			})
		}
		n++
		return nil
	})
	return
}

func panicSite() string {
	return siteFromStack()
}

func (r Result) String() string {
	return fmt.Sprintf("%d records err=%v panic=%v", len(r.Records), r.Err, r.Panic)
}

// countingReader counts the bytes the library has taken from the reader.
type countingReader struct {
	r avro.Reader
	n int
}

func (c *countingReader) Read(p []byte) (int, error) {
	n, err := c.r.Read(p)
	c.n += n
	return n, err
}

func (c *countingReader) ReadByte() (byte, error) {
	b, err := c.r.ReadByte()
	if err == nil {
		c.n++
	}
	return b, err
}

// ReadStopping is Read with a callback that fails at record failAt; it also reports how many bytes the library had
// taken from the reader when the callback failed and how many when ReadFile returned.
func ReadStopping(data []byte, mode int, t reflect.Type, failAt int, cbErr error) (res Result, atFail, atReturn int) {
	defer func() {
		if r := recover(); r != nil {
			res.Panic = r
			res.Site = panicSite()
		}
	}()
	cr := &countingReader{r: NewReader(data, mode)}
	n := 0
	atFail = -1
	res.Err = avro.ReadFile(cr, reflect.New(t).Elem().Interface(), func(val unsafe.Pointer, rb *avro.ResourceBank) error {
		res.Records = append(res.Records, gv.DeepCopy(reflect.NewAt(t, val).Elem()))
		if n == failAt {
			n++
			atFail = cr.n
			return cbErr
		}
		n++
		return nil
	})
	return res, atFail, cr.n
}

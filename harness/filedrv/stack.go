package filedrv

import "verifharness/fw"

func siteFromStack() string { return fw.PanicSite(4) }

package filedrv

import (
	"fmt"
	"reflect"
	"strings"

	"verifharness/explore"
	"verifharness/gv"
	"verifharness/ref"
)

type T0 struct{}
type T1 struct{ A int64 }
type T2 struct {
	S string
	B []byte
}
type T3 struct {
	A int64
	L []string
	M map[string]int64
	P *int64
}

type SchemaCase struct {
	Name    string
	Schema  *ref.Schema
	Type    reflect.Type
	Records []ref.Datum
}

func mapD(k []string, v ...int64) ref.Datum {
	var ds []ref.Datum
	for _, x := range v {
		ds = append(ds, ref.DLong(x))
	}
	return ref.DMap(k, ds)
}

// Schemas of the container-file families. sized=true selects payload sizes
// that make count/length varints 1 and 2 bytes long.
func Schemas() []SchemaCase {
	s1 := ref.Record("T1", ref.F("A", ref.Prim("long")))
	s2 := ref.Record("T2", ref.F("S", ref.Prim("string")), ref.F("B", ref.Prim("bytes")))
	s3 := ref.Record("T3", ref.F("A", ref.Prim("long")), ref.F("L", ref.Array(ref.Prim("string"))), ref.F("M", ref.Map(ref.Prim("long"))),
		ref.F("P", ref.Union(ref.Prim("null"), ref.Prim("long"))))
	return []SchemaCase{
		// records that encode to zero bytes: blocks with a count and an empty payload
		{"T0", ref.Record("T0"), reflect.TypeOf(T0{}), []ref.Datum{ref.DRecord(), ref.DRecord(), ref.DRecord()}},
		{"T1", s1, reflect.TypeOf(T1{}), []ref.Datum{ref.DRecord(ref.DLong(1)), ref.DRecord(ref.DLong(-2)), ref.DRecord(ref.DLong(33))}},
		{"T2", s2, reflect.TypeOf(T2{}), []ref.Datum{
			ref.DRecord(ref.DString(""), ref.DBytes("")),
			ref.DRecord(ref.DString(strings.Repeat("abcdefg", 9)+"xyz"), ref.DBytes("\x00\x01\xff")),
			ref.DRecord(ref.DString(strings.Repeat("Q", 150)), ref.DBytes(strings.Repeat("\xaa\x55", 23))),
		}},
		{"T3", s3, reflect.TypeOf(T3{}), []ref.Datum{
			ref.DRecord(ref.DLong(7), ref.DArray(ref.DString("x"), ref.DString("yy")), mapD([]string{"k"}, 5), ref.DUnion(1, ref.DLong(-9))),
			ref.DRecord(ref.DLong(0), ref.DArray(), mapD(nil), ref.DUnion(0, ref.DNull())),
			ref.DRecord(ref.DLong(1<<40), ref.DArray(ref.DString("")), mapD([]string{"a", "b"}, 1, 2), ref.DUnion(1, ref.DLong(0))),
		}},
	}
}

type File struct {
	Name     string
	SC       SchemaCase
	Codec    string
	Comp     []int // records per block
	Data     []byte
	Layout   ref.Layout
	Expected []reflect.Value
	Sync     [16]byte
	Blocks   []ref.Block
	Meta     []ref.MetaEntry
	// Big files are read intact and at block boundaries only (no per-byte cut / per-bit damage sweep of the payload)
	Big bool
	// Long files have thousands of blocks: intact reads and a few hundred spread cut / damage points only
	Long bool
}

var famSync = [16]byte{0xde, 0xad, 0xbe, 0xef, 0x10, 0x32, 0x54, 0x76, 0x98, 0xba, 0xdc, 0xfe, 0x01, 0x23, 0x45, 0x67}

// Build writes one file with the reference writer.
func Build(sc SchemaCase, codec string, comp []int, recs []ref.Datum) File {
	return BuildSync(sc, codec, comp, recs, famSync)
}

// BuildSync is Build with a chosen sync marker.
func BuildSync(sc SchemaCase, codec string, comp []int, recs []ref.Datum, sync [16]byte) File {
	return BuildEnc(sc, codec, comp, recs, sync, nil)
}

// SizedBlocks / SizedItemBlocks are writer-side policies for BuildEnc: every array and map block with its byte
// size; the same with one item per block.
func SizedBlocks(label string, n int) int {
	if label == "sizeprefix" {
		return 1
	}
	return 0
}

func SizedItemBlocks(label string, n int) int {
	if label == "sizeprefix" {
		return 1
	}
	if label == "blocksize" {
		return n - 1
	}
	return 0
}

// BuildEnc is BuildSync with the writer-side encoding choices (block splitting, byte sizes) taken by policy.
func BuildEnc(sc SchemaCase, codec string, comp []int, recs []ref.Datum, sync [16]byte, policy func(label string, n int) int) File {
	f := File{SC: sc, Codec: codec, Comp: comp, Sync: sync}
	pos := 0
	for _, n := range comp {
		var payload []byte
		for i := 0; i < n; i++ {
			if policy != nil {
				payload = (&ref.Enc{Policy: policy}).Encode(payload, sc.Schema, recs[pos])
			} else {
				payload = append(payload, ref.Encode(sc.Schema, recs[pos])...)
			}
			pos++
		}
		f.Blocks = append(f.Blocks, ref.Block{Count: int64(n), Payload: payload})
	}
	f.Meta = ref.StdMeta(sc.Schema.Print(nil), codec, true)
	f.Data, f.Layout = ref.WriteFile(f.Meta, codec, f.Sync, f.Blocks)
	for i := 0; i < pos; i++ {
		v := reflect.New(sc.Type).Elem()
		if err := gv.Expect(sc.Schema, recs[i], v); err != nil {
			panic(err)
		}
		f.Expected = append(f.Expected, v)
	}
	f.Name = fmt.Sprintf("%s/%s/blocks=%v", sc.Name, codec, comp)
	return f
}

// Family returns the standard family: every schema × codec × every
// composition of n<=maxRecs records into blocks (plus the zero-block file),
// and per codec one file with a single 70-record block (2-byte count varint).
func Family(maxRecs int) []File {
	var fs []File
	for _, sc := range Schemas() {
		for _, codec := range []string{"null", "deflate", "snappy"} {
			for n := 0; n <= maxRecs; n++ {
				recs := make([]ref.Datum, n)
				for i := range recs {
					recs[i] = sc.Records[i%len(sc.Records)]
				}
				for _, comp := range explore.Compositions(n) {
					fs = append(fs, Build(sc, codec, comp, recs))
				}
			}
		}
	}
	// an EMPTY block (count 0, empty payload) is legal wherever a block is: first, between and after full ones
	{
		sc := Schemas()[1]
		for _, codec := range []string{"null", "deflate", "snappy"} {
			for _, comp := range [][]int{{1, 0, 2}, {0, 1}, {2, 0}, {0}, {0, 0, 1}} {
				f := Build(sc, codec, comp, sc.Records)
				f.Name += "/with-empty-block"
				fs = append(fs, f)
			}
		}
	}
	// sync markers with special shapes (all legal): ending in zero bytes, all zero, all 0xff
	for si, sy := range [][16]byte{{0xde, 0xad, 0xbe, 0xef, 1, 2, 3, 4, 5, 6, 7, 8, 9, 10, 0, 0}, {}, {0xff, 0xff, 0xff, 0xff, 0xff, 0xff, 0xff, 0xff, 0xff, 0xff, 0xff, 0xff, 0xff, 0xff, 0xff, 0xff}} {
		sc := Schemas()[1]
		for _, codec := range []string{"null", "deflate", "snappy"} {
			f := BuildSync(sc, codec, []int{1, 2}, sc.Records, sy)
			f.Name += fmt.Sprintf("/sync-variant-%d", si)
			fs = append(fs, f)
		}
	}
	// a block that compresses far better than 32:1 (3000 identical records)
	{
		sc := Schemas()[2]
		recs := make([]ref.Datum, 3001)
		for i := range recs {
			recs[i] = sc.Records[1]
		}
		for _, codec := range []string{"deflate", "snappy"} {
			f := Build(sc, codec, []int{3000, 1}, recs)
			f.Name += "/highly-compressible"
			f.Big = true
			fs = append(fs, f)
		}
	}
	// blocks whose bytes on the wire exceed 64 KiB (the reader's chunk size), after smaller ones and before a
	// smaller one: the read buffer must grow while part of the block is already in it; pseudo-random payloads
	// keep the compressed blocks above 64 KiB too
	{
		sc := Schemas()[2]
		rnd := uint32(12345)
		mk := func(n int) string {
			b := make([]byte, n)
			for i := range b {
				rnd = rnd*1664525 + 1013904223
				b[i] = byte(rnd >> 24)
			}
			return string(b)
		}
		recs := make([]ref.Datum, 0, 96)
		for i := 0; i < 96; i++ {
			recs = append(recs, ref.DRecord(ref.DString(fmt.Sprintf("r%03d", i)), ref.DBytes(mk(1200+i))))
		}
		for _, codec := range []string{"null", "deflate", "snappy"} {
			f := Build(sc, codec, []int{3, 90, 3}, recs)
			f.Name += "/large-wire-block"
			f.Big = true
			fs = append(fs, f)
		}
	}
	// thousands of blocks of changing size in one file (whatever the reader re-uses, grows, shrinks or counts
	// from block to block)
	{
		sc := Schemas()[2]
		var recs []ref.Datum
		var comp []int
		for i := 0; i < 2400; i++ {
			n := 1 + (i*7)%3
			comp = append(comp, n)
			for j := 0; j < n; j++ {
				recs = append(recs, ref.DRecord(ref.DString(fmt.Sprintf("rec-%d-%d-%s", i, j, strings.Repeat("v", (i*13+j*5)%90))), ref.DBytes(strings.Repeat("\x01", (i*3)%40))))
			}
		}
		for _, codec := range []string{"null", "deflate", "snappy"} {
			f := Build(sc, codec, comp, recs)
			f.Name = fmt.Sprintf("%s/%s/2400-blocks", sc.Name, codec)
			f.Big, f.Long = true, true
			fs = append(fs, f)
		}
	}
	sc := Schemas()[1]
	for _, codec := range []string{"null", "deflate", "snappy"} {
		recs := make([]ref.Datum, 71)
		for i := range recs {
			recs[i] = ref.DRecord(ref.DLong(int64(i * 37)))
		}
		fs = append(fs, Build(sc, codec, []int{70, 1}, recs))
	}
	return fs
}

// RecordsBefore returns how many records are in blocks 0..k-1.
func (f File) RecordsBefore(k int) int {
	n := 0
	for i := 0; i < k && i < len(f.Comp); i++ {
		n += f.Comp[i]
	}
	return n
}

// ComparePrefix checks got[:n] against the expected records; "" if equal.
func (f File) ComparePrefix(got []reflect.Value, n int) string {
	for i := 0; i < n; i++ {
		if i >= len(got) {
			return fmt.Sprintf("record %d missing (only %d delivered)", i, len(got))
		}
		if d := gv.Equal(f.Expected[i], got[i]); d != "" {
			return fmt.Sprintf("record %d differs at %s", i, d)
		}
	}
	return ""
}

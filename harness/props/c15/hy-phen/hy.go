// Package hyphen lives in a directory whose name contains a hyphen, as many real import paths do
// (github.com/google/go-cmp, command-line-arguments): record namespaces are derived from the import path.
package hyphen

type Hy struct {
	A int64  `json:"a"`
	B string `json:"b"`
}

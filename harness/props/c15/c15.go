// Package c15: schema generation is total, deterministic and follows the documented mapping.
package c15

import (
	"fmt"
	"reflect"
	"time"
	"unsafe"
	hyphen "verifharness/props/c15/hy-phen"

	"github.com/philpearl/avro"
	"github.com/unravelin/null/v5"

	"verifharness/aschema"
	"verifharness/fw"
	"verifharness/gv"
	"verifharness/ref"
	"verifharness/reg"
	"verifharness/spec"
)

type Inner struct {
	A int64
	B string
}
type inner struct{ Z int64 }
type SelfPtr struct {
	V    int64
	Next *SelfPtr
}
type SelfSlice struct{ Kids []SelfSlice }
type SelfMap struct{ M map[string]SelfMap }
type MutA struct{ B *MutB }
type MutB struct{ A *MutA }
type SelfDeep struct{ X struct{ Y []*SelfDeep } }
type Twice struct {
	X Inner
	Y Inner
}
type TwiceNested struct {
	X Inner
	L []Inner
	M map[string]*Inner
}
type EmbedExported struct {
	Inner
	C int64
}
type EmbedPtr struct {
	*Inner
	C int64
}
type EmbedUnexported struct {
	inner
	C int64
}
type Money struct{ Units, Nanos int64 }
type Celsius float64
type Tags []string
type Ratio float64 // registered with a union whose null branch comes second
type Stamp int64   // registered with a union whose non-null branch is an object (logical type)
type Lang string   // a named string type: maps keyed by it are string-keyed

type tcase struct {
	name string
	typ  reflect.Type
	solo bool // may kill the worker: own case index
}

func field(name string, t reflect.Type, tag string) reflect.StructField {
	return reflect.StructField{Name: name, Type: t, Tag: reflect.StructTag(tag)}
}

func kinds() []reflect.Type {
	var i64 int64
	var s string
	var in Inner
	pi := reflect.TypeOf(&i64)
	return []reflect.Type{
		reflect.TypeOf(false), reflect.TypeOf(int(0)), reflect.TypeOf(int8(0)), reflect.TypeOf(int16(0)), reflect.TypeOf(int32(0)), reflect.TypeOf(int64(0)),
		reflect.TypeOf(uint(0)), reflect.TypeOf(uint8(0)), reflect.TypeOf(uint16(0)), reflect.TypeOf(uint32(0)), reflect.TypeOf(uint64(0)), reflect.TypeOf(uintptr(0)),
		reflect.TypeOf(float32(0)), reflect.TypeOf(float64(0)), reflect.TypeOf(complex64(0)), reflect.TypeOf(complex128(0)),
		reflect.TypeOf(""), reflect.TypeOf([]byte(nil)), reflect.TypeOf([]string(nil)), reflect.TypeOf([]int64(nil)), reflect.TypeOf([][]byte(nil)), reflect.TypeOf([][]string(nil)),
		reflect.TypeOf([4]byte{}), reflect.TypeOf([2]int64{}), reflect.TypeOf([2]chan int{}),
		reflect.TypeOf(map[string]int64(nil)), reflect.TypeOf(map[string][]string(nil)), reflect.TypeOf(map[string]map[string]bool(nil)), reflect.TypeOf(map[int]string(nil)), reflect.TypeOf(map[[2]byte]string(nil)), reflect.TypeOf(map[Celsius]string(nil)), reflect.TypeOf(map[Lang]string(nil)), reflect.TypeOf((*map[Lang][]int64)(nil)), reflect.TypeOf([]map[Lang]Lang(nil)),
		reflect.TypeOf(struct{ A int64 }{}), reflect.TypeOf(struct{}{}), reflect.TypeOf(in), reflect.TypeOf(&in), reflect.TypeOf([]Inner(nil)), reflect.TypeOf([]*Inner(nil)), reflect.TypeOf(map[string]Inner(nil)),
		pi, reflect.PointerTo(pi), reflect.TypeOf(&s), reflect.TypeOf((*[]int64)(nil)), reflect.TypeOf((*map[string]int64)(nil)), reflect.TypeOf((*[]byte)(nil)), reflect.TypeOf((**[]int64)(nil)),
		reflect.TypeOf([]*int64(nil)), reflect.TypeOf(map[string]*int64(nil)), reflect.TypeOf((*struct{ A *int64 })(nil)),
		reflect.TypeOf((*interface{})(nil)).Elem(), reflect.TypeOf((chan int)(nil)), reflect.TypeOf((func())(nil)), reflect.TypeOf(unsafe.Pointer(nil)), reflect.TypeOf([]interface{}(nil)), reflect.TypeOf(map[string]chan int(nil)),
		gv.TimeT, reflect.PointerTo(gv.TimeT), reflect.SliceOf(gv.TimeT), reflect.MapOf(reflect.TypeOf(""), gv.TimeT),
		gv.NullIntT, gv.NullBoolT, gv.NullFloatT, gv.NullStringT, gv.NullTimeT, reflect.PointerTo(gv.NullIntT), reflect.SliceOf(gv.NullStringT), reflect.MapOf(reflect.TypeOf(""), gv.NullFloatT),
		reflect.TypeOf(Money{}), reflect.TypeOf(&Money{}), reflect.TypeOf([]Money(nil)), reflect.TypeOf(map[string]Money(nil)), reflect.TypeOf(Celsius(0)), reflect.TypeOf((*Celsius)(nil)), reflect.TypeOf(Tags(nil)), reflect.TypeOf([]Tags(nil)),
		reflect.TypeOf(Ratio(0)), reflect.TypeOf((*Ratio)(nil)), reflect.TypeOf([]Ratio(nil)), reflect.TypeOf(map[string]*Ratio(nil)),
		reflect.TypeOf(Stamp(0)), reflect.TypeOf((*Stamp)(nil)), reflect.TypeOf([]Stamp(nil)), reflect.TypeOf(map[string]Stamp(nil)),
	}
}

var tags = []string{
	``, `json:"f"`, `json:"f,omitempty"`, `json:",omitempty"`, `json:"f,string,omitempty"`, `json:"f,omitempty,string"`, `json:"-"`, `bq:"-"`, `json:"f" bq:"-"`,
	`json:"omitempty"`, `json:"f,omitemptyx"`, `json:"f,xomitempty"`, `json:"f, omitempty"`, `bq:"other" json:"g,omitempty"`, `json:"with-dash/and.dots"`,
}

var memoT = map[string][]tcase{}

func types(tier string) []tcase {
	if t, ok := memoT[tier]; ok {
		return t
	}
	var ts []tcase
	ks := kinds()
	for _, k := range ks {
		for _, tag := range tags {
			st := reflect.StructOf([]reflect.StructField{field("F", k, tag)})
			ts = append(ts, tcase{fmt.Sprintf("struct{F %s `%s`}", k, tag), st, false})
		}
	}
	// multi-field shapes: order, unexported / excluded in the middle, every kind next to two siblings
	i64, str := reflect.TypeOf(int64(0)), reflect.TypeOf("")
	for _, k := range ks {
		st := reflect.StructOf([]reflect.StructField{field("Z", str, `json:"z"`), field("F", k, `json:"f,omitempty"`), {Name: "hidden", Type: i64, PkgPath: "verifharness/props/c15"}, field("A", i64, ``), field("Skip", k, `json:"-"`)})
		ts = append(ts, tcase{fmt.Sprintf("struct{Z;F %s omitempty;hidden;A;Skip}", k), st, false})
	}
	// one type at two positions of one struct, under different tags: a field's schema is a function of ITS type and
	// tag, whatever its siblings are
	for _, k := range ks {
		for vi, tg := range [][3]string{{`json:"p,omitempty"`, `json:"q"`, `json:"r,omitempty"`}, {`json:"p"`, `json:"q,omitempty"`, `json:"r"`}} {
			st := reflect.StructOf([]reflect.StructField{field("P", k, tg[0]), field("Q", k, tg[1]), field("R", k, tg[2])})
			ts = append(ts, tcase{fmt.Sprintf("struct{P,Q,R %s; tags variant %d}", k, vi), st, false})
		}
	}
	if tier == "thorough" {
		// pairs of kinds
		for _, a := range ks {
			for _, b := range ks {
				st := reflect.StructOf([]reflect.StructField{field("P", a, `json:"p"`), field("Q", b, `json:",omitempty"`)})
				ts = append(ts, tcase{fmt.Sprintf("struct{P %s; Q %s omitempty}", a, b), st, false})
			}
		}
	}
	// nested wrappers around every kind
	for _, k := range ks {
		inner := reflect.StructOf([]reflect.StructField{field("G", k, `json:"g"`)})
		for _, w := range []reflect.Type{inner, reflect.PointerTo(inner), reflect.SliceOf(inner), reflect.MapOf(str, inner), reflect.SliceOf(reflect.PointerTo(inner))} {
			st := reflect.StructOf([]reflect.StructField{field("W", w, `json:"w,omitempty"`)})
			ts = append(ts, tcase{fmt.Sprintf("struct{W %s omitempty}", w), st, false})
		}
	}
	// duplicate JSON names
	ts = append(ts, tcase{"duplicate-json-names", reflect.StructOf([]reflect.StructField{field("A", i64, `json:"x"`), field("B", str, `json:"x"`)}), false})
	// static named types
	for _, v := range []interface{}{hyphen.Hy{}, struct{ H *hyphen.Hy }{}, struct{ L []hyphen.Hy }{}, Inner{}, Twice{}, TwiceNested{}, EmbedExported{}, EmbedPtr{}, EmbedUnexported{}, Money{},
		struct{ M Money }{}, struct{ T1, T2 time.Time }{}, struct {
			A null.Int
			B null.Int
		}{}} {
		ts = append(ts, tcase{reflect.TypeOf(v).String(), reflect.TypeOf(v), false})
	}
	for _, v := range []interface{}{SelfPtr{}, SelfSlice{}, SelfMap{}, MutA{}, SelfDeep{}, struct{ S *SelfPtr }{}, struct{ L []MutB }{}} {
		ts = append(ts, tcase{reflect.TypeOf(v).String(), reflect.TypeOf(v), true})
	}
	memoT[tier] = ts
	return ts
}

// case layout: non-solo types in chunks, then one case per solo type
const chunk = 64

func layout(tier string) (chunks int, solos []tcase, normal []tcase) {
	for _, t := range types(tier) {
		if t.solo {
			solos = append(solos, t)
		} else {
			normal = append(normal, t)
		}
	}
	return (len(normal) + chunk - 1) / chunk, solos, normal
}

var registry spec.Registry

func initC15(c *fw.Ctx) {
	reg.Init()
	registry = spec.LibraryRegistry()
	// the harness's own registered custom types
	ms := avro.Schema{Type: "long"}
	avro.RegisterSchema(reflect.TypeOf(Money{}), ms)
	registry[reflect.TypeOf(Money{})] = ref.Prim("long")
	cs, _ := avro.SchemaFromString(`{"type":"fixed","name":"celsius","size":8}`)
	avro.RegisterSchema(reflect.TypeOf(Celsius(0)), cs)
	registry[reflect.TypeOf(Celsius(0))] = &ref.Schema{Type: "fixed", Name: "celsius", Size: 8}
	rsch, _ := avro.SchemaFromString(`["double","null"]`)
	avro.RegisterSchema(reflect.TypeOf(Ratio(0)), rsch)
	registry[reflect.TypeOf(Ratio(0))] = ref.Union(ref.Prim("double"), ref.Prim("null"))
	ss, _ := avro.SchemaFromString(`["null",{"type":"long","logicalType":"timestamp-micros"}]`)
	avro.RegisterSchema(reflect.TypeOf(Stamp(0)), ss)
	registry[reflect.TypeOf(Stamp(0))] = ref.Union(ref.Prim("null"), &ref.Schema{Type: "long", Logical: "timestamp-micros", ObjectForm: true})
	ts, _ := avro.SchemaFromString(`["null","string"]`)
	avro.RegisterSchema(reflect.TypeOf(Tags(nil)), ts)
	registry[reflect.TypeOf(Tags(nil))] = ref.Union(ref.Prim("null"), ref.Prim("string"))
}

func kindOf(t reflect.Type) string {
	// locus for the signature: kind chain of the first interesting field
	if t.Kind() == reflect.Struct && t.NumField() > 0 {
		for i := 0; i < t.NumField(); i++ {
			f := t.Field(i)
			if f.Name == "F" || f.Name == "W" || f.Name == "Q" {
				return chain(f.Type, 3)
			}
		}
	}
	return chain(t, 3)
}

func chain(t reflect.Type, n int) string {
	if n == 0 {
		return "…"
	}
	if t == gv.TimeT {
		return "time.Time"
	}
	if gv.IsNullWrapper(t) {
		return t.String()
	}
	switch t.Kind() {
	case reflect.Ptr:
		return "ptr>" + chain(t.Elem(), n-1)
	case reflect.Slice:
		if t.Elem().Kind() == reflect.Uint8 {
			return "bytes"
		}
		return "slice>" + chain(t.Elem(), n-1)
	case reflect.Array:
		return "array>" + chain(t.Elem(), n-1)
	case reflect.Map:
		return "map[" + t.Key().Kind().String() + "]>" + chain(t.Elem(), n-1)
	case reflect.Struct:
		if t.Name() != "" {
			return "struct:" + t.Name()
		}
		if t.NumField() > 0 {
			return "struct>" + chain(t.Field(0).Type, n-1)
		}
		return "struct{}"
	}
	if t.Name() != "" && t.PkgPath() != "" {
		return "named:" + t.Kind().String()
	}
	return t.Kind().String()
}

func tagClass(t reflect.Type) string {
	if t.Kind() == reflect.Struct {
		for i := 0; i < t.NumField(); i++ {
			f := t.Field(i)
			if f.Name == "F" {
				return string(f.Tag)
			}
		}
	}
	return ""
}

func runType(c *fw.Ctx, tc tcase) {
	c.Eval(1)
	locus := kindOf(tc.typ)
	c.Begin(locus, "SchemaForType("+tc.name+")")
	want, verdict, why := spec.SchemaFor(tc.typ, registry)
	item := reflect.New(tc.typ).Elem().Interface()
	var got avro.Schema
	var err error
	det := map[string]interface{}{"type": tc.name}
	if c.Guard(locus, "SchemaForType("+tc.name+")", det, func() { got, err = avro.SchemaForType(item) }) {
		return
	}
	switch verdict {
	case spec.Unspecified:
		c.Count("unspecified_by_mapping_not_judged", 1)
	case spec.MustFail:
		c.Nontrivial(tc.name)
		if err == nil {
			gs := aschema.FromAvro(got).Print(nil)
			c.Violation("missing-error|"+locus, fmt.Sprintf("SchemaForType(%s) returned %s although the type cannot be expressed (%s)", tc.name, clip(gs), why), det)
		}
	case spec.Defined:
		c.Nontrivial(tc.name)
		if err != nil {
			c.Violation("spurious-error|"+locus+"|"+tagClass(tc.typ), fmt.Sprintf("SchemaForType(%s) failed: %v; the mapping defines %s", tc.name, err, clip(want.Print(nil))), det)
			return
		}
		if d := aschema.Diff(aschema.ToAvro(want), got); d != "" {
			c.Violation("wrong-schema|"+locus+"|"+tagClass(tc.typ), fmt.Sprintf("SchemaForType(%s) = %s, the mapping says %s (first difference at %s)", tc.name, clip(aschema.FromAvro(got).Print(nil)), clip(want.Print(nil)), d), det)
		}
	}
	if err != nil {
		return
	}
	// structural validity of whatever was returned
	gs := aschema.FromAvro(got)
	for _, p := range gs.Validate() {
		pc := probClass(p)
		if pc == "duplicate-field" {
			// two Go fields with the same JSON name: not among the validity rules the property names
			c.Count("duplicate_field_names_not_judged", 1)
			continue
		}
		if pc == "named-type-redefined" {
			// identify the defect by its call site: does the Go type really use one named struct type in several positions?
			if usesNamedStructTwice(tc.typ) {
				c.Violation("invalid-schema|named-type-redefined|same-named-type-in-several-positions", fmt.Sprintf("SchemaForType(%s) defines a named record more than once: %s — %s", tc.name, p, clip(gs.Print(nil))), det)
				continue
			}
		}
		c.Violation("invalid-schema|"+pc+"|"+locus, fmt.Sprintf("SchemaForType(%s) produced a structurally invalid schema: %s — %s", tc.name, p, clip(gs.Print(nil))), det)
	}
	// determinism
	var again avro.Schema
	var err2 error
	c.Guard(locus, "second SchemaForType("+tc.name+")", det, func() { again, err2 = avro.SchemaForType(reflect.New(tc.typ).Interface()) })
	if err2 != nil || aschema.Diff(got, again) != "" {
		c.Violation("nondeterministic|"+locus, fmt.Sprintf("two calls of SchemaForType(%s) disagree (second via pointer): err=%v", tc.name, err2), det)
	}
	// the usual way to name a type without building a value: a typed nil pointer
	var viaNil avro.Schema
	var errN error
	if !c.Guard(locus+"|typed-nil", "SchemaForType((*T)(nil)) for "+tc.name, det, func() {
		viaNil, errN = avro.SchemaForType(reflect.Zero(reflect.PointerTo(tc.typ)).Interface())
	}) && (errN != nil || aschema.Diff(got, viaNil) != "") {
		c.Violation("nondeterministic|"+locus+"|typed-nil", fmt.Sprintf("SchemaForType((*T)(nil)) for %s disagrees with the call by value: err=%v", tc.name, errN), det)
	}
	// marshal / parse identity on generated schemas (C14's clause over generated schemas is checked there too)
	// codec is built or refused, never a panic
	c.Guard(locus+"|codec", "Schema.Codec on the generated schema for "+tc.name, det, func() {
		_, cerr := got.Codec(item)
		if cerr != nil {
			c.Count("codec_refused_with_error", 1)
		} else {
			c.Count("codec_built", 1)
		}
	})
	// the result belongs to the caller: after the caller has overwritten everything reachable from it, a further
	// call still depends on the type alone
	first := aschema.FromAvro(got).Print(nil)
	scramble(&got)
	var third avro.Schema
	var err3 error
	c.Guard(locus, "third SchemaForType("+tc.name+")", det, func() { third, err3 = avro.SchemaForType(item) })
	if err3 != nil || aschema.FromAvro(third).Print(nil) != first {
		c.Violation("depends-on-history|"+locus, fmt.Sprintf("after the caller edited the first result, SchemaForType(%s) gives %s (err=%v); the first call gave %s", tc.name, clip(aschema.FromAvro(third).Print(nil)), err3, clip(first)), det)
	}
}

// scramble overwrites everything reachable from s in place.
func scramble(s *avro.Schema) {
	s.Type = "scrambled-" + s.Type
	for i := range s.Union {
		scramble(&s.Union[i])
	}
	if len(s.Union) > 1 {
		s.Union[0], s.Union[len(s.Union)-1] = s.Union[len(s.Union)-1], s.Union[0]
	}
	if o := s.Object; o != nil {
		o.Name += "V2"
		o.Namespace += ".v2"
		o.LogicalType = "scrambled"
		o.Size += 7
		for i := range o.Symbols {
			o.Symbols[i] = "S" + o.Symbols[i]
		}
		for i := range o.Fields {
			o.Fields[i].Name += "_v2"
			scramble(&o.Fields[i].Type)
		}
		scramble(&o.Items)
		scramble(&o.Values)
	}
}

// ---- registration histories: generation must reflect the registry as it is NOW

type HIn[Tag any] struct{ A int64 }
type HOut[Tag any] struct {
	X HIn[Tag]
	L []HIn[Tag]
	P *HIn[Tag]
}
type h1 struct{}
type h2 struct{}
type h3 struct{}
type h4 struct{}
type h5 struct{}
type h6 struct{}
type h7 struct{}
type h8 struct{}
type h9 struct{}
type h10 struct{}
type h11 struct{}
type h12 struct{}

func histTypes() [][2]reflect.Type {
	return [][2]reflect.Type{
		{reflect.TypeOf(HOut[h1]{}), reflect.TypeOf(HIn[h1]{})}, {reflect.TypeOf(HOut[h2]{}), reflect.TypeOf(HIn[h2]{})},
		{reflect.TypeOf(HOut[h3]{}), reflect.TypeOf(HIn[h3]{})}, {reflect.TypeOf(HOut[h4]{}), reflect.TypeOf(HIn[h4]{})},
		{reflect.TypeOf(HOut[h5]{}), reflect.TypeOf(HIn[h5]{})}, {reflect.TypeOf(HOut[h6]{}), reflect.TypeOf(HIn[h6]{})},
		{reflect.TypeOf(HOut[h7]{}), reflect.TypeOf(HIn[h7]{})}, {reflect.TypeOf(HOut[h8]{}), reflect.TypeOf(HIn[h8]{})},
		{reflect.TypeOf(HOut[h9]{}), reflect.TypeOf(HIn[h9]{})}, {reflect.TypeOf(HOut[h10]{}), reflect.TypeOf(HIn[h10]{})},
		{reflect.TypeOf(HOut[h11]{}), reflect.TypeOf(HIn[h11]{})}, {reflect.TypeOf(HOut[h12]{}), reflect.TypeOf(HIn[h12]{})},
	}
}

// runHistories: every history of length 3 over {G = generate the outer type (and compare with the mapping under
// the registry as it is at that moment), R1 / R2 = register schema 1 / 2 for the inner named type}, each history
// on a pair of types no earlier history has touched (a registration cannot be undone).
func runHistories(c *fw.Ctx) {
	s1 := avro.Schema{Type: "string"}
	s2, _ := avro.SchemaFromString(`{"type":"long","logicalType":"hist-two"}`)
	r1, r2 := ref.Prim("string"), &ref.Schema{Type: "long", Logical: "hist-two", ObjectForm: true}
	hts := histTypes()
	k := 0
	transitions := 0
	var rec func(h []int)
	run := func(h []int) {
		if k >= len(hts) {
			c.HarnessError("not enough fresh types for the registration histories")
			return
		}
		outer, inner := hts[k][0], hts[k][1]
		k++
		regy := spec.Registry{}
		for t, s := range registry {
			regy[t] = s
		}
		desc := ""
		for _, op := range append(append([]int{}, h...), 0) { // every history ends with a generation
			transitions++
			switch op {
			case 1:
				avro.RegisterSchema(inner, s1)
				regy[inner] = r1
				desc += "Register(s1) "
				continue
			case 2:
				avro.RegisterSchema(inner, s2)
				regy[inner] = r2
				desc += "Register(s2) "
				continue
			}
			desc += "Generate "
			c.Eval(1)
			c.Nontrivial("hist:" + fmt.Sprint(h) + desc)
			want, verdict, _ := spec.SchemaFor(outer, regy)
			det := map[string]interface{}{"history": desc, "type": outer.String()}
			var got avro.Schema
			var err error
			if c.Guard("history", "SchemaForType after "+desc, det, func() { got, err = avro.SchemaForType(reflect.New(outer).Elem().Interface()) }) {
				return
			}
			if verdict != spec.Defined || err != nil {
				c.Violation("spurious-error|history", fmt.Sprintf("SchemaForType failed after [%s]: %v", desc, err), det)
				return
			}
			if d := aschema.Diff(aschema.ToAvro(want), got); d != "" && !(len(h) == 0 || regy[inner] == nil) {
				c.Violation("depends-on-history|registration", fmt.Sprintf("after [%s] SchemaForType gives %s, the mapping under the registrations in force says %s (first difference at %s)", desc, clip(aschema.FromAvro(got).Print(nil)), clip(want.Print(nil)), d), det)
				return
			} else if d != "" && !usesNamedStructTwice(outer) {
				c.Violation("wrong-schema|history", fmt.Sprintf("after [%s]: %s", desc, d), det)
				return
			}
		}
	}
	rec = func(h []int) {
		if len(h) > 0 {
			run(h)
		}
		if len(h) == 2 {
			return
		}
		for op := 0; op < 3; op++ {
			if len(h) > 0 && op == 0 && h[len(h)-1] == 0 {
				continue // two generations in a row are the determinism check of every type
			}
			rec(append(append([]int{}, h...), op))
		}
	}
	rec(nil)
	c.Count("states", int64(k))
	c.Count("transitions", int64(transitions))
	c.Sample(map[string]interface{}{"kind": "generate/register histories on fresh named types", "histories": k, "transitions": transitions})
}

// usesNamedStructTwice reports whether some named, unregistered struct type occurs at two or more positions in t.
func usesNamedStructTwice(t reflect.Type) bool {
	count := map[reflect.Type]int{}
	var walk func(t reflect.Type, depth int)
	walk = func(t reflect.Type, depth int) {
		if depth > 20 {
			return
		}
		if rs, ok := registry[t]; ok {
			// a registered schema that is itself a named type (fixed / enum / record) is emitted verbatim at every position
			if rs.Type == "fixed" || rs.Type == "enum" || rs.Type == "record" {
				count[t]++
			}
			return
		}
		switch t.Kind() {
		case reflect.Ptr, reflect.Slice, reflect.Array, reflect.Map:
			walk(t.Elem(), depth+1)
		case reflect.Struct:
			if t.Name() != "" {
				count[t]++
				if count[t] > 1 {
					return
				}
			}
			for i := 0; i < t.NumField(); i++ {
				if _, in := gv.FieldName(t.Field(i)); in {
					walk(t.Field(i).Type, depth+1)
				}
			}
		}
	}
	walk(t, 0)
	for _, n := range count {
		if n > 1 {
			return true
		}
	}
	return false
}

func probClass(p string) string {
	switch {
	case contains(p, "union directly inside union"):
		return "nested-union"
	case contains(p, "repeats branch"):
		return "repeated-branch"
	case contains(p, "defined more than once"):
		return "named-type-redefined"
	case contains(p, "duplicate field"):
		return "duplicate-field"
	}
	return "other"
}

func contains(s, sub string) bool {
	for i := 0; i+len(sub) <= len(s); i++ {
		if s[i:i+len(sub)] == sub {
			return true
		}
	}
	return false
}

func clip(s string) string {
	if len(s) > 300 {
		return s[:300] + "…"
	}
	return s
}

func init() {
	fw.Register(&fw.Check{
		ID:    "C15",
		Level: "exploration",
		Rule: func(tier string) string {
			return "bounded-exhaustive enumeration of Go struct types (reflect.StructOf + static named/recursive types): 91 field types (every kind incl. unsupported ones, slices/maps/pointers/arrays of them, named struct, registered library and harness types) × 15 tag combinations as single-field structs; each field type in a 5-field struct with unexported/excluded siblings; each field type at three positions of one struct under alternating plain/omitempty tags; each behind {struct, *struct, []struct, map[string]struct, []*struct} with omitempty; embedded exported/pointer/unexported structs; a named struct from a package whose import path contains a hyphen (namespace mapping); the same named struct in 2–3 positions; 7 self-referential shapes (own worker case each, 64 MiB stack)" + map[string]string{"thorough": "; all ordered pairs of field types", "quick": ""}[tier] + "; oracle = the documented mapping written as a total specification function (spec.SchemaFor) + structural validity + determinism (value, pointer and typed-nil-pointer call; and a third call after the caller has overwritten everything reachable from the first result) + Schema.Codec returns without panic; plus every history of length<=3 over {generate, register schema 1, register schema 2 for the inner named type} on fresh generic types, each generation compared with the mapping under the registrations in force at that moment; non-trivial = the mapping defines a verdict (schema or must-fail) for the type"
		},
		Assumptions: []string{
			"Go arrays are not mentioned by the documented mapping: types containing them are exercised (no panic, determinism, validity) but their schema is not judged",
			"embedded struct fields are ordinary fields named after their type (the documentation promises no flattening)",
			"non-string-keyed maps, unsigned integers, complex, chan, func, interface, unsafe.Pointer and self-referential types cannot be expressed: an error is required",
			"anonymous struct types have no name and are exempt from 'every named type is defined once'",
		},
		Init: initC15,
		NumCases: func(tier string) int {
			n, solos, _ := layout(tier)
			return n + len(solos) + 1
		},
		RunCase: func(c *fw.Ctx, idx int) {
			n, solos, normal := layout(c.Tier)
			if idx == n+len(solos) {
				c.Begin("history", "generate/register histories")
				runHistories(c)
				return
			}
			if idx >= n {
				runType(c, solos[idx-n])
				c.Sample(map[string]interface{}{"type": solos[idx-n].name, "kind": "self-referential"})
				return
			}
			for k := idx * chunk; k < (idx+1)*chunk && k < len(normal); k++ {
				runType(c, normal[k])
				if k%301 == 0 {
					c.Sample(map[string]interface{}{"type": normal[k].name})
				}
			}
		},
		StallTimeout: 300 * time.Second,
		Budget:       func(tier string) time.Duration { return 30 * time.Minute },
	})
}

// Package c0304 holds C03 (the reader decodes every spec-legal encoding) and
// C04 (projection / skip equivalence).
package c0304

import (
	"fmt"
	"reflect"

	"verifharness/filedrv"
	"verifharness/fw"
	"verifharness/gv"
	"verifharness/ref"
)

var sync16 = [16]byte{9, 8, 7, 6, 5, 4, 3, 2, 1, 0, 0xaa, 0xbb, 0xcc, 0xdd, 0xee, 0xff}

// fileCase is one reference-written file plus the datums it holds.
type fileCase struct {
	schema  *ref.Schema // record schema
	datums  []ref.Datum
	encoded [][]byte // one chosen legal encoding per record
	comp    []int    // records per file block
	codec   string
	mode    int
	encDesc string
}

func (f fileCase) bytes() []byte {
	var blocks []ref.Block
	pos := 0
	for _, n := range f.comp {
		var p []byte
		for i := 0; i < n; i++ {
			p = append(p, f.encoded[pos]...)
			pos++
		}
		blocks = append(blocks, ref.Block{Count: int64(n), Payload: p})
	}
	data, _ := ref.WriteFile(ref.StdMeta(f.schema.Print(nil), f.codec, true), f.codec, sync16, blocks)
	return data
}

func (f fileCase) String() string {
	ds := ""
	for i, d := range f.datums {
		if i >= 4 {
			ds += fmt.Sprintf("; … (%d records)", len(f.datums))
			break
		}
		if i > 0 {
			ds += "; "
		}
		ds += d.String()
	}
	return fmt.Sprintf("schema %s datums [%s] encodings %s file-blocks %v codec %s reader %s", clip(f.schema.Print(nil), 300), clip(ds, 300), f.encDesc, f.comp, f.codec, filedrv.ModeName(f.mode))
}

func clip(s string, n int) string {
	if len(s) > n {
		return s[:n] + "…"
	}
	return s
}

// readAndCompare reads the file into target type t and compares with gv.Expect.
// locus is the signature locus; mustBuild says the (schema, type) pair is one
// the property promises to support.
func readAndCompare(c *fw.Ctx, f fileCase, data []byte, t reflect.Type, ptr bool, locus string, mustBuild bool) {
	c.Eval(1)
	desc := fmt.Sprintf("%s into %s", f, clip(t.String(), 200))
	det := map[string]interface{}{"schema": f.schema.Print(nil), "target": t.String(), "encodings": f.encDesc, "blocks": fmt.Sprint(f.comp), "codec": f.codec, "file_hex": fmt.Sprintf("%x", clipB(data, 400))}
	c.Begin(locus, desc)
	// expected values / expected failure point
	var want []reflect.Value
	failAt := -1
	for i, d := range f.datums {
		v := reflect.New(t).Elem()
		err := gv.Expect(f.schema, d, v)
		if err != nil {
			if _, ok := err.(*gv.ErrExpected); ok {
				failAt = i
				break
			}
			c.Count("abstraction_undefined_not_judged", 1)
			return
		}
		want = append(want, v)
	}
	res := filedrv.Read(data, f.mode, t, ptr, -1, nil)
	if res.Panic != nil {
		c.Violation("panic:"+fw.PanicClass(res.Panic)+"@"+res.Site+"|"+locus, fmt.Sprintf("ReadFile panicked: %v — %s", res.Panic, desc), det)
		return
	}
	c.Nontrivial(desc)
	if failAt >= 0 {
		// an integer that does not fit: error, and no callback for that record
		if res.Err == nil {
			c.Violation("missing-error|"+locus+"|out-of-range", fmt.Sprintf("record %d holds a value that does not fit the Go field, but ReadFile returned nil and delivered %d records — %s", failAt, len(res.Records), desc), det)
			return
		}
		if len(res.Records) > failAt {
			c.Violation("record-delivered-despite-error|"+locus, fmt.Sprintf("record %d does not fit, yet %d records were delivered — %s", failAt, len(res.Records), desc), det)
		}
		// records of earlier blocks must have been delivered intact
		for i := 0; i < len(res.Records) && i < failAt; i++ {
			if path, dl, vc := gv.DiffLocus(want[i], res.Records[i]); path != "" {
				c.Violation("wrong-value|"+dl+"|"+vc, fmt.Sprintf("record %d decoded as %s, expected %s (difference at %s) — %s", i, clip(gv.Show(res.Records[i]), 200), clip(gv.Show(want[i]), 200), path, desc), det)
				return
			}
		}
		return
	}
	if res.Err != nil {
		sym := "read-error"
		if mustBuild && isBuildError(res.Err) {
			sym = "build-refused"
		}
		c.Violation(sym+"|"+locus, fmt.Sprintf("ReadFile failed: %v — %s", res.Err, desc), det)
		return
	}
	if len(res.Records) != len(want) {
		c.Violation("wrong-record-count|"+locus, fmt.Sprintf("%d records delivered, the file holds %d — %s", len(res.Records), len(want), desc), det)
		return
	}
	for i := range want {
		if path, dl, vc := gv.DiffLocus(want[i], res.Records[i]); path != "" {
			c.Violation("wrong-value|"+dl+"|"+vc, fmt.Sprintf("record %d decoded as %s, the datum is %s = %s (difference at %s) — %s", i, clip(gv.Show(res.Records[i]), 200), clip(f.datums[i].String(), 200), clip(gv.Show(want[i]), 200), path, desc), det)
			return
		}
	}
}

func isBuildError(err error) bool {
	s := err.Error()
	return len(s) >= 21 && s[:21] == "failed to build codec"
}

func clipB(b []byte, n int) []byte {
	if len(b) > n {
		return b[:n]
	}
	return b
}

// nestedReadAndCompare: ReadNested (a second reader of the same file alive inside the first one's callback); the
// outer reader's records are compared with the expected values (only for files all of whose datums fit the target).
func nestedReadAndCompare(c *fw.Ctx, f fileCase, data []byte, t reflect.Type, locus string) {
	var want []reflect.Value
	for _, d := range f.datums {
		v := reflect.New(t).Elem()
		if err := gv.Expect(f.schema, d, v); err != nil {
			return
		}
		want = append(want, v)
	}
	c.Eval(1)
	desc := fmt.Sprintf("%s into %s, with a second complete ReadFile of the same file run from inside the callback of record 0", f, clip(t.String(), 200))
	det := map[string]interface{}{"schema": f.schema.Print(nil), "target": t.String(), "blocks": fmt.Sprint(f.comp), "codec": f.codec}
	c.Begin(locus, desc)
	res, innerN, innerErr := filedrv.ReadNested(data, data, f.mode, t, 0)
	if res.Panic != nil {
		c.Violation("panic:"+fw.PanicClass(res.Panic)+"@"+res.Site+"|"+locus, fmt.Sprintf("ReadFile panicked: %v — %s", res.Panic, desc), det)
		return
	}
	c.Nontrivial(desc)
	if res.Err != nil || innerErr != nil || len(res.Records) != len(want) || innerN != len(want) {
		c.Violation("read-error|"+locus, fmt.Sprintf("outer: %d records err=%v; inner: %d records err=%v; the file holds %d — %s", len(res.Records), res.Err, innerN, innerErr, len(want), desc), det)
		return
	}
	for i := range want {
		if path, dl, vc := gv.DiffLocus(want[i], res.Records[i]); path != "" {
			c.Violation("wrong-value|"+dl+"|"+vc+"|nested-reader", fmt.Sprintf("record %d of the outer reader decoded as %s, the datum is %s (difference at %s) — %s", i, clip(gv.Show(res.Records[i]), 200), clip(f.datums[i].String(), 200), path, desc), det)
			return
		}
	}
}

package c0304

import (
	"fmt"
	"reflect"
	"strings"
	"unsafe"

	"github.com/philpearl/avro"

	"verifharness/fw"
	"verifharness/ref"
)

// lengthSweep: length-prefixed things (string, bytes, map keys, the same inside a nullable union and an array) at
// EVERY length 0..1100 and around every power of two up to 2^21 — the prefix is a varint whose own length changes
// at 64, 8192, 1048576: Read, the record skip path and Codec.Skip must consume exactly what the reference decoder
// consumes.
func lengthSweep(c *fw.Ctx) {
	str := reflect.TypeOf("")
	type shape struct {
		name   string
		schema *ref.Schema
		typ    reflect.Type
		mk     func(payload string) ref.Datum
	}
	shapes := []shape{
		{"string", ref.Prim("string"), str, func(p string) ref.Datum { return ref.DString(p) }},
		{"bytes", ref.Prim("bytes"), reflect.TypeOf([]byte(nil)), func(p string) ref.Datum { return ref.DBytes(p) }},
		{"[null,string]", ref.Union(ref.Prim("null"), ref.Prim("string")), reflect.PointerTo(str), func(p string) ref.Datum { return ref.DUnion(1, ref.DString(p)) }},
		{"array>string", ref.Array(ref.Prim("string")), reflect.SliceOf(str), func(p string) ref.Datum { return ref.DArray(ref.DString("x"), ref.DString(p)) }},
		{"map-key", ref.Map(ref.Prim("long")), reflect.MapOf(str, reflect.TypeOf(int64(0))), func(p string) ref.Datum {
			return ref.DMap([]string{p}, []ref.Datum{ref.DLong(7)})
		}},
	}
	var lens []int
	for l := 0; l <= 1100; l++ {
		lens = append(lens, l)
	}
	for k := 11; k <= 21; k++ {
		lens = append(lens, 1<<k-1, 1<<k, 1<<k+1)
	}
	big := strings.Repeat("abcdefghij", (1<<21)/10+2)
	tail := []byte{0x7f, 0x7e, 0x7d}
	for _, sh := range shapes {
		rs := ref.Record("Top", ref.F("f", sh.schema))
		schemaJSON := rs.Print(nil)
		s, err := avro.SchemaFromString(schemaJSON)
		if err != nil {
			c.Violation("schema-rejected|length-sweep|"+sh.name, err.Error(), schemaJSON)
			continue
		}
		full := reflect.StructOf([]reflect.StructField{{Name: "F", Type: sh.typ, Tag: `json:"f"`}})
		empty := reflect.StructOf([]reflect.StructField{{Name: "Other", Type: reflect.TypeOf(int64(0)), Tag: `json:"other"`}})
		var readC, skipC, skipNil avro.Codec
		if c.Guard("length-sweep|build", schemaJSON, schemaJSON, func() {
			readC, err = s.Codec(reflect.New(full).Elem().Interface())
			if err == nil {
				skipC, err = s.Codec(reflect.New(empty).Elem().Interface())
			}
			if err == nil {
				skipNil, err = s.Codec(struct{}{})
			}
		}) {
			continue
		}
		if err != nil {
			c.Violation("build-refused|length-sweep|"+sh.name, fmt.Sprintf("Schema.Codec failed: %v — %s", err, schemaJSON), schemaJSON)
			continue
		}
		for _, l := range lens {
			if c.Expired() {
				c.NotExhaustive("budget ran out inside the length sweep")
				return
			}
			enc := ref.Encode(rs, ref.DRecord(sh.mk(big[:l])))
			buf := append(append([]byte(nil), enc...), tail...)
			c.Eval(1)
			locus := "length-sweep|" + sh.name
			desc := fmt.Sprintf("%s of length %d (encoding of %d bytes)", sh.name, l, len(enc))
			c.Begin(locus, desc)
			var rerr, serr, s2err error
			var rleft, sleft, s2left int
			if c.Guard(locus, desc, desc, func() {
				v := reflect.New(full).Elem()
				rb := avro.NewReadBuf(buf)
				rerr = readC.Read(rb, unsafe.Pointer(v.UnsafeAddr()))
				rleft = rb.Len()
				v2 := reflect.New(empty).Elem()
				sb := avro.NewReadBuf(buf)
				serr = skipC.Read(sb, unsafe.Pointer(v2.UnsafeAddr()))
				sleft = sb.Len()
				s2b := avro.NewReadBuf(buf)
				s2err = skipNil.Skip(s2b)
				s2left = s2b.Len()
			}) {
				continue
			}
			c.Nontrivial(locus + fmt.Sprint(l))
			switch {
			case rerr != nil || serr != nil || s2err != nil:
				c.Violation("skip-error|"+locus, fmt.Sprintf("Read: %v, skip path: %v, Codec.Skip: %v — %s", rerr, serr, s2err, desc), desc)
			case rleft != len(tail) || sleft != len(tail) || s2left != len(tail):
				c.Violation("skip-consumed-differs|"+locus, fmt.Sprintf("bytes left after Read = %d, after skipping the field = %d, after Codec.Skip = %d; the encoding ends %d bytes before the end — %s", rleft, sleft, s2left, len(tail), desc), desc)
			}
		}
	}
	c.Sample(map[string]interface{}{"kind": "length sweep", "lengths": len(lens), "shapes": len(shapes)})
}

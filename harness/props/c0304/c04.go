package c0304

import (
	"fmt"
	"reflect"
	"time"
	"unsafe"

	"github.com/philpearl/avro"

	"verifharness/explore"
	"verifharness/filedrv"
	"verifharness/fw"
	"verifharness/gv"
	"verifharness/ref"
	"verifharness/reg"
	"verifharness/univ"
)

// ---- part 1: codec level — Skip consumes exactly what Read consumes (and what the reference decoder consumes)

func skipVsRead(c *fw.Ctx, idx int, n univ.SNode) {
	rs := ref.Record("Top", ref.F("f", n.Schema))
	schemaJSON := rs.Print(nil)
	s, err := avro.SchemaFromString(schemaJSON)
	if err != nil {
		c.Violation("schema-rejected|"+n.Chain, err.Error(), schemaJSON)
		return
	}
	ft := targets3(n)[0]
	full := reflect.StructOf([]reflect.StructField{{Name: "F", Type: ft, Tag: `json:"f"`}})
	empty := reflect.StructOf([]reflect.StructField{{Name: "Other", Type: reflect.TypeOf(int64(0)), Tag: `json:"other"`}})
	var readC, skipC, skipNil avro.Codec
	if c.Guard(n.Chain+"|build", schemaJSON, schemaJSON, func() {
		readC, err = s.Codec(reflect.New(full).Elem().Interface())
		if err == nil {
			skipC, err = s.Codec(reflect.New(empty).Elem().Interface())
		}
		if err == nil {
			skipNil, err = s.Codec(struct{}{})
		}
	}) {
		return
	}
	if err != nil {
		c.Violation("build-refused|"+n.Chain, fmt.Sprintf("Schema.Codec failed: %v — %s", err, schemaJSON), schemaJSON)
		return
	}
	tail := []byte{0x7f, 0x7e, 0x7d}
	encCap := int64(0)
	if c.Tier != "thorough" {
		encCap = 256
	} else if n.Depth >= 3 {
		encCap = 256 // block splittings multiply with nesting (see C03); depth <= 1 stays uncapped
	} else if n.Depth == 2 {
		encCap = 20000
	}
	for _, d := range datums3(n) {
		if c.Expired() {
			c.NotExhaustive("budget ran out inside " + n.Chain)
			return
		}
		rec := ref.DRecord(d)
		explore.Run(-1, encCap, func(ch *explore.Chooser) {
			e := &ref.Enc{Ch: ch}
			enc := e.Encode(nil, rs, rec)
			buf := append(append([]byte(nil), enc...), tail...)
			c.Eval(1)
			desc := fmt.Sprintf("schema %s datum %s encoding %x (choices %v)", clip(n.Schema.Print(nil), 200), clip(d.String(), 200), clipB(enc, 80), ch.Taken)
			det := map[string]interface{}{"schema": schemaJSON, "encoding": fmt.Sprintf("%x", enc), "datum": d.String()}
			c.Begin(n.Chain, desc)
			_, used, derr := ref.Decode(rs, buf)
			if derr != nil || used != len(enc) {
				c.Violation("harness-reference-decoder-disagrees|"+n.Chain, fmt.Sprintf("reference decoder: used %d of %d err=%v — %s", used, len(enc), derr, desc), det)
				return
			}
			var rerr, serr, s2err error
			var rleft, sleft, s2left int
			if c.Guard(n.Chain+"|read-or-skip", desc, det, func() {
				v := reflect.New(full).Elem()
				rb := avro.NewReadBuf(buf)
				rerr = readC.Read(rb, unsafe.Pointer(v.UnsafeAddr()))
				rleft = rb.Len()
				v2 := reflect.New(empty).Elem()
				sb := avro.NewReadBuf(buf)
				serr = skipC.Read(sb, unsafe.Pointer(v2.UnsafeAddr()))
				sleft = sb.Len()
				if v2.Field(0).Int() != 0 {
					serr = fmt.Errorf("field absent from the data was modified: %d", v2.Field(0).Int())
				}
				s2b := avro.NewReadBuf(buf)
				s2err = skipNil.Skip(s2b)
				s2left = s2b.Len()
			}) {
				return
			}
			c.Nontrivial(desc)
			if _, isErr := gv.Expect(rs, rec, reflect.New(full).Elem()).(*gv.ErrExpected); isErr {
				// decoding must fail; skipping must still work
				rerr, rleft = nil, len(tail)
			}
			switch {
			case rerr != nil:
				c.Violation("read-error|"+n.Chain, fmt.Sprintf("Read failed: %v — %s", rerr, desc), det)
			case serr != nil:
				c.Violation("skip-error|"+n.Chain, fmt.Sprintf("skipping the field (record codec, field missing from the struct) failed: %v — %s", serr, desc), det)
			case s2err != nil:
				c.Violation("skip-error|"+n.Chain, fmt.Sprintf("Codec.Skip failed: %v — %s", s2err, desc), det)
			case rleft != len(tail):
				c.Violation("read-consumed-wrong|"+n.Chain, fmt.Sprintf("Read left %d bytes, the encoding ends %d bytes before the end — %s", rleft, len(tail), desc), det)
			case sleft != rleft || s2left != rleft:
				c.Violation("skip-consumed-differs|"+n.Chain, fmt.Sprintf("Len() after Read = %d, after skipping the field = %d, after Codec.Skip = %d — %s", rleft, sleft, s2left, desc), det)
			}
		}, nil)
	}
}

// ---- part 2: file level — projections of a full target

type fieldDef struct {
	name   string // Go field name
	json   string
	schema *ref.Schema
	typ    reflect.Type
}

func pool() []univ.SNode {
	mk := func(s *ref.Schema, chain string) univ.SNode { return univ.SNode{Schema: s, Chain: chain, Depth: 2} }
	leaf := ref.Record("PLeaf", ref.F("a", ref.Prim("long")), ref.F("b", ref.Prim("string")))
	return []univ.SNode{
		mk(ref.Prim("long"), "long"), mk(ref.Prim("string"), "string"), mk(ref.Prim("bytes"), "bytes"), mk(&ref.Schema{Type: "fixed", Name: "F4", Size: 4}, "fixed4"),
		mk(ref.Prim("double"), "double"), mk(ref.Prim("float"), "float"), mk(ref.Prim("boolean"), "boolean"), mk(ref.Prim("int"), "int"),
		mk(ref.Array(ref.Prim("string")), "array>string"), mk(ref.Array(ref.Union(ref.Prim("null"), ref.Prim("long"))), "array>union01>long"),
		mk(ref.Map(ref.Prim("long")), "map>long"), mk(ref.Map(ref.Array(ref.Prim("string"))), "map>array>string"),
		mk(ref.Union(ref.Prim("null"), ref.Prim("string")), "union01>string"), mk(ref.Union(ref.Prim("string"), ref.Prim("null")), "union10>string"),
		mk(leaf, "record"), mk(ref.Array(leaf), "array>record"),
		mk(ref.Union(ref.Prim("null"), ref.Prim("long"), ref.Prim("string")), "union[null,long,string]"),
		mk(ref.Array(ref.Array(ref.Prim("bytes"))), "array>array>bytes"),
		// nullable unions decoded into NARROW non-pointer fields (null leaves the field alone): with the fields of
		// the target permuted or thinned out, an already decoded neighbour sits right behind them
		mk(ref.Union(ref.Prim("null"), ref.Prim("int")), "union01>int(int32)"), mk(ref.Union(ref.Prim("boolean"), ref.Prim("null")), "union10>boolean(bool)"),
	}
}

// wideUnion: 130 branches (null, long, string, then distinctly named fixed types of 1..3 bytes): from branch 64 on
// the zig-zag selector takes two bytes
func wideUnion() univ.SNode {
	bs := []*ref.Schema{ref.Prim("null"), ref.Prim("long"), ref.Prim("string")}
	for i := 3; i < 130; i++ {
		bs = append(bs, ref.Fixed(fmt.Sprintf("W%03d", i), i%3+1))
	}
	return univ.SNode{Schema: ref.Union(bs...), Chain: "union[130 branches]", Depth: 2}
}

func poolDatums(n univ.SNode) []ref.Datum {
	if n.Chain == "union[130 branches]" {
		ds := []ref.Datum{ref.DUnion(0, ref.DNull()), ref.DUnion(1, ref.DLong(-3)), ref.DUnion(2, ref.DString("wide"))}
		for i := 3; i < 130; i++ {
			ds = append(ds, ref.DUnion(i, ref.DFixed("abc"[:i%3+1])))
		}
		return ds
	}
	if n.Chain == "union[null,long,string]" {
		return []ref.Datum{ref.DUnion(0, ref.DNull()), ref.DUnion(2, ref.DString("str")), ref.DUnion(1, ref.DLong(-77))}
	}
	if n.Chain == "union01>int(int32)" {
		return []ref.Datum{ref.DUnion(0, ref.DNull()), ref.DUnion(1, ref.DInt(-7)), ref.DUnion(0, ref.DNull())}
	}
	if n.Chain == "union10>boolean(bool)" {
		return []ref.Datum{ref.DUnion(1, ref.DNull()), ref.DUnion(0, ref.DBool(true)), ref.DUnion(1, ref.DNull())}
	}
	if n.Chain == "record" {
		return []ref.Datum{ref.DRecord(ref.DLong(0), ref.DString("")), ref.DRecord(ref.DLong(-5), ref.DString("five")), ref.DRecord(ref.DLong(1<<60), ref.DString("\xff"))}
	}
	if n.Chain == "array>record" {
		return []ref.Datum{ref.DArray(), ref.DArray(ref.DRecord(ref.DLong(1), ref.DString("x")), ref.DRecord(ref.DLong(2), ref.DString(""))), ref.DArray(ref.DRecord(ref.DLong(-1), ref.DString("only")))}
	}
	return univ.Datums(n.Schema, false)
}

// target Go type for a pool schema (nil for schemas that can only be skipped)
func poolTarget(n univ.SNode) reflect.Type {
	switch n.Chain {
	case "union01>int(int32)":
		return reflect.TypeOf(int32(0))
	case "union10>boolean(bool)":
		return reflect.TypeOf(false)
	case "union[null,long,string]":
		return nil
	case "record":
		return reflect.TypeOf(PLeaf{})
	case "array>record":
		return reflect.TypeOf([]PLeaf(nil))
	}
	return univ.Targets(n.Schema, false)[0]
}

type PLeaf struct {
	A int64  `json:"a"`
	B string `json:"b"`
}

var added = []reflect.StructField{
	{Name: "NewInt", Type: reflect.TypeOf(int64(0)), Tag: `json:"new_int"`},
	{Name: "NewStr", Type: reflect.TypeOf(""), Tag: `json:"new_str"`},
	{Name: "NewPtr", Type: reflect.TypeOf((*int64)(nil)), Tag: `json:"new_ptr"`},
	{Name: "NewSlice", Type: reflect.TypeOf([]string(nil)), Tag: `json:"new_slice"`},
	{Name: "NewMap", Type: reflect.TypeOf(map[string]int64(nil)), Tag: `json:"new_map"`},
	{Name: "NewStruct", Type: reflect.TypeOf(PLeaf{}), Tag: `json:"new_struct"`},
	// an embedded struct whose own fields are named like columns of the file: an embedded struct is an ordinary
	// field named after its type, so nothing matches and it stays zero — wherever it sits in the target
	{Name: "PEmb", Type: reflect.TypeOf(PEmb{}), Anonymous: true},
	{Name: "PEmb", Type: reflect.TypeOf(PEmb{}), Anonymous: true},
	// unexported fields are never decoded into, whatever their tag says
	{Name: "hiddenA", PkgPath: "verifharness/props/c0304", Type: reflect.TypeOf(int64(0)), Tag: `json:"a"`},
	{Name: "hiddenZ", PkgPath: "verifharness/props/c0304", Type: reflect.TypeOf(""), Tag: `json:"z"`},
}

// PEmb is embedded into projection targets; its field names collide with the writer's columns on purpose.
type PEmb struct {
	A int64  `json:"a"`
	Z int64  `json:"z"`
	B string `json:"b"`
}

func permsOf(n int) [][]int {
	if n == 0 {
		return [][]int{{}}
	}
	var out [][]int
	var rec func(cur []int, used uint)
	rec = func(cur []int, used uint) {
		if len(cur) == n {
			out = append(out, append([]int(nil), cur...))
			return
		}
		for i := 0; i < n; i++ {
			if used&(1<<uint(i)) == 0 {
				rec(append(cur, i), used|1<<uint(i))
			}
		}
	}
	rec(nil, 0)
	return out
}

// projections enumerates every target obtained from the full field list by
// deleting any subset, permuting the rest, and adding at most one new field
// (at the front or the back).
func projections(fields []reflect.StructField, f func(t reflect.Type, desc string)) {
	n := len(fields)
	for mask := 0; mask < 1<<uint(n); mask++ {
		var kept []reflect.StructField
		for i := 0; i < n; i++ {
			if mask&(1<<uint(i)) != 0 {
				kept = append(kept, fields[i])
			}
		}
		for _, perm := range permsOf(len(kept)) {
			var fs []reflect.StructField
			names := ""
			for _, j := range perm {
				fs = append(fs, kept[j])
				names += kept[j].Name
			}
			f(reflect.StructOf(fs), "keep["+names+"]")
			for ai, a := range added {
				var with []reflect.StructField
				if ai%2 == 0 {
					with = append([]reflect.StructField{a}, fs...)
				} else {
					with = append(append([]reflect.StructField{}, fs...), a)
				}
				f(reflect.StructOf(with), "keep["+names+"]+"+a.Name)
			}
		}
	}
}

// poisonBuild attempts a codec build that is bound to FAIL half-way (a struct whose fields carry every column name
// of the pairs but types no schema accepts): whatever the builder keeps in pooled or cached scratch state on its
// error paths is there for the next build.
type poisonT struct {
	A chan int `json:"a"`
	B chan int `json:"b"`
	Z chan int `json:"z"`
	R chan int `json:"r"`
	N chan int `json:"new_int"`
	S chan int `json:"new_str"`
}

func poisonBuild(rs *ref.Schema) {
	defer func() { recover() }()
	if s, err := avro.SchemaFromString(rs.Print(nil)); err == nil {
		s.Codec(poisonT{})
	}
}

func runPair(c *fw.Ctx, idx int, x, y univ.SNode, nested bool) {
	// writer schema: record{a:X, b:Y, z:long}  or  record{r: record{a:X, b:Y}, z:long}
	inner := []ref.Field{ref.F("a", x.Schema), ref.F("b", y.Schema)}
	var rs *ref.Schema
	var fields []reflect.StructField
	tx, ty := poolTarget(x), poolTarget(y)
	var innerFields []reflect.StructField
	if tx != nil {
		innerFields = append(innerFields, reflect.StructField{Name: "A", Type: tx, Tag: `json:"a"`})
	}
	if ty != nil {
		innerFields = append(innerFields, reflect.StructField{Name: "B", Type: ty, Tag: `json:"b"`})
	}
	zf := reflect.StructField{Name: "Z", Type: reflect.TypeOf(int64(0)), Tag: `json:"z"`}
	if nested {
		rs = ref.Record("Outer", ref.F("r", ref.Record("Inner", inner...)), ref.F("z", ref.Prim("long")), ref.F("Z", ref.Prim("string")))
	} else {
		// the last column, "Z", differs from "z" only in case: field names are matched exactly, so no target here
		// has a field for it and it is always skipped
		rs = ref.Record("Outer", append(inner, ref.F("z", ref.Prim("long")), ref.F("Z", ref.Prim("string")))...)
		fields = append(innerFields, zf)
	}
	dx, dy := poolDatums(x), poolDatums(y)
	// records: (x_i, y_i) diagonal plus (x_0, y_last): null-ish after non-null and the reverse
	var recs []ref.Datum
	for i := 0; i < 3; i++ {
		a, b := dx[i%len(dx)], dy[(i+1)%len(dy)]
		if nested {
			recs = append(recs, ref.DRecord(ref.DRecord(a, b), ref.DLong(sentinel+int64(i)), ref.DString("twin")))
		} else {
			recs = append(recs, ref.DRecord(a, b, ref.DLong(sentinel+int64(i)), ref.DString("twin")))
		}
	}
	// encodings: every serialisation with at most 2 writer-side deviations, per record; files use the k-th variant of each
	variants := make([][][]byte, len(recs))
	maxV := 0
	for i, r := range recs {
		explore.Run(2, 0, func(ch *explore.Chooser) {
			e := &ref.Enc{Ch: ch}
			variants[i] = append(variants[i], e.Encode(nil, rs, r))
		}, nil)
		if len(variants[i]) > maxV {
			maxV = len(variants[i])
		}
	}
	k := 0
	for v := 0; v < maxV; v++ {
		encs := make([][]byte, len(recs))
		for i := range recs {
			encs[i] = variants[i][v%len(variants[i])]
		}
		comps := [][]int{{3}, {1, 2}, {1, 1, 1}}
		comp := comps[v%len(comps)]
		codec := []string{"null", "deflate", "snappy"}[v%3]
		f := fileCase{schema: rs, datums: recs, encoded: encs, comp: comp, codec: codec, mode: v % filedrv.NumReadModes, encDesc: fmt.Sprintf("variant %d", v)}
		data := f.bytes()
		locus := x.Chain + "," + y.Chain
		if nested {
			// projections of the inner struct, for each projection of the outer {R, Z}
			projections(innerFields, func(it reflect.Type, idesc string) {
				k++
				if v > 0 && k%5 != v%5 { // every inner projection on the first variant; a fifth of them on each further one
					return
				}
				outer := []reflect.StructField{{Name: "R", Type: it, Tag: `json:"r"`}, zf}
				if k%3 == 1 {
					outer = []reflect.StructField{zf, {Name: "R", Type: reflect.PointerTo(it), Tag: `json:"r"`}}
				}
				if k%7 == 3 {
					outer = outer[:1]
				}
				f2 := f
				f2.encDesc += " nested " + idesc
				readAndCompare(c, f2, data, reflect.StructOf(outer), false, "nested|"+locus, false)
			})
			continue
		}
		projections(fields, func(t reflect.Type, pdesc string) {
			k++
			if k%5 == 0 {
				poisonBuild(rs)
			}
			f2 := f
			f2.encDesc += " projection " + pdesc
			readAndCompare(c, f2, data, t, k%2 == 0, "projection|"+locus, false)
		})
	}
	if idx%29 == 0 {
		c.Sample(map[string]interface{}{"writer_schema": rs.Print(nil), "encoding_variants": maxV, "nested": nested})
	}
}

type task4 struct {
	name string
	run  func(c *fw.Ctx, idx int)
}

var memo4 = map[string][]task4{}

func tasks4(tier string) []task4 {
	if t, ok := memo4[tier]; ok {
		return t
	}
	var ts []task4
	for _, n := range schemas3(tier) {
		n := n
		ts = append(ts, task4{"skip-vs-read " + n.Chain, func(c *fw.Ctx, idx int) { skipVsRead(c, idx, n) }})
	}
	// skip-only schemas
	for _, n := range pool() {
		n := n
		if poolTarget(n) == nil {
			ts = append(ts, task4{"skip-only " + n.Chain, func(c *fw.Ctx, idx int) { skipOnly(c, n) }})
		}
	}
	ts = append(ts, task4{"length-sweep", func(c *fw.Ctx, idx int) { lengthSweep(c) }})
	ts = append(ts, task4{"projection-after-bank-reuse", func(c *fw.Ctx, idx int) { runProjectionReuse(c) }})
	wu := wideUnion()
	ts = append(ts, task4{"skip-only " + wu.Chain, func(c *fw.Ctx, idx int) { skipOnly(c, wu) }})
	p := pool()
	for _, x := range p {
		for _, y := range p {
			x, y := x, y
			ts = append(ts, task4{"projection " + x.Chain + "," + y.Chain, func(c *fw.Ctx, idx int) { runPair(c, idx, x, y, false) }})
			if tier == "thorough" || (len(x.Chain)+len(y.Chain))%3 == 0 {
				ts = append(ts, task4{"nested-projection " + x.Chain + "," + y.Chain, func(c *fw.Ctx, idx int) { runPair(c, idx, x, y, true) }})
			}
		}
	}
	memo4[tier] = ts
	return ts
}

// skipOnly: schemas without a Go counterpart (multi-branch unions) can still be skipped:
// Codec.Skip and the record-field skip path consume exactly the reference length.
func skipOnly(c *fw.Ctx, n univ.SNode) {
	rs := ref.Record("Top", ref.F("f", n.Schema))
	s, err := avro.SchemaFromString(rs.Print(nil))
	if err != nil {
		c.Violation("schema-rejected|"+n.Chain, err.Error(), rs.Print(nil))
		return
	}
	codec, err := s.Codec(struct{}{})
	if err != nil {
		c.Violation("build-refused|"+n.Chain, fmt.Sprintf("a codec for skipping could not be built: %v", err), rs.Print(nil))
		return
	}
	for _, d := range poolDatums(n) {
		rec := ref.DRecord(d)
		ref.AllEncodings(rs, rec, 0, func(enc []byte, vec []int) {
			c.Eval(1)
			buf := append(append([]byte(nil), enc...), 0x11, 0x22)
			desc := fmt.Sprintf("skip-only schema %s datum %s encoding %x", n.Schema.Print(nil), d, enc)
			c.Nontrivial(desc)
			var left1, left2 int
			var e1, e2 error
			if c.Guard(n.Chain+"|skip", desc, desc, func() {
				b1 := avro.NewReadBuf(buf)
				var v struct{}
				e1 = codec.Read(b1, unsafe.Pointer(&v))
				left1 = b1.Len()
				b2 := avro.NewReadBuf(buf)
				e2 = codec.Skip(b2)
				left2 = b2.Len()
			}) {
				return
			}
			if e1 != nil || e2 != nil || left1 != 2 || left2 != 2 {
				c.Violation("skip-consumed-differs|"+n.Chain, fmt.Sprintf("skip left %d / %d bytes (errors %v / %v), the encoding ends 2 bytes before the end — %s", left1, left2, e1, e2, desc), desc)
			}
		})
	}
}

func init() {
	fw.Register(&fw.Check{
		ID:    "C04",
		Level: "exploration",
		Rule: func(tier string) string {
			return "(1) codec level: for every schema node of the C03 universe, every datum and every legal serialisation (first 256 per datum in quick; thorough: all at depth<=1, first 20000 at depth 2, first 256 at depth 3) followed by a 3-byte tail, ReadBuf.Len() after Codec.Read, after reading through a record codec whose struct lacks the field (skip path), and after Codec.Skip must all equal the reference decoder's consumption — and the same for string, bytes, map keys, [null,string] and array<string> at EVERY length 0..1100 and 2^k-1, 2^k, 2^k+1 up to 2^21 (the length prefix is itself a varint); (2) file level: writer schemas record{a:X, b:Y, z:long, Z:string} (the column Z differs from z only in case and has no counterpart in any target) for every ordered pair (X,Y) of a 20-schema pool (primitives, nullable int/boolean into narrow non-pointer fields, fixed, arrays/maps incl. nested and nullable items, unions null-first/null-second/multi-branch, records, arrays of records; and, skip-only, a 130-branch union with every branch selected so that two-byte selectors occur) and the nested form record{r:record{a:X,b:Y}, z}; 3-record reference-written files in every encoding variant with <=2 writer-side deviations, rotating over block partitions and codecs; every projection of the full target struct: every subset of fields deleted × every permutation of the rest × {nothing, or one added field of kind int64/string/*int64/[]string/map[string]int64/struct, an embedded struct whose field names collide with the columns (before and after the kept fields), an unexported field tagged with a column's name}; every fifth projection build is preceded by a build that fails half-way (a struct with the same column names and unusable types); (3) a file WITH two nested columns read with banks closed per record, then files WITHOUT them — every sequence of <=4 rows holding 0/1/3 nested records — read into the same Go type from the recycled banks: the absent fields of reader-allocated records are zero; oracle: remaining fields equal gv.Expect, added fields zero, same record count, nil error (the trailing sync check makes a mis-sized skip visible); non-trivial = a distinct (file, projection) or (encoding) that reached the comparison"
		},
		Assumptions: []string{
			"the expected value of every remaining field is computed by gv.Expect from the datum (stronger than, and implying, the differential 'same as the full decode')",
			"quick tier explores the nested form for a third of the pairs; thorough for all",
		},
		Init:     func(c *fw.Ctx) { reg.Init() },
		NumCases: func(tier string) int { return len(tasks4(tier)) },
		RunCase: func(c *fw.Ctx, idx int) {
			t := tasks4(c.Tier)[idx]
			c.Begin("c04", t.name)
			t.run(c, idx)
		},
		Budget: func(tier string) time.Duration { return 40 * time.Minute },
	})
}

package c0304

import (
	"fmt"
	"reflect"

	"verifharness/explore"
	"verifharness/filedrv"
	"verifharness/fw"
	"verifharness/gv"
	"verifharness/ref"
	"verifharness/univ"
)

// Sibling fields: one record with several fields of the SAME Go type whose schemas agree in their outermost type
// name but differ below it (null first / null second, timestamp-millis / -micros / plain, array<int> / array<long>,
// two fixed types, two record schemas for one struct type ...). Each field must be decoded under ITS schema:
// whatever the reader derives once per (type, schema-ish) key must not leak from one field to the next.

type sibGroup struct {
	name    string
	typ     reflect.Type
	schemas []*ref.Schema
}

func sibGroups() []sibGroup {
	p := ref.Prim
	nl := func(s *ref.Schema) *ref.Schema { return ref.Union(p("null"), s) }
	ln := func(s *ref.Schema) *ref.Schema { return ref.Union(s, p("null")) }
	i64 := reflect.TypeOf(int64(0))
	pi64 := reflect.PointerTo(i64)
	str := reflect.TypeOf("")
	millis, micros, date := ref.Logical("long", "timestamp-millis"), ref.Logical("long", "timestamp-micros"), ref.Logical("int", "date")
	recX := func(name string, x *ref.Schema) *ref.Schema { return ref.Record(name, ref.F("x", x)) }
	stX := reflect.StructOf([]reflect.StructField{{Name: "X", Type: pi64, Tag: `json:"x"`}})
	return []sibGroup{
		{"*int64", pi64, []*ref.Schema{nl(p("long")), ln(p("long")), p("long"), nl(p("int"))}},
		{"time.Time", gv.TimeT, []*ref.Schema{millis, micros, p("long"), date}},
		{"*time.Time", reflect.PointerTo(gv.TimeT), []*ref.Schema{nl(millis), nl(micros), ln(millis), nl(p("long"))}},
		{"[]*int64", reflect.SliceOf(pi64), []*ref.Schema{ref.Array(nl(p("long"))), ref.Array(ln(p("long"))), ref.Array(p("long"))}},
		{"map[string]*int64", reflect.MapOf(str, pi64), []*ref.Schema{ref.Map(nl(p("long"))), ref.Map(ln(p("long")))}},
		{"[]int64", reflect.SliceOf(i64), []*ref.Schema{ref.Array(p("long")), ref.Array(p("int"))}},
		{"[]time.Time", reflect.SliceOf(gv.TimeT), []*ref.Schema{ref.Array(millis), ref.Array(micros)}},
		{"[4]byte", reflect.TypeOf([4]byte{}), []*ref.Schema{ref.Fixed("FA", 4), ref.Fixed("FB", 4)}},
		{"struct{X *int64}", stX, []*ref.Schema{recX("RA", nl(p("long"))), recX("RB", ln(p("long"))), recX("RC", p("long"))}},
		{"*string", reflect.PointerTo(str), []*ref.Schema{nl(p("string")), ln(p("string")), p("string")}},
		{"null.Int", gv.NullIntT, []*ref.Schema{nl(p("long")), ln(p("long")), p("long")}},
		{"float32", reflect.TypeOf(float32(0)), []*ref.Schema{p("float"), p("double")}},
		{"int32", reflect.TypeOf(int32(0)), []*ref.Schema{p("int"), p("long")}},
	}
}

func runSiblings3(c *fw.Ctx) {
	k := 0
	for _, g := range sibGroups() {
		for _, omit := range []bool{false, true} {
			tag := func(n string) reflect.StructTag {
				if omit {
					return reflect.StructTag(fmt.Sprintf(`json:"%s,omitempty"`, n))
				}
				return reflect.StructTag(fmt.Sprintf(`json:"%s"`, n))
			}
			st := reflect.StructOf([]reflect.StructField{{Name: "A", Type: g.typ, Tag: tag("a")}, {Name: "B", Type: g.typ, Tag: tag("b")}, {Name: "C", Type: g.typ, Tag: tag("c")}, {Name: "Z", Type: reflect.TypeOf(int64(0)), Tag: `json:"z"`}})
			// every triple of the group's schemas with at least two different ones
			explore.Sequences(len(g.schemas), 3, func(ix []int) {
				if ix[0] == ix[1] && ix[1] == ix[2] {
					return
				}
				sa, sb, sc := g.schemas[ix[0]], g.schemas[ix[1]], g.schemas[ix[2]]
				rs := ref.Record("Top", ref.F("a", sa), ref.F("b", sb), ref.F("c", sc), ref.F("z", p64()))
				da, db, dc := univ.Datums(sa, false), univ.Datums(sb, false), univ.Datums(sc, false)
				var recs []ref.Datum
				var encs [][]byte
				for i := 0; i < 3; i++ {
					d := ref.DRecord(da[i%len(da)], db[(i+1)%len(db)], dc[(i+2)%len(dc)], ref.DLong(sentinel))
					recs = append(recs, d)
					encs = append(encs, ref.Encode(rs, d))
				}
				for _, comp := range [][]int{{1, 1, 1}, {3}} {
					k++
					f := fileCase{schema: rs, datums: recs, encoded: encs, comp: comp, codec: []string{"null", "deflate", "snappy"}[k%3], mode: k % filedrv.NumReadModes, encDesc: "default"}
					readAndCompare(c, f, f.bytes(), st, false, fmt.Sprintf("sibling-fields|%s", g.name), true)
				}
			})
		}
	}
	c.Sample(map[string]interface{}{"kind": "sibling fields of one Go type under different schemas", "groups": len(sibGroups()), "files": k})
}

func p64() *ref.Schema { return ref.Prim("long") }

// Records that encode to zero bytes: a block then carries a count and an empty payload, under every codec.
func runZeroWidth3(c *fw.Ctx) {
	pi64 := reflect.PointerTo(reflect.TypeOf(int64(0)))
	inner := ref.Record("Inner", ref.F("m", ref.Prim("null")))
	cases := []struct {
		schema *ref.Schema
		typ    reflect.Type
		rec    ref.Datum
	}{
		{ref.Record("Top"), reflect.TypeOf(struct{}{}), ref.DRecord()},
		{ref.Record("Top", ref.F("n", ref.Prim("null"))), reflect.StructOf([]reflect.StructField{{Name: "N", Type: pi64, Tag: `json:"n"`}}), ref.DRecord(ref.DNull())},
		{ref.Record("Top", ref.F("n", ref.Prim("null")), ref.F("r", inner)), reflect.StructOf([]reflect.StructField{{Name: "N", Type: pi64, Tag: `json:"n"`},
			{Name: "R", Type: reflect.StructOf([]reflect.StructField{{Name: "M", Type: pi64, Tag: `json:"m"`}}), Tag: `json:"r"`}}), ref.DRecord(ref.DNull(), ref.DRecord(ref.DNull()))},
		{ref.Record("Top", ref.F("n", ref.Prim("null"))), reflect.TypeOf(struct{}{}), ref.DRecord(ref.DNull())},
	}
	k := 0
	for ci, cs := range cases {
		var comps [][]int
		for n := 1; n <= 4; n++ {
			comps = append(comps, explore.Compositions(n)...)
		}
		comps = append(comps, []int{70}, []int{3000, 1}, []int{1, 70000})
		for _, comp := range comps {
			total := 0
			for _, n := range comp {
				total += n
			}
			recs := make([]ref.Datum, total)
			encs := make([][]byte, total)
			for i := range recs {
				recs[i], encs[i] = cs.rec, nil
			}
			for _, codec := range []string{"null", "deflate", "snappy"} {
				k++
				f := fileCase{schema: cs.schema, datums: recs, encoded: encs, comp: comp, codec: codec, mode: k % filedrv.NumReadModes, encDesc: "zero bytes per record"}
				readAndCompare(c, f, f.bytes(), cs.typ, false, fmt.Sprintf("zero-width-records|%d|%s", ci, codec), true)
			}
		}
	}
	c.Sample(map[string]interface{}{"kind": "records of zero encoded width", "files": k})
}

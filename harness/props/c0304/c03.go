package c0304

import (
	"fmt"
	"reflect"
	"strings"
	"time"

	"verifharness/explore"
	"verifharness/filedrv"
	"verifharness/fw"
	"verifharness/gv"
	"verifharness/ref"
	"verifharness/reg"
	"verifharness/univ"
)

var memo3 = map[string][]univ.SNode{}

func schemas3(tier string) []univ.SNode {
	if s, ok := memo3[tier]; ok {
		return s
	}
	d := 2
	if tier == "thorough" {
		d = 3
	}
	s := univ.DataSchemas(d, true)
	// multi-branch and single-branch unions with type-compatible branches
	extra := []univ.SNode{
		{Schema: ref.Union(ref.Prim("int"), ref.Prim("long")), Chain: "union[int,long]"},
		{Schema: ref.Union(ref.Prim("long"), ref.Prim("int")), Chain: "union[long,int]"},
		{Schema: ref.Union(ref.Prim("long")), Chain: "union[long]"},
		{Schema: ref.Union(ref.Prim("string")), Chain: "union[string]"},
		{Schema: ref.Union(ref.Prim("null"), ref.Prim("int"), ref.Prim("long")), Chain: "union[null,int,long]"},
		{Schema: ref.Array(ref.Union(ref.Prim("int"), ref.Prim("long"))), Chain: "array>union[int,long]", Depth: 1},
		{Schema: wideFixedUnion(), Chain: "union[70 x fixed4]", Depth: 1},
	}
	s = append(s, extra...)
	s = append(s, univ.SNode{Schema: ref.Prim("string"), Chain: "compressible-block"})
	s = append(s, univ.SNode{Schema: ref.Prim("long"), Chain: "sibling-fields"}, univ.SNode{Schema: ref.Prim("null"), Chain: "zero-width-records"})
	for sh := 0; sh < bankShapes; sh++ {
		s = append(s, univ.SNode{Schema: ref.Prim("long"), Chain: fmt.Sprintf("bank-cycling-%d", sh), Depth: sh})
	}
	memo3[tier] = s
	return s
}

// targets3 returns the compatible target field types of a schema node.
// wideFixedUnion: 70 distinctly named fixed(4) branches, all compatible with a [4]byte target; from branch 64 on the
// zig-zag selector takes two bytes.
func wideFixedUnion() *ref.Schema {
	var bs []*ref.Schema
	for i := 0; i < 70; i++ {
		bs = append(bs, ref.Fixed(fmt.Sprintf("WF%02d", i), 4))
	}
	return ref.Union(bs...)
}

func targets3(n univ.SNode) []reflect.Type {
	i64 := reflect.TypeOf(int64(0))
	switch n.Chain {
	case "union[70 x fixed4]":
		return []reflect.Type{reflect.TypeOf([4]byte{})}
	case "union[int,long]", "union[long,int]", "union[long]":
		return []reflect.Type{i64, reflect.TypeOf(int(0))}
	case "union[null,int,long]":
		return []reflect.Type{i64, reflect.TypeOf(int32(0))}
	case "union[string]":
		return []reflect.Type{reflect.TypeOf("")}
	case "array>union[int,long]":
		return []reflect.Type{reflect.SliceOf(i64)}
	}
	return univ.Targets(n.Schema, true)
}

func datums3(n univ.SNode) []ref.Datum {
	switch n.Chain {
	case "union[70 x fixed4]":
		var ds []ref.Datum
		for _, b := range []int{0, 1, 62, 63, 64, 65, 69} {
			ds = append(ds, ref.DUnion(b, ref.DFixed(fmt.Sprintf("%c%c%c%c", 'a'+b%26, 'A'+b%26, '0'+b%10, '!'))))
		}
		return ds
	case "union[int,long]":
		return []ref.Datum{ref.DUnion(0, ref.DInt(-7)), ref.DUnion(1, ref.DLong(1<<40)), ref.DUnion(1, ref.DLong(0))}
	case "union[long,int]":
		return []ref.Datum{ref.DUnion(1, ref.DInt(-7)), ref.DUnion(0, ref.DLong(1<<40))}
	case "union[long]":
		return []ref.Datum{ref.DUnion(0, ref.DLong(-1)), ref.DUnion(0, ref.DLong(1<<50))}
	case "union[string]":
		return []ref.Datum{ref.DUnion(0, ref.DString("héllo")), ref.DUnion(0, ref.DString(""))}
	case "union[null,int,long]":
		return []ref.Datum{ref.DUnion(0, ref.DNull()), ref.DUnion(1, ref.DInt(5)), ref.DUnion(2, ref.DLong(-1<<33))}
	case "array>union[int,long]":
		return []ref.Datum{ref.DArray(), ref.DArray(ref.DUnion(0, ref.DInt(1)), ref.DUnion(1, ref.DLong(-2)), ref.DUnion(0, ref.DInt(3)))}
	}
	return univ.Datums(n.Schema, n.Depth <= 1)
}

const sentinel = 0x5EED

// runCompressible: blocks of thousands of identical records (compression ratios far above 32:1) are legal too.
func runCompressible(c *fw.Ctx, n univ.SNode) {
	rs := ref.Record("Top", ref.F("f", n.Schema), ref.F("z", ref.Prim("long")))
	st := reflect.StructOf([]reflect.StructField{{Name: "F", Type: reflect.TypeOf(""), Tag: `json:"f"`}, {Name: "Z", Type: reflect.TypeOf(int64(0)), Tag: `json:"z"`}})
	for _, count := range []int{1000, 20000} {
		rec := ref.DRecord(ref.DString(strings.Repeat("same-text-", 3)), ref.DLong(sentinel))
		enc := ref.Encode(rs, rec)
		recs := make([]ref.Datum, count)
		encs := make([][]byte, count)
		for i := range recs {
			recs[i], encs[i] = rec, enc
		}
		for _, codec := range []string{"null", "deflate", "snappy"} {
			for _, comp := range [][]int{{count}, {count / 2, count - count/2}} {
				f := fileCase{schema: rs, datums: recs, encoded: encs, comp: comp, codec: codec, mode: filedrv.ModeFull, encDesc: fmt.Sprintf("%d identical records", count)}
				readAndCompare(c, f, f.bytes(), st, false, "compressible-block|"+codec, true)
			}
		}
	}
	c.Sample(map[string]interface{}{"kind": "highly compressible blocks", "records_per_file": []int{1000, 20000}})
}

func runNode3(c *fw.Ctx, idx int, n univ.SNode) {
	if n.Chain == "compressible-block" {
		runCompressible(c, n)
		return
	}
	if n.Chain == "sibling-fields" {
		runSiblings3(c)
		return
	}
	if n.Chain == "zero-width-records" {
		runZeroWidth3(c)
		return
	}
	if strings.HasPrefix(n.Chain, "bank-cycling-") {
		runBankCycling(c, n.Depth)
		return
	}
	rs := ref.Record("Top", ref.F("f", n.Schema), ref.F("z", ref.Prim("long")))
	rs2 := ref.Record("Top", ref.F("z", ref.Prim("long")), ref.F("f", n.Schema))
	sentinelEnc := ref.AppendLong(nil, sentinel)
	neighbourFor := func(ft reflect.Type) reflect.Type {
		return reflect.StructOf([]reflect.StructField{{Name: "F", Type: ft, Tag: `json:"f"`}, {Name: "Z", Type: reflect.TypeOf(int32(0)), Tag: `json:"z"`}, {Name: "Z2", Type: reflect.TypeOf(int32(0)), Tag: `json:"-"`}})
	}
	ds := datums3(n)
	targets := targets3(n)
	maxBlocks := 0
	encCap := int64(0)
	if c.Tier != "thorough" {
		encCap = 64
	} else if n.Depth >= 3 {
		encCap = 256 // nests multiply block splittings (a 12-item array alone has 2*3^11 encodings); depth <= 1 stays uncapped
	} else if n.Depth == 2 {
		encCap = 20000
	}
	k := 0
	structFor := func(ft reflect.Type) reflect.Type {
		return reflect.StructOf([]reflect.StructField{{Name: "F", Type: ft, Tag: `json:"f"`}, {Name: "Z", Type: reflect.TypeOf(int64(0)), Tag: `json:"z"`}})
	}
	// (A) single-record files: every datum × every legal encoding × every target
	type encd struct {
		b   []byte
		vec string
	}
	encsOf := map[int][]encd{}
	for di, d := range ds {
		rec := ref.DRecord(d, ref.DLong(sentinel))
		st := explore.Run(-1, encCap, func(ch *explore.Chooser) {
			e := &ref.Enc{Ch: ch, MaxBlocks: maxBlocks}
			out := e.Encode(nil, rs, rec)
			encsOf[di] = append(encsOf[di], encd{out, fmt.Sprint(ch.Taken)})
		}, nil)
		if st.Capped {
			c.Count(fmt.Sprintf("encoding_enumerations_capped_at_%d", encCap), 1)
		}
		c.Count("encodings_enumerated", st.Executions)
	}
	// a compatible target may also simply lack the field: the value is skipped and the sentinel must still be right
	lacking := reflect.StructOf([]reflect.StructField{{Name: "Z", Type: reflect.TypeOf(int64(0)), Tag: `json:"z"`}})
	for di, d := range ds {
		rec := ref.DRecord(d, ref.DLong(sentinel))
		for _, e := range encsOf[di] {
			if c.Expired() {
				c.NotExhaustive("budget ran out inside " + n.Chain)
				return
			}
			k++
			fl := fileCase{schema: rs, datums: []ref.Datum{rec}, encoded: [][]byte{e.b}, comp: []int{1}, codec: "null", mode: k % filedrv.NumReadModes, encDesc: e.vec}
			readAndCompare(c, fl, fl.bytes(), lacking, false, n.Chain+"|field-absent-from-target", true)
			for ti, ft := range targets {
				k++
				f := fileCase{schema: rs, datums: []ref.Datum{rec}, encoded: [][]byte{e.b}, comp: []int{1}, codec: "null", mode: k % filedrv.NumReadModes, encDesc: e.vec}
				locus := n.Chain + "|" + typeChain(ft)
				readAndCompare(c, f, f.bytes(), structFor(ft), ti%2 == 1, locus, true)
				if ft.Size() < 8 {
					// a narrow target with a narrow neighbour right behind it that the writer's schema puts FIRST
					// (fields match by name): decoding f must leave the already decoded neighbour alone
					k++
					dEnc := e.b[:len(e.b)-len(sentinelEnc)]
					f2 := fileCase{schema: rs2, datums: []ref.Datum{ref.DRecord(ref.DLong(sentinel), d)}, encoded: [][]byte{append(append([]byte(nil), sentinelEnc...), dEnc...)}, comp: []int{1}, codec: "null", mode: k % filedrv.NumReadModes, encDesc: e.vec}
					readAndCompare(c, f2, f2.bytes(), neighbourFor(ft), false, locus+"|narrow-neighbour", true)
				}
			}
		}
	}
	// (B) multi-record files: up to 3 records, every composition into file blocks, every codec; encodings rotate
	for nrec := 2; nrec <= 3 && nrec <= len(ds)+1; nrec++ {
		var recs []ref.Datum
		var encs [][]byte
		vec := ""
		for i := 0; i < nrec; i++ {
			di := i % len(ds)
			es := encsOf[di]
			e := es[(i*7+idx)%len(es)]
			recs = append(recs, ref.DRecord(ds[di], ref.DLong(sentinel)))
			encs = append(encs, e.b)
			vec += e.vec
		}
		for _, comp := range explore.Compositions(nrec) {
			for _, codec := range []string{"null", "deflate", "snappy"} {
				for ti, ft := range targets {
					if ti > 0 && codec != "null" {
						continue
					}
					k++
					f := fileCase{schema: rs, datums: recs, encoded: encs, comp: comp, codec: codec, mode: k % filedrv.NumReadModes, encDesc: vec}
					readAndCompare(c, f, f.bytes(), structFor(ft), false, n.Chain+"|"+typeChain(ft), true)
					if ti == 0 {
						// the same file with a second, complete read of it started from inside the callback of its
						// first record: the outer reader must still deliver the datums
						nestedReadAndCompare(c, f, f.bytes(), structFor(ft), n.Chain+"|"+typeChain(ft)+"|nested-reader")
					}
				}
			}
		}
	}
	if idx%37 == 0 {
		c.Sample(map[string]interface{}{"field_schema": n.Schema.Print(nil), "datums": len(ds), "encodings_of_first_datum": len(encsOf[0]), "targets": fmt.Sprint(targets)})
	}
}

func typeChain(t reflect.Type) string {
	s := gv.KindName(t)
	for (t.Kind() == reflect.Ptr || t.Kind() == reflect.Slice || t.Kind() == reflect.Map) && !(t.Kind() == reflect.Slice && t.Elem().Kind() == reflect.Uint8) {
		t = t.Elem()
		s += ">" + gv.KindName(t)
		if len(s) > 40 {
			break
		}
	}
	return s
}

func init() {
	fw.Register(&fw.Check{
		ID:    "C03",
		Level: "exploration",
		Rule: func(tier string) string {
			d, cap := 2, "the first 64 encodings of a datum when it has more (counted in the evidence)"
			if tier == "thorough" {
				d, cap = 3, "all encodings of a datum at nesting depth <=1, the first 20000 at depth 2 and the first 256 at depth 3 (capped enumerations are counted in the evidence)"
			}
			return fmt.Sprintf("files written by the reference writer (never by the library): record{f:S, z:long(sentinel)} for every S of nesting depth <=%d over leaves {boolean,int,long,float,double,bytes,string,fixed,record,date,timestamp-millis/micros,RFC3339 string} and constructors {array,map,record,[null,S],[S,null]} plus type-compatible multi/single-branch unions (incl. a 70-branch union of fixed(4) types read into [4]byte: two-byte selectors); per S: every datum of a bounded alphabet × EVERY legal serialisation (arrays/maps split into every composition of blocks, each with or without byte-size prefix; %s) × every compatible Go target (pointer indirection, int/int16/int32/int64, float32/64, null.*, time.Time, *[]T, *map) as single-record files (narrow targets also with a narrow neighbour field that the writer's schema places first), files of 1000 and 20000 identical records (compression ratios far above 32:1), files whose records encode to ZERO bytes (empty record, null-only fields; up to 70000 records in a block of no bytes), records with three sibling fields of ONE Go type whose schemas agree in the outermost type name but differ below it (null first/second, millis/micros/plain, array<int>/array<long>, two fixed or record types for one Go type; every triple, plain and omitempty), and 2–3-record files under every partition into file blocks × {null,deflate,snappy}, reader kinds rotating, each such file also with a second complete ReadFile of it started from inside the callback of its first record; plus streaming use — every sequence of <=6 records over 5 record shapes that allocate 0/1/2/5 pointed-to items with nullable fields null or set, under 2–4 block layouts × codecs rotating, with the callback comparing the delivered record and closing its bank at once or one record later, so that recycled banks are exercised, also after an earlier read that its callback abandoned (bank closed, error returned); oracle gv.Expect (value, or 'must be an error' for an integer that does not fit); non-trivial = a distinct (file, target) that was read and compared", d, cap)
		},
		Assumptions: []string{
			"'does not fit is an error' is anchored on integers only; doubles are only decoded into float32 when exactly representable... (datums are exact float32 values or the comparison is value-exact after float32 conversion)",
			"files come from ref.WriteFile/ref.Enc, whose self-check (all encodings decode back) runs at setup",
		},
		Init:     func(c *fw.Ctx) { reg.Init() },
		NumCases: func(tier string) int { return len(schemas3(tier)) },
		RunCase:  func(c *fw.Ctx, idx int) { runNode3(c, idx, schemas3(c.Tier)[idx]) },
		Budget:   func(tier string) time.Duration { return 40 * time.Minute },
	})
}

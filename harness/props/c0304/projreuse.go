package c0304

import (
	"fmt"
	"reflect"
	"unsafe"

	"github.com/philpearl/avro"

	"verifharness/explore"
	"verifharness/filedrv"
	"verifharness/fw"
	"verifharness/ref"
)

// Projection after bank reuse: "fields the file does not contain are left zero" also holds for records the reader
// allocates itself (behind pointers, as slice items) from banks that earlier reads have used and closed. A first
// file WITH the column fills such records; a second file WITHOUT it is read into the same Go type with every bank
// closed as soon as its record has been looked at; how many nested records each row holds varies (0, 1, 3), so a
// recycled bank sees fewer, then more, allocations than before.

type PRDetail struct {
	ID   int64  `json:"id"`
	Note string `json:"note"`
	Opt  *int64 `json:"opt"`
}

type PRRow struct {
	Details []*PRDetail          `json:"details"`
	ByKey   map[string]*PRDetail `json:"bykey"`
}

func runProjectionReuse(c *fw.Ctx) {
	long, str := ref.Prim("long"), ref.Prim("string")
	dWith := ref.Record("PRDetail", ref.F("id", long), ref.F("note", str), ref.F("opt", ref.Union(ref.Prim("null"), long)))
	dWithout := ref.Record("PRDetail", ref.F("id", long))
	sWith := ref.Record("PRRow", ref.F("details", ref.Array(dWith)), ref.F("bykey", ref.Map(dWith)))
	sWithout := ref.Record("PRRow", ref.F("details", ref.Array(dWithout)), ref.F("bykey", ref.Map(dWithout)))
	mkFile := func(s *ref.Schema, with bool, counts []int) []byte {
		var blocks []ref.Block
		for ri, n := range counts {
			var items []ref.Datum
			var keys []string
			for i := 0; i < n; i++ {
				id := int64(ri*10 + i + 1)
				if with {
					items = append(items, ref.DRecord(ref.DLong(id), ref.DString(fmt.Sprintf("stale-note-%d", id)), ref.DUnion(1, ref.DLong(-id))))
				} else {
					items = append(items, ref.DRecord(ref.DLong(id)))
				}
				keys = append(keys, fmt.Sprintf("k%d", i))
			}
			blocks = append(blocks, ref.Block{Count: 1, Payload: ref.Encode(s, ref.DRecord(ref.DArray(items...), ref.DMap(keys, items)))})
		}
		data, _ := ref.WriteFile(ref.StdMeta(s.Print(nil), "null", true), "null", sync16, blocks)
		return data
	}
	t := reflect.TypeOf(PRRow{})
	k := 0
	for _, first := range [][]int{{3, 3}, {3, 1}, {1, 3, 3}, {3}} {
		fileA := mkFile(sWith, true, first)
		for l := 1; l <= 4; l++ {
			explore.Sequences(3, l, func(ix []int) {
				counts := make([]int, len(ix))
				for i, x := range ix {
					counts[i] = []int{0, 1, 3}[x]
				}
				fileB := mkFile(sWithout, false, counts)
				k++
				c.Eval(1)
				desc := fmt.Sprintf("a file WITH columns note/opt (nested records per row %v) read with banks closed per record, then a file WITHOUT them (nested records per row %v) read into the same Go type, banks closed per record", first, counts)
				locus := "projection-after-bank-reuse"
				c.Begin(locus, desc)
				c.Nontrivial(fmt.Sprintf("%v/%v", first, counts))
				c.Guard(locus, desc, desc, func() {
					closeAll := func(val unsafe.Pointer, rb *avro.ResourceBank) error { rb.Close(); return nil }
					if err := avro.ReadFile(&filedrv.Reader{Data: fileA, Mode: k % 3}, PRRow{}, closeAll); err != nil {
						c.Violation("read-error|"+locus, fmt.Sprintf("first file: %v — %s", err, desc), desc)
						return
					}
					ri := 0
					bad := ""
					err := avro.ReadFile(&filedrv.Reader{Data: fileB, Mode: k % 3}, PRRow{}, func(val unsafe.Pointer, rb *avro.ResourceBank) error {
						row := reflect.NewAt(t, val).Elem().Interface().(PRRow)
						check := func(where string, d *PRDetail, id int64) {
							if bad != "" {
								return
							}
							if d == nil {
								bad = fmt.Sprintf("row %d %s is nil", ri, where)
							} else if d.ID != id || d.Note != "" || d.Opt != nil {
								bad = fmt.Sprintf("row %d %s = {ID:%d Note:%q Opt:%v}, the file says id=%d and has no note/opt column", ri, where, d.ID, d.Note, d.Opt, id)
							}
						}
						if ri < len(counts) {
							if len(row.Details) != counts[ri] || len(row.ByKey) != counts[ri] {
								bad = fmt.Sprintf("row %d has %d details / %d map entries, the file says %d", ri, len(row.Details), len(row.ByKey), counts[ri])
							}
							for i := 0; i < len(row.Details) && i < counts[ri]; i++ {
								check(fmt.Sprintf("details[%d]", i), row.Details[i], int64(ri*10+i+1))
								check(fmt.Sprintf("bykey[k%d]", i), row.ByKey[fmt.Sprintf("k%d", i)], int64(ri*10+i+1))
							}
						}
						ri++
						rb.Close()
						return nil
					})
					switch {
					case err != nil:
						c.Violation("read-error|"+locus, fmt.Sprintf("second file: %v — %s", err, desc), desc)
					case bad != "":
						c.Violation("absent-field-not-zero|"+locus, bad+" — "+desc, desc)
					case ri != len(counts):
						c.Violation("wrong-record-count|"+locus, fmt.Sprintf("%d rows, the file holds %d — %s", ri, len(counts), desc), desc)
					}
				})
			})
		}
	}
	c.Sample(map[string]interface{}{"kind": "projection after bank reuse", "file_pairs": k})
}

package c0304

import (
	"fmt"
	"reflect"
	"unsafe"

	"github.com/philpearl/avro"

	"verifharness/explore"
	"verifharness/filedrv"
	"verifharness/fw"
	"verifharness/gv"
	"verifharness/ref"
)

// Streaming use: the callback looks at the record and closes its bank (at once, or one record later). The reader
// recycles closed banks, so what a record's pointer targets, slices and maps held for an EARLIER record must not
// show through in a later one. Records differ in how much they allocate (0, 1, 2 or 5 pointed-to items) and in
// which nullable fields are null, and every sequence of <= 6 record shapes is read under several block layouts.

type BKid struct {
	A *int64           `json:"a"`
	S *string          `json:"s"`
	L []int64          `json:"l"`
	M map[string]int64 `json:"m"`
}

type BRec struct {
	Kids []*BKid `json:"kids"`
	P    *int64  `json:"p"`
}

var bankSchema = func() *ref.Schema {
	kid := ref.Record("BKid", ref.F("a", ref.Union(ref.Prim("null"), ref.Prim("long"))), ref.F("s", ref.Union(ref.Prim("null"), ref.Prim("string"))),
		ref.F("l", ref.Array(ref.Prim("long"))), ref.F("m", ref.Map(ref.Prim("long"))))
	return ref.Record("BRec", ref.F("kids", ref.Array(kid)), ref.F("p", ref.Union(ref.Prim("null"), ref.Prim("long"))))
}()

func bankShape(shape, serial int) ref.Datum {
	full := func(i int) ref.Datum {
		x := int64(serial*100 + i)
		return ref.DRecord(ref.DUnion(1, ref.DLong(x)), ref.DUnion(1, ref.DString(fmt.Sprintf("s%d", x))),
			ref.DArray(ref.DLong(x), ref.DLong(-x), ref.DLong(7)), ref.DMap([]string{"k", "j"}, []ref.Datum{ref.DLong(x), ref.DLong(x + 1)}))
	}
	empty := func() ref.Datum {
		return ref.DRecord(ref.DUnion(0, ref.DNull()), ref.DUnion(0, ref.DNull()), ref.DArray(), ref.DMap(nil, nil))
	}
	pset := ref.DUnion(1, ref.DLong(int64(serial)*7+1))
	pnull := ref.DUnion(0, ref.DNull())
	switch shape {
	case 0:
		return ref.DRecord(ref.DArray(), pnull)
	case 1:
		return ref.DRecord(ref.DArray(empty()), pnull)
	case 2:
		return ref.DRecord(ref.DArray(full(0), full(1), full(2), full(3), full(4)), pset)
	case 3:
		return ref.DRecord(ref.DArray(empty(), empty(), empty(), empty(), empty()), pnull)
	}
	return ref.DRecord(ref.DArray(full(0), empty()), pset)
}

const bankShapes = 5

func runBankCycling(c *fw.Ctx, first int) {
	t := reflect.TypeOf(BRec{})
	layouts := func(n int) [][]int {
		one := make([]int, n)
		for i := range one {
			one[i] = 1
		}
		ls := [][]int{{n}, one}
		if n >= 3 {
			ls = append(ls, []int{2, n - 2}, []int{n - 1, 1})
		}
		return ls
	}
	k := 0
	for l := 1; l <= 6; l++ {
		explore.Sequences(bankShapes, l-1, func(rest []int) {
			seq := append([]int{first}, rest...)
			var recs []ref.Datum
			var encs [][]byte
			var want []reflect.Value
			for i, sh := range seq {
				d := bankShape(sh, i+1)
				recs = append(recs, d)
				encs = append(encs, ref.Encode(bankSchema, d))
				v := reflect.New(t).Elem()
				if err := gv.Expect(bankSchema, d, v); err != nil {
					panic(err)
				}
				want = append(want, v)
			}
			for li, comp := range layouts(len(seq)) {
				for variant := 0; variant < 4; variant++ {
					k++
					lag := variant % 2
					prelude := variant >= 2 // an earlier read that its callback abandoned (bank closed, error returned)
					codec := []string{"null", "deflate", "snappy"}[k%3]
					f := fileCase{schema: bankSchema, datums: recs, encoded: encs, comp: comp, codec: codec, mode: k % filedrv.NumModes, encDesc: fmt.Sprint(seq)}
					data := f.bytes()
					c.Eval(1)
					desc := fmt.Sprintf("record shapes %v (0: no kids, 1: one empty kid, 2: five full kids, 3: five empty kids, 4: one full + one empty kid), file blocks %v, %s, bank closed %d record(s) after delivery, preceded by an abandoned read=%v", seq, comp, codec, lag, prelude)
					det := map[string]interface{}{"shapes": fmt.Sprint(seq), "blocks": fmt.Sprint(comp), "codec": codec, "close_lag": lag, "layout": li}
					locus := "bank-cycling"
					c.Begin(locus, desc)
					c.Nontrivial(fmt.Sprintf("bank/%v/%v/%d/%s", seq, comp, lag, codec))
					c.Guard(locus, desc, det, func() {
						if prelude {
							avro.ReadFile(&filedrv.Reader{Data: data, Mode: f.mode}, BRec{}, func(val unsafe.Pointer, rb *avro.ResourceBank) error {
								rb.Close()
								return errAbandon
							})
						}
						i := 0
						bad := ""
						var pending *avro.ResourceBank
						var pendingVal reflect.Value
						pendingIdx := -1
						recheck := func() {
							if bad == "" && pendingIdx >= 0 && pendingIdx < len(want) {
								if path, dl, vc := gv.DiffLocus(want[pendingIdx], pendingVal); path != "" {
									bad = fmt.Sprintf("wrong-value|%s|%s\x00record %d, still held with its bank open, reads %s one record later; the datum is %s (difference at %s)", dl, vc, pendingIdx, clip(gv.Show(pendingVal), 300), clip(recs[pendingIdx].String(), 300), path)
								}
							}
						}
						err := avro.ReadFile(&filedrv.Reader{Data: data, Mode: f.mode}, BRec{}, func(val unsafe.Pointer, rb *avro.ResourceBank) error {
							got := reflect.NewAt(t, val).Elem()
							if i < len(want) && bad == "" {
								if path, dl, vc := gv.DiffLocus(want[i], got); path != "" {
									bad = fmt.Sprintf("wrong-value|%s|%s\x00record %d delivered as %s, the datum is %s (difference at %s)", dl, vc, i, clip(gv.Show(got), 300), clip(recs[i].String(), 300), path)
								}
							}
							i++
							if lag == 0 {
								rb.Close()
							} else {
								if pending != nil {
									recheck()
									pending.Close()
								}
								pending = rb
								pendingIdx = i - 1
								pendingVal = reflect.New(t).Elem()
								pendingVal.Set(got) // what the consumer still holds of that record while its bank is open
							}
							return nil
						})
						if pending != nil {
							recheck()
							pending.Close()
						}
						switch {
						case bad != "":
							sig, what := bad[:indexNul(bad)], bad[indexNul(bad)+1:]
							c.Violation(sig+"|after-bank-reuse", what+" — "+desc, det)
						case err != nil:
							c.Violation("read-error|"+locus, fmt.Sprintf("ReadFile failed: %v — %s", err, desc), det)
						case i != len(want):
							c.Violation("wrong-record-count|"+locus, fmt.Sprintf("%d records delivered, the file holds %d — %s", i, len(want), desc), det)
						}
					})

				}
			}
		})
	}
	c.Sample(map[string]interface{}{"kind": "bank cycling", "first_shape": first, "files": k})
}

var errAbandon = fmt.Errorf("caller abandons the read")

func indexNul(s string) int {
	for i := 0; i < len(s); i++ {
		if s[i] == 0 {
			return i
		}
	}
	return len(s) - 1
}

package ctime

import (
	"fmt"
	"time"
	"unsafe"

	"github.com/philpearl/avro"

	"verifharness/fw"
	"verifharness/ref"
)

// TMix: several time fields of ONE Go type in one record, each under its own unit. Every field must be decoded and
// encoded under ITS logical type, whatever its siblings carry.
type TMix struct {
	A, B, C    time.Time
	PA, PB, PC *time.Time
}

func mixSchema(ua, ub, uc unit) string {
	n := func(s string) string { return `["null",` + s + `]` }
	return `{"type":"record","name":"mix","fields":[{"name":"A","type":` + ua.schema + `},{"name":"B","type":` + ub.schema + `},{"name":"C","type":` + uc.schema +
		`},{"name":"PA","type":` + n(ua.schema) + `},{"name":"PB","type":` + n(ub.schema) + `},{"name":"PC","type":` + n(uc.schema) + `}]}`
}

func runMixedUnits(c *fw.Ctx) {
	pick := func(u unit, k int) int64 {
		vals := []int64{-1, 18690, 1700000000123, -86400001, 1}
		for j := 0; j < len(vals); j++ {
			v := vals[(k+j)%len(vals)]
			if v >= u.lo && v <= u.hi {
				return v
			}
		}
		return 0
	}
	k := 0
	for _, ua := range units {
		for _, ub := range units {
			for _, uc := range units {
				if ua.name == ub.name && ub.name == uc.name {
					continue
				}
				codec := mustCodec(mixSchema(ua, ub, uc), TMix{})
				for rep := 0; rep < 2; rep++ {
					k++
					ia, ib, ic := pick(ua, k), pick(ub, k+1), pick(uc, k+2)
					ja, jb, jc := pick(ua, k+3), pick(ub, k+2), pick(uc, k+4)
					var in []byte
					in = ref.AppendLong(in, ia)
					in = ref.AppendLong(in, ib)
					in = ref.AppendLong(in, ic)
					for _, j := range []int64{ja, jb, jc} {
						in = ref.AppendLong(in, 1)
						in = ref.AppendLong(in, j)
					}
					c.Eval(1)
					c.NontrivialN(1)
					desc := fmt.Sprintf("one record with fields A:%s=%d B:%s=%d C:%s=%d and nullable PA,PB,PC of the same units = %d,%d,%d", ua.name, ia, ub.name, ib, uc.name, ic, ja, jb, jc)
					det := map[string]interface{}{"units": []string{ua.name, ub.name, uc.name}, "input_hex": fmt.Sprintf("%x", in)}
					c.Guard("mixed-units", desc, det, func() {
						var g TMix
						r := avro.NewReadBuf(in)
						if err := codec.Read(r, unsafe.Pointer(&g)); err != nil || r.Len() != 0 {
							c.Violation("spurious-error|read|mixed-units", fmt.Sprintf("%v, %d bytes left — %s", err, r.Len(), desc), det)
							return
						}
						if g.PA == nil || g.PB == nil || g.PC == nil {
							c.Violation("wrong-instant|read|mixed-units|nil", "a set nullable field decoded as nil — "+desc, det)
							return
						}
						for _, f := range []struct {
							n    string
							u    unit
							got  time.Time
							want int64
						}{{"A", ua, g.A, ia}, {"B", ub, g.B, ib}, {"C", uc, g.C, ic}, {"PA", ua, *g.PA, ja}, {"PB", ub, *g.PB, jb}, {"PC", uc, *g.PC, jc}} {
							if !f.got.Equal(f.u.toTime(f.want)) {
								c.Violation("wrong-instant|read|mixed-units|"+f.u.name, fmt.Sprintf("field %s (%s, stored %d) decoded as %s, the specification says %s — %s", f.n, f.u.name, f.want, f.got.UTC().Format(time.RFC3339Nano), f.u.toTime(f.want).Format(time.RFC3339Nano), desc), det)
								return
							}
						}
						w := avro.NewWriteBuf(nil)
						codec.Write(w, unsafe.Pointer(&g))
						if !bytesEq(w.Bytes(), in) {
							c.Violation("wrong-bytes|write|mixed-units", fmt.Sprintf("re-encoded %x, want %x — %s", w.Bytes(), in, desc), det)
						}
					})
				}
			}
		}
	}
	c.Sample(map[string]interface{}{"kind": "records mixing units", "records": k})
}

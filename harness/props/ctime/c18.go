package ctime

import (
	"fmt"
	"regexp"
	"strings"
	"time"
	"unsafe"

	"github.com/philpearl/avro"
	"github.com/unravelin/null/v5"

	"verifharness/fw"
	"verifharness/ref"
)

type NT struct{ T null.Time }

// the RFC 3339 date-time grammar, with ',' also allowed as fraction separator (as the property states)
var rfc3339Grammar = regexp.MustCompile(`^[0-9]{4}-[0-9]{2}-[0-9]{2}T[0-9]{2}:[0-9]{2}:[0-9]{2}([.,][0-9]+)?(Z|[+-][0-9]{2}:[0-9]{2})$`)

var (
	strCodecT avro.Codec // string -> time.Time
	strCodecN avro.Codec // [null,string] -> null.Time
)

func initC18() {
	if strCodecT == nil {
		strCodecT = mustCodec(recSchema(`"string"`), TT{})
		strCodecN = mustCodec(recSchema(`["null","string"]`), NT{})
	}
}

// decodeTime pushes s through the public path: a string field decoded into time.Time.
func decodeTime(s string) (t time.Time, err error, pan interface{}, site string) {
	defer func() {
		if r := recover(); r != nil {
			pan = r
			site = fw.PanicSite(3)
		}
	}()
	// the bytes are written over the previous string's bytes, as in a reader that reuses its block buffer:
	// whatever the parser remembers about an earlier string must not depend on memory it does not own
	scratch18 = append(ref.AppendLong(scratch18[:0], int64(len(s))), s...)
	var v TT
	rb.Reset(scratch18)
	err = strCodecT.Read(rb, unsafe.Pointer(&v))
	return v.T, err, nil, ""
}

var scratch18 = make([]byte, 0, 256)

// histories: every ordered pair (and, from a smaller set, every triple) of valid timestamps decoded one after
// the other through the same reused buffer; each result is compared with the standard library.
func historySet() []string {
	var out []string
	for _, d := range []string{"2021-03-01", "2021-03-02", "2021-04-01", "2020-02-29", "1969-12-31", "0001-01-01", "9999-12-31"} {
		for _, t := range []string{"T00:00:00Z", "T23:59:59.999999999Z", "T12:34:56+05:30", "T12:34:56.5-08:00", "T01:02:03,25+00:00", "T06:07:08+01:00", "T06:07:08+02:00", "T06:07:08-03:00", "T06:07:08+09:30", "T06:07:08-11:00", "T06:07:08+12:45", "T06:07:08+00:17"} {
			out = append(out, d+t)
		}
	}
	out = append(out, "2021-03-01", "2021-03-02", "1970-01-01")
	return out
}

// runLocalZones: the process's local zone is part of the environment. With time.Local set to zones that change
// their offset during the year (embedded tzdata), timestamps of both seasons and with offsets equal to either of the
// zone's offsets must still parse to the instant and offset the standard library gives.
func runLocalZones(c *fw.Ctx) {
	saved := time.Local
	defer func() { time.Local = saved }()
	n := 0
	for _, zn := range []string{"Europe/London", "America/New_York", "Australia/Lord_Howe", "Asia/Kolkata"} {
		loc, err := time.LoadLocation(zn)
		if err != nil {
			c.HarnessError("tzdata: " + err.Error())
			return
		}
		time.Local = loc
		for _, date := range []string{"2026-01-15", "2026-07-01", "2026-03-29", "2026-10-25", "1969-07-20", "0001-01-01", "9999-12-31"} {
			for _, tm := range []string{"T00:00:00", "T01:30:00", "T12:00:00.5", "T23:59:59,999999999"} {
				for _, off := range []string{"Z", "+00:00", "+01:00", "-05:00", "-04:00", "+10:30", "+11:00", "+05:30", "-00:00"} {
					s := date + tm + off
					n++
					c.Eval(1)
					got, err, pan, _ := decodeTime(s)
					want, perr := time.Parse(time.RFC3339, s)
					if perr != nil {
						continue
					}
					c.NontrivialN(1)
					_, wo := want.Zone()
					_, g := got.Zone()
					if pan != nil || err != nil || !got.Equal(want) || g != wo {
						c.Violation("wrong-instant|process-zone", fmt.Sprintf("with time.Local = %s, timestamp %q parses to %s (err=%v panic=%v), the standard library says %s", zn, s, got.Format(time.RFC3339Nano), err, pan, want.Format(time.RFC3339Nano)), zn+" "+s)
					}
				}
			}
		}
	}
	c.Sample(map[string]interface{}{"kind": "process zone varied", "zones": 4, "timestamps": n})
}

func runHistories(c *fw.Ctx) {
	set := historySet()
	check := func(seq []string) {
		for i, s := range seq {
			c.Eval(1)
			got, err, pan, _ := decodeTime(s)
			want, perr := time.Parse(time.RFC3339, s)
			if len(s) == 10 {
				want, perr = time.Parse("2006-01-02", s)
			}
			if perr != nil {
				panic("harness: history set holds an invalid timestamp " + s)
			}
			c.NontrivialN(1)
			_, wo := want.Zone()
			_, g := got.Zone()
			if pan != nil || err != nil || !got.Equal(want) || g != wo {
				c.Violation("wrong-instant|after-history", fmt.Sprintf("timestamp %q decoded as step %d of the history %q gives %s (err=%v panic=%v), the standard library says %s", s, i, seq, got.Format(time.RFC3339Nano), err, pan, want.Format(time.RFC3339Nano)), fmt.Sprint(seq))
				return
			}
		}
	}
	for _, a := range set {
		for _, b := range set {
			check([]string{a, b})
		}
	}
	small := []string{set[0], set[5], set[7], set[12], set[20], set[35], set[36], set[37], set[len(set)-1], set[len(set)-2]}
	for _, a := range small {
		for _, b := range small {
			for _, d := range small {
				check([]string{a, b, d})
			}
		}
	}
	c.Sample(map[string]interface{}{"kind": "histories", "pairs": len(set) * len(set), "triples": len(small) * len(small) * len(small)})
}

func decodeNullTime(s string) (t null.Time, err error, pan interface{}) {
	defer func() {
		if r := recover(); r != nil {
			pan = r
		}
	}()
	b := []byte{2}
	b = ref.AppendLong(b, int64(len(s)))
	b = append(b, s...)
	var v NT
	rb.Reset(b)
	err = strCodecN.Read(rb, unsafe.Pointer(&v))
	return v.T, err, nil
}

func shape(s string) string {
	// abstract a timestamp string to its shape for the signature
	var b strings.Builder
	frac := 0
	inFrac := false
	for i := 0; i < len(s); i++ {
		ch := s[i]
		switch {
		case inFrac && ch >= '0' && ch <= '9':
			frac++
			continue
		case inFrac:
			inFrac = false
			if frac > 9 {
				b.WriteString("F>9")
			} else if frac == 0 {
				b.WriteString("F0")
			} else {
				b.WriteString("F")
			}
		}
		switch {
		case i < 19 && ch >= '0' && ch <= '9':
			// date/time digits: skip
		case i >= 19 && (ch == '.' || ch == ','):
			b.WriteByte(ch)
			inFrac = true
			frac = 0
		case ch >= '0' && ch <= '9':
			b.WriteByte('d')
		default:
			if i >= 19 {
				b.WriteByte(ch)
			}
		}
	}
	if inFrac {
		if frac > 9 {
			b.WriteString("F>9")
		} else if frac == 0 {
			b.WriteString("F0")
		} else {
			b.WriteString("F")
		}
		b.WriteString("$")
	}
	if len(s) == 10 {
		return "date-only"
	}
	return b.String()
}

// checkString: whenever the standard library accepts s as RFC 3339, the
// library must return the same instant and offset; never a panic.
func checkString(c *fw.Ctx, s string) {
	c.Eval(1)
	got, err, pan, site := decodeTime(s)
	if pan != nil {
		c.Violation("panic:"+fw.PanicClass(pan)+"@"+site+"|"+shape(s), fmt.Sprintf("timestamp %q: panic %v", s, pan), s)
		return
	}
	want, perr := time.Parse(time.RFC3339, s)
	if perr != nil || !rfc3339Grammar.MatchString(s) {
		// the claim covers strings that match the RFC 3339 date-time grammar AND that
		// time.Parse accepts (time.Parse alone is more lenient: it accepts "T3:37:42");
		// for every other string any result or error is fine
		return
	}
	c.NontrivialN(1)
	if err != nil {
		c.Violation("rejects-valid-rfc3339|"+shape(s), fmt.Sprintf("timestamp %q is accepted by time.Parse(RFC3339) but the library returns %v", s, err), s)
		return
	}
	_, wo := want.Zone()
	_, g := got.Zone()
	if !got.Equal(want) {
		c.Violation("wrong-instant|"+shape(s), fmt.Sprintf("timestamp %q parsed to %s, the standard library says %s", s, got.Format(time.RFC3339Nano), want.Format(time.RFC3339Nano)), s)
	} else if g != wo {
		c.Violation("wrong-offset|"+shape(s), fmt.Sprintf("timestamp %q parsed with offset %d, the standard library says %d", s, g, wo), s)
	}
}

func checkDateOnly(c *fw.Ctx, s string) {
	c.Eval(1)
	got, err, pan, site := decodeTime(s)
	if pan != nil {
		c.Violation("panic:"+fw.PanicClass(pan)+"@"+site+"|date-only", fmt.Sprintf("date %q: panic %v", s, pan), s)
		return
	}
	want, perr := time.Parse("2006-01-02", s)
	if perr != nil {
		return
	}
	c.NontrivialN(1)
	if err != nil {
		c.Violation("rejects-valid-date|date-only", fmt.Sprintf("date %q rejected: %v", s, err), s)
		return
	}
	_, g := got.Zone()
	if !got.Equal(want) || g != 0 {
		c.Violation("wrong-instant|date-only", fmt.Sprintf("date %q parsed to %s, expected midnight UTC %s", s, got.Format(time.RFC3339Nano), want.Format(time.RFC3339Nano)), s)
	}
}

func fractions(alpha string, maxLen int, f func(string)) {
	var rec func(cur string)
	rec = func(cur string) {
		if len(cur) > 0 {
			f(cur)
		}
		if len(cur) == maxLen {
			return
		}
		for i := 0; i < len(alpha); i++ {
			rec(cur + alpha[i:i+1])
		}
	}
	rec("")
}

var zones = []string{"Z", "+00:00", "-00:00", "+00:01", "-00:01", "+05:30", "-08:00", "+14:00", "-23:59", "+23:59", "+08:21", "+24:00", "+08:60", "-03:60", "+24:30"}

type task18 struct {
	name string
	run  func(c *fw.Ctx)
}

var memo18 = map[string][]task18{}

func tasks18(tier string) []task18 {
	if t, ok := memo18[tier]; ok {
		return t
	}
	var ts []task18
	years := []string{"0000", "0001", "1969", "1970", "2024", "9999"}
	days := []string{"01", "28", "29", "30", "31"}
	hours := []string{"00", "12", "23"}
	mins := []string{"00", "30", "59"}
	fracAlpha, fracLen := "09", 10
	if tier == "thorough" {
		fracAlpha, fracLen = "019", 12
	}
	// (1) full calendar/time grid with no fraction and a few fractions, all zones
	for _, y := range years {
		y := y
		ts = append(ts, task18{"grid-year-" + y, func(c *fw.Ctx) {
			for m := 1; m <= 12; m++ {
				for _, d := range days {
					date := fmt.Sprintf("%s-%02d-%s", y, m, d)
					checkDateOnly(c, date)
					for _, h := range hours {
						for _, mi := range mins {
							for _, se := range mins {
								for _, fr := range []string{"", ".5", ",5", ".000000001", ",999999999", ".123", ".1234567890"} {
									for _, z := range zones {
										checkString(c, date+"T"+h+":"+mi+":"+se+fr+z)
									}
								}
							}
						}
					}
				}
			}
			c.Sample(map[string]interface{}{"kind": "grid", "year": y, "example": y + "-02-29T23:59:59,999999999-23:59"})
		}})
	}
	// (2) every fraction digit string over the alphabet up to the length bound × separators × zones, two base times
	for _, sep := range []string{".", ","} {
		for _, z := range zones {
			sep, z := sep, z
			ts = append(ts, task18{"fractions" + sep + z, func(c *fw.Ctx) {
				n := 0
				for _, base := range []string{"2006-01-02T13:37:42", "1969-12-31T23:59:59"} {
					fractions(fracAlpha, fracLen, func(fr string) {
						checkString(c, base+sep+fr+z)
						n++
					})
				}
				c.Sample(map[string]interface{}{"kind": "fractions", "separator": sep, "zone": z, "strings": n})
			}})
		}
	}
	// (2b) very long fractions (time.Parse accepts any length and keeps nine digits)
	ts = append(ts, task18{"long-fractions", func(c *fw.Ctx) {
		n := 0
		for l := 11; l <= 45; l++ {
			for _, pat := range []string{"9", "0", "1", "5", "98765432109876543210", "00000000012345678901234567890", "12345678", "499999999", "500000000"} {
				fr := strings.Repeat(pat, l/len(pat)+1)[:l]
				for _, sep := range []string{".", ","} {
					for _, z := range []string{"Z", "+05:30", "-00:01"} {
						checkString(c, "2006-01-02T13:37:42"+sep+fr+z)
						checkString(c, "1969-12-31T23:59:59"+sep+fr+z)
						n += 2
					}
				}
			}
		}
		c.Sample(map[string]interface{}{"kind": "long fractions", "digits": "11..45", "strings": n})
	}})
	// (3) format -> parse identity through the codec's own Write
	ts = append(ts, task18{"format-parse-identity", func(c *fw.Ctx) {
		bases := []time.Time{time.Date(2021, 3, 4, 5, 6, 7, 0, time.UTC), time.Date(1, 1, 1, 0, 0, 0, 0, time.UTC), time.Date(9999, 12, 31, 23, 59, 59, 0, time.UTC),
			time.Date(1969, 12, 31, 23, 59, 59, 0, time.UTC), time.Date(2000, 2, 29, 12, 30, 0, 0, time.UTC), time.Date(0, 6, 15, 1, 2, 3, 0, time.UTC)}
		offs := []int{0, 60, -60, 5*3600 + 1800, -8 * 3600, 14 * 3600, -(23*3600 + 59*60), 3600}
		nanos := []int{0, 1, 9, 10, 99, 100, 999, 1000, 1001, 9999, 10000, 99999, 100000, 999999, 1000000, 1000001, 9999999, 10000000, 99999999, 100000000, 100000001,
			123456789, 500000000, 999999999, 999999990, 999999900, 999999000, 999990000, 999900000, 999000000, 990000000, 900000000, 120000000, 123000000, 123400000, 123450000, 123456000, 123456700, 123456780, 5}
		for _, b := range bases {
			for _, o := range offs {
				for _, ns := range nanos {
					t := time.Date(b.Year(), b.Month(), b.Day(), b.Hour(), b.Minute(), b.Second(), ns, time.FixedZone("", o))
					if t.UTC().Year() < 0 || t.UTC().Year() > 9999 || t.Year() < 0 || t.Year() > 9999 {
						continue
					}
					c.Eval(1)
					c.NontrivialN(1)
					v := TT{T: t}
					w := avro.NewWriteBuf(nil)
					strCodecT.Write(w, unsafe.Pointer(&v))
					var back TT
					rb.Reset(w.Bytes())
					desc := t.Format(time.RFC3339Nano)
					var err error
					pan := func() (p interface{}) {
						defer func() { p = recover() }()
						err = strCodecT.Read(rb, unsafe.Pointer(&back))
						return nil
					}()
					_, bo := back.T.Zone()
					if pan != nil || err != nil || !back.T.Equal(t) || bo != o {
						c.Violation("format-parse-not-identity|"+shape(desc), fmt.Sprintf("time %s written then read back as %s (err=%v panic=%v)", desc, back.T.Format(time.RFC3339Nano), err, pan), desc)
					}
					// and through null.Time
					nt, nerr, npan := decodeNullTime(desc)
					_, no := nt.Time.Zone()
					if npan != nil || nerr != nil || !nt.Valid || !nt.Time.Equal(t) || no != o {
						c.Violation("format-parse-not-identity|null.Time|"+shape(desc), fmt.Sprintf("time %s read into null.Time as %v valid=%v (err=%v panic=%v)", desc, nt.Time.Format(time.RFC3339Nano), nt.Valid, nerr, npan), desc)
					}
				}
			}
		}
	}})
	// (4) every other string: single-character deletion, duplication, substitution and every truncation of valid timestamps
	valid := []string{"2006-01-02T13:37:42Z", "2006-01-02T13:37:42.326876123Z", "2006-01-02T13:37:42,326+08:00", "2006-01-02T13:37:42-08:21", "2006-01-02", "1969-12-31T23:59:59.5-00:01"}
	alpha := "09-:T.,Z+x /"
	for _, v := range valid {
		v := v
		ts = append(ts, task18{"mutations-of-" + v, func(c *fw.Ctx) {
			seen := map[string]bool{}
			try := func(s string) {
				if seen[s] {
					return
				}
				seen[s] = true
				if len(s) == 10 {
					checkDateOnly(c, s)
				}
				checkString(c, s)
			}
			for i := 0; i <= len(v); i++ {
				try(v[:i])
				for _, tail := range []string{".", ",", "+", "-", ":", "Z", ".5", "+0", "+08", "+08:", "+08:0", "ZZ"} {
					try(v[:i] + tail)
				}
			}
			for i := 0; i < len(v); i++ {
				try(v[:i] + v[i+1:])
				try(v[:i] + v[i:i+1] + v[i:])
				for j := 0; j < len(alpha); j++ {
					try(v[:i] + alpha[j:j+1] + v[i+1:])
					try(v[:i] + alpha[j:j+1] + v[i:])
				}
			}
			// double mutations on the fraction/zone suffix
			if tier == "thorough" && len(v) > 19 {
				for i := 19; i < len(v); i++ {
					for j := i; j < len(v); j++ {
						for a := 0; a < len(alpha); a++ {
							for b := 0; b < len(alpha); b++ {
								s := []byte(v)
								s[i], s[j] = alpha[a], alpha[b]
								try(string(s))
							}
						}
					}
				}
			}
			c.Sample(map[string]interface{}{"kind": "mutations", "of": v, "distinct_strings": len(seen)})
		}})
	}
	ts = append(ts, task18{"histories-through-a-reused-buffer", runHistories})
	ts = append(ts, task18{"process-zone-with-daylight-saving", runLocalZones})
	memo18[tier] = ts
	return ts
}

func init() {
	fw.Register(&fw.Check{
		ID:    "C18",
		Level: "exploration",
		Rule: func(tier string) string {
			a, l := "{0,9}", 10
			if tier == "thorough" {
				a, l = "{0,1,9}", 12
			}
			return fmt.Sprintf("exhaustive grammar product pushed through the public path (string field decoded into time.Time / null.Time by codecs from Schema.Codec): year {0000,0001,1969,1970,2024,9999} × month 01-12 × day {01,28,29,30,31} × hour {00,12,23} × minute,second {00,30,59} × 7 fraction shapes × 15 zones (incl. the hour 24 / minute 60 offsets the standard library accepts); every fraction digit string over %s of length 1..%d × {'.',','} × 15 zones (incl. the hour 24 / minute 60 offsets the standard library accepts) × 2 base times; 9 digit patterns stretched to 11..45 fraction digits; all date-only strings of the grid; format→parse identity over 6 base times × 8 offsets × 40 nanosecond values (time.Time and null.Time); every truncation and single-character deletion/duplication/substitution (alphabet \"09-:T.,Z+x /\") of 6 valid timestamps; every string is decoded from one reused buffer (its bytes overwrite the previous string's), and every ordered pair of 87 valid timestamps (12 distinct zones) and every triple of 10 is decoded as a history; with the process zone (time.Local) set to four zones incl. three with daylight saving, 1008 timestamps of both seasons with offsets equal and unequal to the zone's; non-trivial = the standard library accepts the string (time.Parse RFC3339 / 2006-01-02) so instant and offset were compared; all strings are checked for panics", a, l)
		},
		Assumptions: []string{
			"time.Parse(time.RFC3339, s) of the toolchain is the oracle: the claim is made only for strings it accepts",
			"date-only strings: valid iff time.Parse(\"2006-01-02\", s) accepts",
		},
		Init:     func(c *fw.Ctx) { initC18() },
		NumCases: func(tier string) int { return len(tasks18(tier)) },
		RunCase: func(c *fw.Ctx, idx int) {
			t := tasks18(c.Tier)[idx]
			c.Begin("c18", t.name)
			t.run(c)
		},
		Budget: func(tier string) time.Duration { return 40 * time.Minute },
	})
}

// Package ctime holds C18 (timestamp parsing) and C19 (logical date/timestamp types).
package ctime

import (
	_ "time/tzdata"
	"fmt"
	"math"
	"time"
	"unsafe"

	"github.com/philpearl/avro"

	"verifharness/fw"
	"verifharness/ref"
	"verifharness/reg"
)

type TT struct{ T time.Time }

func mustCodec(schemaJSON string, out interface{}) avro.Codec {
	reg.Init()
	s, err := avro.SchemaFromString(schemaJSON)
	if err != nil {
		panic(err)
	}
	c, err := s.Codec(out)
	if err != nil {
		panic(fmt.Sprintf("codec for %s: %v", schemaJSON, err))
	}
	return c
}

func recSchema(fieldType string) string {
	return `{"type":"record","name":"r","fields":[{"name":"T","type":` + fieldType + `}]}`
}

type unit struct {
	name   string
	schema string
	toTime func(i int64) time.Time
	toInt  func(t time.Time) int64
	lo, hi int64 // representable range of the stored integer
}

var units = []unit{
	{"date", `{"type":"int","logicalType":"date"}`, func(i int64) time.Time { return time.Unix(i*86400, 0).UTC() },
		func(t time.Time) int64 { return floorDiv(t.Unix(), 86400) }, math.MinInt32, math.MaxInt32},
	{"timestamp-millis", `{"type":"long","logicalType":"timestamp-millis"}`, func(i int64) time.Time { return time.UnixMilli(i).UTC() },
		func(t time.Time) int64 { return t.UnixMilli() }, math.MinInt64 / 1000000, math.MaxInt64 / 1000000},
	{"timestamp-micros", `{"type":"long","logicalType":"timestamp-micros"}`, func(i int64) time.Time { return time.UnixMicro(i).UTC() },
		func(t time.Time) int64 { return t.UnixMicro() }, math.MinInt64 / 1000, math.MaxInt64 / 1000},
	{"long-nanos", `"long"`, func(i int64) time.Time { return time.Unix(0, i).UTC() },
		func(t time.Time) int64 { return t.UnixNano() }, math.MinInt64, math.MaxInt64},
	// the same plain long spelled as a JSON object, and with a logical type the library does not know
	// (the specification says unknown logical types are ignored): still the nanosecond convention
	{"long-nanos-objectform", `{"type":"long"}`, func(i int64) time.Time { return time.Unix(0, i).UTC() },
		func(t time.Time) int64 { return t.UnixNano() }, math.MinInt64, math.MaxInt64},
	// a logical type that is not defined for the primitive it annotates is ignored as well: "date" on a long
	{"long-nanos-date-on-long", `{"type":"long","logicalType":"date"}`, func(i int64) time.Time { return time.Unix(0, i).UTC() },
		func(t time.Time) int64 { return t.UnixNano() }, math.MinInt64, math.MaxInt64},
	{"long-nanos-unknown-logical", `{"type":"long","logicalType":"made-up-by-the-caller"}`, func(i int64) time.Time { return time.Unix(0, i).UTC() },
		func(t time.Time) int64 { return t.UnixNano() }, math.MinInt64, math.MaxInt64},
}

func floorDiv(a, b int64) int64 {
	q := a / b
	if a%b != 0 && (a < 0) != (b < 0) {
		q--
	}
	return q
}

var codecs = map[string]avro.Codec{}

func codecFor(u unit) avro.Codec {
	if c, ok := codecs[u.name]; ok {
		return c
	}
	c := mustCodec(recSchema(u.schema), TT{})
	codecs[u.name] = c
	return c
}

var rb = avro.NewReadBuf(nil)

func signClass(i int64) string {
	switch {
	case i < 0:
		return "negative"
	case i == 0:
		return "zero"
	}
	return "positive"
}

func readOne(c *fw.Ctx, u unit, i int64) {
	c.Eval(1)
	c.NontrivialN(1)
	b := ref.AppendLong(nil, i)
	var g [3]TT
	canary := time.Unix(12345, 678).UTC()
	g[0].T, g[2].T = canary, canary
	rb.Reset(b)
	err := codecFor(u).Read(rb, unsafe.Pointer(&g[1]))
	if err != nil {
		c.Violation("spurious-error|read|"+u.name+"|"+signClass(i), fmt.Sprintf("%s: stored integer %d rejected: %v", u.name, i, err), map[string]interface{}{"unit": u.name, "stored": i})
		return
	}
	want := u.toTime(i)
	got := g[1].T
	if i == -1 || i == 18690 {
		c.Sample(map[string]interface{}{"unit": u.name, "stored_integer": i, "decoded": got.Format(time.RFC3339Nano), "spec_instant": want.Format(time.RFC3339Nano)})
	}
	_, off := got.Zone()
	if !got.Equal(want) {
		c.Violation("wrong-instant|read|"+u.name+"|"+signClass(i), fmt.Sprintf("%s: stored integer %d decoded to %s, spec says %s", u.name, i, got.Format(time.RFC3339Nano), want.Format(time.RFC3339Nano)), map[string]interface{}{"unit": u.name, "stored": i})
		return
	}
	if off != 0 {
		c.Violation("wrong-zone|read|"+u.name, fmt.Sprintf("%s: decoded time has offset %d", u.name, off), map[string]interface{}{"unit": u.name, "stored": i})
	}
	if !g[0].T.Equal(canary) || !g[2].T.Equal(canary) || rb.Len() != 0 {
		c.Violation("side-effect|read|"+u.name, fmt.Sprintf("%s: neighbours modified or %d bytes left", u.name, rb.Len()), map[string]interface{}{"unit": u.name, "stored": i})
	}
}

func timeClass(t time.Time) string {
	if t.Unix() < 0 || (t.Unix() == 0 && t.Nanosecond() == 0 && false) {
		return "before-1970"
	}
	return "from-1970"
}

func writeOne(c *fw.Ctx, u unit, t time.Time) {
	c.Eval(1)
	c.NontrivialN(1)
	v := TT{T: t}
	w := avro.NewWriteBuf(nil)
	codecFor(u).Write(w, unsafe.Pointer(&v))
	want := u.toInt(t)
	det := map[string]interface{}{"unit": u.name, "time": t.Format(time.RFC3339Nano), "want_stored": want}
	got, n, cl := ref.ReadLong(w.Bytes())
	if cl != ref.VOK || n != len(w.Bytes()) {
		c.Violation("wrong-bytes|write|"+u.name, fmt.Sprintf("%s: time %s written as %x: not exactly one varint", u.name, t.Format(time.RFC3339Nano), w.Bytes()), det)
		return
	}
	if got != want {
		c.Violation("wrong-stored-integer|write|"+u.name+"|"+timeClass(t), fmt.Sprintf("%s: time %s stored as %d, the integer that decodes back to it (floor to the resolution) is %d", u.name, t.Format(time.RFC3339Nano), got, want), det)
		return
	}
	// the library's own Read of what it wrote must agree with the reference decode
	var back TT
	rb.Reset(w.Bytes())
	if err := codecFor(u).Read(rb, unsafe.Pointer(&back)); err != nil || !back.T.Equal(u.toTime(want)) {
		c.Violation("read-of-own-write-differs|"+u.name+"|"+timeClass(t), fmt.Sprintf("%s: time %s wrote %d, own Read gives %s err=%v", u.name, t.Format(time.RFC3339Nano), got, back.T.Format(time.RFC3339Nano), err), det)
	}
}

type task struct {
	name string
	run  func(c *fw.Ctx)
}

// TPos holds a logical-time value in every position a record can put it: behind pointers (twice, so that two
// values are allocated from the same resource bank), as array items, as map values and under nullable unions.
type TPos struct {
	A  *time.Time
	B  *time.Time
	L  []time.Time
	M  map[string]time.Time
	N  *time.Time
	N2 *time.Time
	Z  time.Time
	// nullable unions decoded into a time.Time VALUE (the shape generated for omitempty / BigQuery columns)
	NV  time.Time
	NV2 time.Time
}

func posSchema(u unit) string {
	t := u.schema
	return `{"type":"record","name":"p","fields":[{"name":"A","type":` + t + `},{"name":"B","type":` + t + `},{"name":"L","type":{"type":"array","items":` + t +
		`}},{"name":"M","type":{"type":"map","values":` + t + `}},{"name":"N","type":["null",` + t + `]},{"name":"N2","type":[` + t + `,"null"]},{"name":"Z","type":` + t + `},{"name":"NV","type":["null",` + t + `]},{"name":"NV2","type":[` + t + `,"null"]}]}`
}

type posVal struct {
	a, b    int64
	n       int // 0: both unions null, 1: N set, 2: N2 set, 3: both set
	la, lb  int64
	present bool
}

func encodePos(v posVal) []byte {
	b := ref.AppendLong(nil, v.a)
	b = ref.AppendLong(b, v.b)
	b = ref.AppendLong(b, 2) // array block of two
	b = ref.AppendLong(b, v.lb)
	b = ref.AppendLong(b, v.la)
	b = ref.AppendLong(b, 0)
	b = ref.AppendLong(b, 2) // map block of two
	b = append(ref.AppendLong(b, 1), 'j')
	b = ref.AppendLong(b, v.la)
	b = append(ref.AppendLong(b, 1), 'k')
	b = ref.AppendLong(b, v.lb)
	b = ref.AppendLong(b, 0)
	if v.n&1 != 0 {
		b = ref.AppendLong(b, 1)
		b = ref.AppendLong(b, v.b)
	} else {
		b = ref.AppendLong(b, 0)
	}
	if v.n&2 != 0 {
		b = ref.AppendLong(b, 0)
		b = ref.AppendLong(b, v.a)
	} else {
		b = ref.AppendLong(b, 1)
	}
	b = ref.AppendLong(b, v.la)
	b = ref.AppendLong(b, 1) // NV: [null,T], the T branch
	b = ref.AppendLong(b, v.la)
	b = ref.AppendLong(b, 0) // NV2: [T,null], the T branch
	return ref.AppendLong(b, v.lb)
}

func checkPos(u unit, v posVal, g *TPos) string {
	eq := func(name string, got *time.Time, want int64) string {
		if got == nil {
			return name + " is nil"
		}
		if _, off := got.Zone(); !got.Equal(u.toTime(want)) || off != 0 {
			return fmt.Sprintf("%s = %s, stored integer %d means %s", name, got.Format(time.RFC3339Nano), want, u.toTime(want).Format(time.RFC3339Nano))
		}
		return ""
	}
	if d := eq("A(*time.Time)", g.A, v.a); d != "" {
		return d
	}
	if d := eq("B(*time.Time)", g.B, v.b); d != "" {
		return d
	}
	if len(g.L) != 2 || len(g.M) != 2 {
		return fmt.Sprintf("array has %d items, map %d entries, want 2 and 2", len(g.L), len(g.M))
	}
	if d := eq("L[0]", &g.L[0], v.lb); d != "" {
		return d
	}
	if d := eq("L[1]", &g.L[1], v.la); d != "" {
		return d
	}
	mj, mk := g.M["j"], g.M["k"]
	if d := eq("M[j]", &mj, v.la); d != "" {
		return d
	}
	if d := eq("M[k]", &mk, v.lb); d != "" {
		return d
	}
	if v.n&1 != 0 {
		if d := eq("N([null,T])", g.N, v.b); d != "" {
			return d
		}
	} else if g.N != nil {
		return "N([null,T]) not nil for a null"
	}
	if v.n&2 != 0 {
		if d := eq("N2([T,null])", g.N2, v.a); d != "" {
			return d
		}
	} else if g.N2 != nil {
		return "N2([T,null]) not nil for a null"
	}
	if d := eq("Z", &g.Z, v.la); d != "" {
		return d
	}
	if d := eq("NV([null,T] into a time.Time value)", &g.NV, v.la); d != "" {
		return d
	}
	return eq("NV2([T,null] into a time.Time value)", &g.NV2, v.lb)
}

// runPositions decodes pairs of consecutive records (same ReadBuf, so the same resource bank) whose logical-time
// values sit in every position, checks every instant after BOTH records are decoded, then writes the decoded
// struct back and compares the bytes.
func runPositions(c *fw.Ctx, u unit) {
	codec := mustCodec(posSchema(u), TPos{})
	vals := []int64{0, -1, 1, 18690, u.lo, u.hi, -86400001, 1700000000123}
	var in []int64
	for _, x := range vals {
		if x >= u.lo && x <= u.hi {
			in = append(in, x)
		}
	}
	k := 0
	for _, a := range in {
		for _, b := range in {
			for n := 0; n < 4; n++ {
				k++
				v1 := posVal{a: a, b: b, n: n, la: in[k%len(in)], lb: in[(k/3)%len(in)]}
				v2 := posVal{a: b, b: in[(k+1)%len(in)], n: 3 - n, la: a, lb: in[(k/5)%len(in)]}
				e1, e2 := encodePos(v1), encodePos(v2)
				c.Eval(1)
				c.NontrivialN(1)
				det := map[string]interface{}{"unit": u.name, "record1": fmt.Sprintf("%+v", v1), "record2": fmt.Sprintf("%+v", v2)}
				desc := fmt.Sprintf("%s positions: records %+v then %+v", u.name, v1, v2)
				c.Guard("positions|"+u.name, desc, det, func() {
					r := avro.NewReadBuf(append(append([]byte(nil), e1...), e2...))
					var g1, g2 TPos
					if err := codec.Read(r, unsafe.Pointer(&g1)); err != nil {
						c.Violation("spurious-error|read|"+u.name+"|positions", fmt.Sprintf("%v — %s", err, desc), det)
						return
					}
					if err := codec.Read(r, unsafe.Pointer(&g2)); err != nil || r.Len() != 0 {
						c.Violation("spurious-error|read|"+u.name+"|positions", fmt.Sprintf("second record: %v, %d bytes left — %s", err, r.Len(), desc), det)
						return
					}
					if d := checkPos(u, v1, &g1); d != "" {
						c.Violation("wrong-instant|read|"+u.name+"|positions", "first record (checked after the second was decoded): "+d+" — "+desc, det)
						return
					}
					if d := checkPos(u, v2, &g2); d != "" {
						c.Violation("wrong-instant|read|"+u.name+"|positions", "second record: "+d+" — "+desc, det)
						return
					}
					w := avro.NewWriteBuf(nil)
					codec.Write(w, unsafe.Pointer(&g1))
					// map iteration order is free: accept either order of the two entries
					alt := posVal(v1)
					if !bytesEq(w.Bytes(), e1) && !bytesEq(w.Bytes(), swapMap(alt)) {
						c.Violation("wrong-bytes|write|"+u.name+"|positions", fmt.Sprintf("re-encoded %x, want %x — %s", w.Bytes(), e1, desc), det)
					}
				})
			}
		}
	}
	c.Sample(map[string]interface{}{"unit": u.name, "positions": "*T twice, []T, map[string]T, [null,T], [T,null], T", "record_pairs": k})
}

func bytesEq(a, b []byte) bool { return string(a) == string(b) }

// swapMap is encodePos with the two map entries in the other order.
func swapMap(v posVal) []byte {
	b := ref.AppendLong(nil, v.a)
	b = ref.AppendLong(b, v.b)
	b = ref.AppendLong(b, 2)
	b = ref.AppendLong(b, v.lb)
	b = ref.AppendLong(b, v.la)
	b = ref.AppendLong(b, 0)
	b = ref.AppendLong(b, 2)
	b = append(ref.AppendLong(b, 1), 'k')
	b = ref.AppendLong(b, v.lb)
	b = append(ref.AppendLong(b, 1), 'j')
	b = ref.AppendLong(b, v.la)
	b = ref.AppendLong(b, 0)
	if v.n&1 != 0 {
		b = ref.AppendLong(b, 1)
		b = ref.AppendLong(b, v.b)
	} else {
		b = ref.AppendLong(b, 0)
	}
	if v.n&2 != 0 {
		b = ref.AppendLong(b, 0)
		b = ref.AppendLong(b, v.a)
	} else {
		b = ref.AppendLong(b, 1)
	}
	b = ref.AppendLong(b, v.la)
	b = ref.AppendLong(b, 1) // NV: [null,T], the T branch
	b = ref.AppendLong(b, v.la)
	b = ref.AppendLong(b, 0) // NV2: [T,null], the T branch
	return ref.AppendLong(b, v.lb)
}

var memo19 = map[string][]task{}

func around(k int, d int64, lo, hi int64) []int64 {
	var out []int64
	add := func(v int64) {
		if v >= lo && v <= hi {
			out = append(out, v)
		}
	}
	for dd := -d; dd <= d; dd++ {
		if k >= 63 {
			if dd <= 0 {
				add(math.MaxInt64 + dd)
			}
			if dd >= 0 {
				add(math.MinInt64 + dd)
			}
			continue
		}
		add(int64(1)<<k + dd)
		add(-(int64(1) << k) + dd)
	}
	return out
}

var (
	minNs = time.Unix(0, math.MinInt64).UTC().Add(time.Second)
	maxNs = time.Unix(0, math.MaxInt64).UTC().Add(-time.Second)
)

func writeTimes(u unit) []time.Time {
	base := []time.Time{
		time.Unix(0, 0).UTC(),
		time.Date(2021, 3, 4, 5, 6, 7, 123456789, time.UTC),
		time.Date(2021, 3, 4, 5, 6, 7, 123456789, time.FixedZone("", 5*3600+1800)),
		time.Date(1969, 12, 31, 23, 59, 59, 500000000, time.FixedZone("", -8*3600)),
		time.Date(1969, 7, 20, 20, 17, 40, 1, time.UTC),
		time.Date(1900, 1, 1, 0, 0, 0, 0, time.UTC),
		time.Date(2262, 4, 11, 0, 0, 0, 0, time.UTC),
		time.Date(1677, 9, 22, 0, 0, 0, 0, time.UTC),
		time.Date(2000, 2, 29, 12, 0, 0, 999999999, time.UTC),
		time.Date(1970, 1, 1, 0, 0, 0, 0, time.FixedZone("", 14*3600)),
	}
	if u.name == "date" {
		base = append(base, time.Date(1, 1, 1, 0, 0, 0, 0, time.UTC), time.Date(9999, 12, 31, 23, 59, 59, 0, time.UTC), time.Date(1000, 6, 15, 1, 2, 3, 4, time.UTC))
	}
	steps := []time.Duration{0, 1, -1, 999, -999, 1000, -1000, 1001, -1001, 999999, -999999, 1000000, -1000000, 1000001, -1000001,
		time.Second, -time.Second, time.Second - 1, -time.Second + 1, 24 * time.Hour, -24 * time.Hour, 24*time.Hour - 1, -24*time.Hour + 1, 24*time.Hour + 1, -24*time.Hour - 1,
		12 * time.Hour, -12 * time.Hour, 500 * time.Microsecond, -500 * time.Microsecond, 1500 * time.Microsecond, -1500 * time.Microsecond}
	var out []time.Time
	for _, b := range base {
		for _, s := range steps {
			t := b.Add(s)
			if u.name != "date" && (t.Before(minNs) || t.After(maxNs)) {
				continue // the property ranges over instants representable in int64 nanoseconds
			}
			out = append(out, t)
		}
	}
	return out
}

func tasks19(tier string) []task {
	if t, ok := memo19[tier]; ok {
		return t
	}
	var ts []task
	du := units[0]
	if tier == "thorough" {
		const chunks = 512
		span := int64(1<<32) / chunks
		for k := int64(0); k < chunks; k++ {
			lo := int64(math.MinInt32) + k*span
			hi := lo + span - 1
			ts = append(ts, task{fmt.Sprintf("date-read[%d,%d]", lo, hi), func(c *fw.Ctx) {
				for i := lo; i <= hi; i++ {
					readOne(c, du, i)
				}
			}})
		}
	} else {
		const chunks = 16
		span := int64(1<<21) / chunks
		for k := int64(0); k < chunks; k++ {
			lo := -int64(1<<20) + k*span
			hi := lo + span - 1
			ts = append(ts, task{fmt.Sprintf("date-read[%d,%d]", lo, hi), func(c *fw.Ctx) {
				for i := lo; i <= hi; i++ {
					readOne(c, du, i)
				}
			}})
		}
		ts = append(ts, task{"date-read-boundaries", func(c *fw.Ctx) {
			for k := 0; k < 32; k++ {
				for _, i := range around(k, 512, du.lo, du.hi) {
					readOne(c, du, i)
				}
			}
		}})
	}
	d := int64(1024)
	if tier == "thorough" {
		d = 1 << 17
	}
	for _, u := range units[1:] {
		u := u
		for k0 := 0; k0 <= 63; k0 += 8 {
			k0 := k0
			ts = append(ts, task{fmt.Sprintf("%s-read-2^%d..", u.name, k0), func(c *fw.Ctx) {
				for k := k0; k < k0+8 && k <= 63; k++ {
					for _, i := range around(k, d, u.lo, u.hi) {
						readOne(c, u, i)
					}
				}
				// the extremes of the representable range
				for dd := int64(0); dd <= d; dd++ {
					readOne(c, u, u.lo+dd)
					readOne(c, u, u.hi-dd)
				}
			}})
		}
	}
	for _, u := range units {
		u := u
		ts = append(ts, task{u.name + "-write", func(c *fw.Ctx) {
			for _, t := range writeTimes(u) {
				writeOne(c, u, t)
			}
			c.Sample(map[string]interface{}{"unit": u.name, "direction": "write", "times": len(writeTimes(u)), "example": writeTimes(u)[3].Format(time.RFC3339Nano)})
		}})
	}
	for _, u := range units {
		u := u
		ts = append(ts, task{u.name + "-positions", func(c *fw.Ctx) { runPositions(c, u) }})
	}
	// the same instants whatever the process's local zone is: time.Local set to zones with daylight saving
	ts = append(ts, task{"process-zone-with-daylight-saving", func(c *fw.Ctx) {
		saved := time.Local
		defer func() { time.Local = saved }()
		for _, zn := range []string{"America/New_York", "Europe/London", "Australia/Lord_Howe"} {
			loc, err := time.LoadLocation(zn)
			if err != nil {
				c.HarnessError("tzdata: " + err.Error())
				return
			}
			time.Local = loc
			for _, u := range units {
				for _, base := range []int64{0, 1, -1, 180, 200, -180, 20454, 20635, 18690, -719162} { // days; scaled for the long units
					for d := int64(-2); d <= 2; d++ {
						i := base + d
						if u.name != "date" {
							i = (base+d)*86400*map[string]int64{"timestamp-millis": 1000, "timestamp-micros": 1000000}[u.name] + d
							if u.name != "timestamp-millis" && u.name != "timestamp-micros" {
								i = (base+d)*86400*1000000000 + d
							}
						}
						if i < u.lo || i > u.hi {
							continue
						}
						readOne(c, u, i)
						writeOne(c, u, u.toTime(i))
						writeOne(c, u, u.toTime(i).In(loc))
					}
				}
			}
		}
	}})
	ts = append(ts, task{"mixed-units-in-one-record", runMixedUnits})
	// write direction over every day boundary near the epoch: t = d*86400 s + {−1ns,0,+1ns}
	ts = append(ts, task{"date-write-day-boundaries", func(c *fw.Ctx) {
		n := int64(20000)
		if tier == "thorough" {
			n = 3000000
		}
		for dday := -n; dday <= n; dday++ {
			for _, off := range []int64{-1, 0, 1, 43200} {
				writeOne(c, du, time.Unix(dday*86400+off, 0).UTC())
			}
		}
	}})
	memo19[tier] = ts
	return ts
}

func init() {
	fw.Register(&fw.Check{
		ID:    "C19",
		Level: "exploration",
		Rule: func(tier string) string {
			if tier == "thorough" {
				return "exhaustive/structured enumeration through the real codecs built by Schema.Codec for struct{T time.Time}: read direction — every int32 day count (2^32); for timestamp-millis, timestamp-micros and plain long every 2^k±131072 inside the range representable in int64 nanoseconds plus the range extremes; write direction — ~13 base times × 31 offsets around them (±1ns/µs/ms/s/day) and every day boundary ±3,000,000 days around the epoch; and, per unit, pairs of consecutive records carrying the type in every position (two *time.Time fields, []time.Time, map[string]time.Time, [null,T] and [T,null] into *time.Time and into time.Time values, plain field) over all pairs of an 8-value alphabet × the 4 null patterns, checked after both records are decoded and re-encoded; and a set of summer and winter days/instants read and written with the process zone (time.Local) set to three daylight-saving zones; each (unit, integer) or (unit, time) is a distinct case; non-trivial = compared with independent arithmetic (time.Unix/UnixMilli/UnixMicro, floor division)"
			}
			return "exhaustive/structured enumeration through the real codecs built by Schema.Codec for struct{T time.Time}: read direction — every day count with |d|<=2^20 plus ±512 around every power of two; for timestamp-millis, timestamp-micros and plain long every 2^k±1024 inside the range representable in int64 nanoseconds plus the range extremes; write direction — ~13 base times × 31 offsets around them and every day boundary ±20,000 days around the epoch; per unit, pairs of consecutive records carrying the type in every position (two *time.Time fields, []time.Time, map[string]time.Time, [null,T] and [T,null] into *time.Time and into time.Time values, plain field) over all pairs of an 8-value alphabet × the 4 null patterns, checked after both records are decoded and re-encoded; a set of summer and winter days/instants read and written with the process zone (time.Local) set to three daylight-saving zones; each (unit, integer) or (unit, time) is a distinct case; non-trivial = compared with independent arithmetic"
		},
		Assumptions: []string{
			"plain long follows the library's documented convention: nanoseconds since the epoch",
			"also enumerated: every triple of the seven units as three time.Time fields (and three nullable *time.Time fields) of ONE record, read and re-encoded — each field under its own logical type",
			"'encoding stores the integer that decodes back to it at that type's resolution' is read as floor to the resolution (the only integer whose decoded instant is <= t and within one unit)",
			"long domains are covered on boundary sets (2^k±δ and range extremes), not completely",
		},
		NumCases: func(tier string) int { return len(tasks19(tier)) },
		RunCase: func(c *fw.Ctx, idx int) {
			t := tasks19(c.Tier)[idx]
			c.Begin("c19", t.name)
			if idx%29 == 0 {
				c.Sample(map[string]interface{}{"task": t.name})
			}
			t.run(c)
		},
		Budget: func(tier string) time.Duration { return 40 * time.Minute },
	})
}

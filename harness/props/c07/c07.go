// Package c07: the container reader delivers exactly the declared records and rejects damage.
package c07

import (
	"errors"
	"fmt"
	"io"
	"time"

	"verifharness/explore"
	"verifharness/filedrv"
	"verifharness/fw"
	"verifharness/ref"
)

var fam = map[string][]filedrv.File{}

func family(tier string) []filedrv.File {
	if f, ok := fam[tier]; ok {
		return f
	}
	n := 3
	if tier == "thorough" {
		n = 4
	}
	f := filedrv.Family(n)
	fam[tier] = f
	return f
}

var errSentinel = errors.New("callback sentinel")

type site struct {
	off   int
	kind  string // block-sync header-sync crc payload magic
	block int    // block the site belongs to (-1 header)
}

func sites(f filedrv.File) []site {
	var ss []site
	for i := 0; i < 4; i++ {
		ss = append(ss, site{i, "magic", -1})
	}
	if len(f.Layout.Blocks) > 0 {
		for i := f.Layout.SyncOff; i < f.Layout.HeaderEnd; i++ {
			ss = append(ss, site{i, "header-sync", 0})
		}
	}
	for k, b := range f.Layout.Blocks {
		for i := b.PayloadEnd; i < b.End; i++ {
			ss = append(ss, site{i, "block-sync", k})
		}
		if f.Codec == "snappy" {
			for i := b.PayloadEnd - 4; i < b.PayloadEnd; i++ {
				ss = append(ss, site{i, "crc", k})
			}
			for i := b.PayloadStart; i < b.PayloadEnd-4; i++ {
				ss = append(ss, site{i, "payload", k})
			}
		}
		if f.Codec == "deflate" {
			for i := b.PayloadStart; i < b.PayloadEnd; i++ {
				ss = append(ss, site{i, "payload", k})
			}
		}
	}
	return ss
}

func report(c *fw.Ctx, res filedrv.Result, locus, desc string, detail interface{}) bool {
	if res.Panic != nil {
		c.Violation("panic:"+fw.PanicClass(res.Panic)+"@"+res.Site+"|"+locus, fmt.Sprintf("panic %v — %s", res.Panic, desc), detail)
		return true
	}
	return false
}

func runFile(c *fw.Ctx, f filedrv.File) {
	total := len(f.Expected)
	// intact, all reader modes, value and pointer targets
	for mode := 0; mode < filedrv.NumReadModes; mode++ {
		for _, ptr := range []bool{false, true} {
			c.Eval(1)
			desc := fmt.Sprintf("intact file %s reader %s ptr=%v", f.Name, filedrv.ModeName(mode), ptr)
			locus := f.Codec + "|intact"
			c.Begin(locus, desc)
			res := filedrv.Read(f.Data, mode, f.SC.Type, ptr, -1, nil)
			if report(c, res, locus, desc, desc) {
				continue
			}
			c.Nontrivial(desc)
			if res.Err != nil {
				c.Violation("spurious-error|"+locus, fmt.Sprintf("ReadFile failed on an intact file: %v — %s", res.Err, desc), desc)
			} else if len(res.Records) != total {
				c.Violation("wrong-record-count|"+locus, fmt.Sprintf("%d records delivered, %d declared — %s", len(res.Records), total, desc), desc)
			} else if d := f.ComparePrefix(res.Records, total); d != "" {
				c.Violation("wrong-record|"+locus, d+" — "+desc, desc)
			}
		}
	}
	// (h) the caller's own *T: a first read of the file that its callback abandons at record i, then a complete read
	// into the same destination — the complete read delivers exactly the file's records
	if !f.Big && total >= 2 {
		for i := 0; i < total; i++ {
			c.Eval(1)
			desc := fmt.Sprintf("file %s read into a caller-owned destination that an earlier read, abandoned at record %d, has used", f.Name, i)
			locus := f.Codec + "|reused-destination"
			c.Begin(locus, desc)
			res := filedrv.ReadReusing(f.Data, i%filedrv.NumReadModes, f.SC.Type, i)
			if report(c, res, locus, desc, desc) {
				continue
			}
			c.Nontrivial(desc)
			if res.Err != nil {
				c.Violation("spurious-error|"+locus, fmt.Sprintf("%v — %s", res.Err, desc), desc)
			} else if len(res.Records) != total {
				c.Violation("wrong-record-count|"+locus, fmt.Sprintf("%d records delivered, %d declared — %s", len(res.Records), total, desc), desc)
			} else if d := f.ComparePrefix(res.Records, total); d != "" {
				c.Violation("wrong-record|"+locus, d+" — "+desc, desc)
			}
		}
	}
	// (g) a second reader of the same file, run to completion from inside the callback of record i: two readers
	// of one codec alive at once; the outer one must go on delivering its own records
	if !f.Big {
		for i := 0; i < total; i++ {
			c.Eval(1)
			desc := fmt.Sprintf("file %s, a second ReadFile of the same file run from inside the callback of record %d", f.Name, i)
			locus := f.Codec + "|nested-reader"
			c.Begin(locus, desc)
			res, innerN, innerErr := filedrv.ReadNested(f.Data, f.Data, i%filedrv.NumReadModes, f.SC.Type, i)
			if report(c, res, locus, desc, desc) {
				continue
			}
			c.Nontrivial(desc)
			switch {
			case res.Err != nil || innerErr != nil:
				c.Violation("spurious-error|"+locus, fmt.Sprintf("outer err=%v inner err=%v — %s", res.Err, innerErr, desc), desc)
			case len(res.Records) != total || innerN != total:
				c.Violation("wrong-record-count|"+locus, fmt.Sprintf("outer delivered %d, inner %d, the file holds %d — %s", len(res.Records), innerN, total, desc), desc)
			default:
				if d := f.ComparePrefix(res.Records, total); d != "" {
					c.Violation("wrong-record|"+locus, d+" — "+desc, desc)
				}
			}
		}
	}
	// (f) callback failure at every index, with the caller's own sentinel and with errors the reader itself knows
	// (a callback that reads from or writes to a stream of its own will return io.EOF and friends)
	for ei, cbErr := range []error{errSentinel, io.EOF, io.ErrUnexpectedEOF, io.ErrShortWrite} {
		for i := 0; i < total; i++ {
			if f.Long && i%397 != 0 && i != total-1 {
				continue
			}
			c.Eval(1)
			desc := fmt.Sprintf("file %s callback fails at record %d with %v", f.Name, i, cbErr)
			locus := f.Codec + "|callback-error"
			if ei > 0 {
				locus += "|io-error-value"
			}
			c.Begin(locus, desc)
			res := filedrv.Read(f.Data, (i+ei)%filedrv.NumReadModes, f.SC.Type, false, i, cbErr)
			if report(c, res, locus, desc, desc) {
				continue
			}
			c.Nontrivial(desc)
			if len(res.Records) != i+1 {
				c.Violation("callback-error-not-stopping|"+locus, fmt.Sprintf("%d callbacks, expected exactly %d — %s", len(res.Records), i+1, desc), desc)
			}
			if res.Err != cbErr {
				c.Violation("callback-error-changed|"+locus, fmt.Sprintf("ReadFile returned %v, expected the callback's error unchanged — %s", res.Err, desc), desc)
			}
			if d := f.ComparePrefix(res.Records, min(i+1, len(res.Records))); d != "" {
				c.Violation("wrong-record|"+locus, d+" — "+desc, desc)
			}
		}
	}
	// (f2) "stops reading at that record": once the callback has failed nothing more is taken from the reader, and
	// what comes after the record — a damaged sync marker, a marker that never arrives — cannot replace the
	// callback's error
	if !f.Long {
		for i := 0; i < total; i++ {
			if f.Big && i%211 != 0 && i != total-1 {
				continue
			}
			mode := i % 3 // the unbuffered readers: what the library takes is what it asked for
			c.Eval(1)
			desc := fmt.Sprintf("file %s callback fails at record %d; bytes taken from the reader afterwards", f.Name, i)
			locus := f.Codec + "|callback-error|reader-position"
			c.Begin(locus, desc)
			res, atFail, atReturn := filedrv.ReadStopping(f.Data, mode, f.SC.Type, i, errSentinel)
			if report(c, res, locus, desc, desc) {
				continue
			}
			c.Nontrivial(desc)
			if res.Err != errSentinel || len(res.Records) != i+1 {
				c.Violation("callback-error-changed|"+locus, fmt.Sprintf("ReadFile returned %v after %d callbacks — %s", res.Err, len(res.Records), desc), desc)
			} else if atReturn != atFail {
				c.Violation("reading-continues-after-callback-error|"+locus, fmt.Sprintf("%d bytes had been taken from the reader when the callback failed, %d when ReadFile returned — %s", atFail, atReturn, desc), desc)
			}
		}
		// the failing record is the last of its block and the block's marker is damaged / cut off
		for k, b := range f.Layout.Blocks {
			if f.Comp[k] == 0 {
				continue
			}
			i := f.RecordsBefore(k+1) - 1
			for vi, variant := range []string{"sync marker of that block damaged", "file ends right after that block's payload", "file ends inside that block's sync marker"} {
				var d []byte
				switch vi {
				case 0:
					d = append([]byte(nil), f.Data...)
					d[b.PayloadEnd] ^= 1
				case 1:
					d = append([]byte(nil), f.Data[:b.PayloadEnd]...)
				case 2:
					d = append([]byte(nil), f.Data[:b.PayloadEnd+7]...)
				}
				c.Eval(1)
				desc := fmt.Sprintf("file %s callback fails at record %d, the last of block %d; %s", f.Name, i, k, variant)
				locus := f.Codec + "|callback-error|then-damage"
				c.Begin(locus, desc)
				res := filedrv.Read(d, (k+vi)%filedrv.NumReadModes, f.SC.Type, false, i, errSentinel)
				if report(c, res, locus, desc, desc) {
					continue
				}
				c.Nontrivial(desc)
				if len(res.Records) != i+1 {
					c.Violation("callback-error-not-stopping|"+locus, fmt.Sprintf("%d callbacks, expected exactly %d — %s", len(res.Records), i+1, desc), desc)
				}
				if res.Err != errSentinel {
					c.Violation("callback-error-changed|"+locus, fmt.Sprintf("ReadFile returned %v, expected the callback's error unchanged — %s", res.Err, desc), desc)
				}
			}
		}
	}
	// bit flips
	data := make([]byte, len(f.Data))
	pstride := 23
	if len(f.Data) > 1<<16 {
		pstride = 499
	}
	for si, s := range sites(f) {
		if f.Big && s.kind == "payload" && si%pstride != 0 {
			continue
		}
		if f.Long && si%1013 != 0 {
			continue
		}
		for bit := 0; bit < 8; bit++ {
			copy(data, f.Data)
			data[s.off] ^= 1 << uint(bit)
			c.Eval(1)
			desc := fmt.Sprintf("file %s: bit %d of byte %d (%s of block %d) flipped", f.Name, bit, s.off, s.kind, s.block)
			locus := f.Codec + "|" + s.kind
			detail := map[string]interface{}{"file": f.Name, "offset": s.off, "bit": bit, "site": s.kind, "block": s.block}
			mustErr := true
			if s.kind == "payload" {
				b := f.Layout.Blocks[s.block]
				_, derr := ref.Decompress(f.Codec, data[b.PayloadStart:b.PayloadEnd])
				mustErr = derr != nil
				if !mustErr {
					// no claim: the statement covers only blocks the decompressor rejects
					// (what the decoder does with the resulting garbage is C06's business)
					c.Count("payload_flips_accepted_by_reference_decompressor_not_judged", 1)
					continue
				}
			}
			c.Begin(locus, desc)
			res := filedrv.Read(data, 0, f.SC.Type, false, -1, nil)
			if report(c, res, locus, desc, detail) {
				continue
			}
			c.Nontrivial(fmt.Sprintf("%s/%d/%d", f.Name, s.off, bit))
			if mustErr && res.Err == nil {
				c.Violation("missing-error|"+locus, "damaged file read without error — "+desc, detail)
			}
			// records of the blocks before the damaged one are delivered unmodified
			before := 0
			if s.block > 0 {
				before = f.RecordsBefore(s.block)
			}
			if s.kind == "magic" {
				before = 0
				if len(res.Records) != 0 {
					c.Violation("records-despite-bad-magic|"+locus, desc, detail)
				}
			}
			if d := f.ComparePrefix(res.Records, before); d != "" {
				c.Violation("earlier-records-damaged|"+locus, d+" — "+desc, detail)
			}
			if mustErr && s.kind != "payload" && s.kind != "crc" && s.kind != "magic" {
				// sync damage is detected only after the block's records were delivered: they must be intact too
				upto := f.RecordsBefore(s.block + 1)
				if d := f.ComparePrefix(res.Records, min(upto, len(res.Records))); d != "" {
					c.Violation("wrong-record|"+locus, d+" — "+desc, detail)
				}
			}
		}
	}
	// (e) metadata variants — only on the null-codec files (payload uncompressed)
	type mv struct {
		name    string
		meta    []ref.MetaEntry
		wantErr bool
		split   []int // entries per metadata map block (nil = one block)
		sized   bool  // map blocks in the byte-size-prefixed form
	}
	schemaJSON := f.SC.Schema.Print(nil)
	var mvs []mv
	mvs = append(mvs, mv{name: "schema-removed", meta: []ref.MetaEntry{{Key: "avro.codec", Val: []byte(f.Codec)}}, wantErr: true})
	mvs = append(mvs, mv{name: "schema-removed-no-codec", wantErr: true})
	mvs = append(mvs, mv{name: "codec-after-schema-swapped-order", meta: []ref.MetaEntry{{Key: "avro.codec", Val: []byte(f.Codec)}, {Key: "avro.schema", Val: []byte(schemaJSON)}}})
	mvs = append(mvs, mv{name: "extra-user-metadata", meta: []ref.MetaEntry{{Key: "user.note", Val: []byte("hello")}, {Key: "avro.schema", Val: []byte(schemaJSON)}, {Key: "avro.codec", Val: []byte(f.Codec)}}})
	if f.Codec == "null" {
		mvs = append(mvs, mv{name: "codec-absent", meta: ref.StdMeta(schemaJSON, "", false)})
		for _, bad := range []string{"", "Null", "NULL", "bzip2", "zstandard", "xz", "deflate ", " null", "snappy2"} {
			mvs = append(mvs, mv{name: fmt.Sprintf("codec=%q", bad), meta: ref.StdMeta(schemaJSON, bad, true), wantErr: true})
		}
	}
	// every way of writing the header's metadata MAP in several blocks (it is an ordinary Avro map): each of the
	// valid entry orders × every composition into blocks × plain / byte-size-prefixed blocks; and the unknown
	// codec names again with the codec entry in a block of its own before the schema's
	for _, base := range []mv{mvs[2], mvs[3], {"schema-then-codec", ref.StdMeta(schemaJSON, f.Codec, true), false, nil, false}} {
		for _, comp := range explore.Compositions(len(base.meta)) {
			for _, sized := range []bool{false, true} {
				if len(comp) == 1 && !sized {
					continue
				}
				v := base
				v.name = fmt.Sprintf("%s/map-blocks=%v/sized=%v", base.name, comp, sized)
				v.split, v.sized = comp, sized
				mvs = append(mvs, v)
			}
		}
	}
	if f.Codec == "null" {
		for _, bad := range []string{"", "bzip2", "zstandard"} {
			mvs = append(mvs, mv{fmt.Sprintf("codec=%q-in-its-own-map-block-first", bad), []ref.MetaEntry{{Key: "avro.codec", Val: []byte(bad)}, {Key: "avro.schema", Val: []byte(schemaJSON)}}, true, []int{1, 1}, false})
		}
	}
	for _, m := range mvs {
		c.Eval(1)
		data, _ := ref.WriteFileSplit(m.meta, m.split, m.sized, f.Codec, f.Sync, f.Blocks)
		desc := fmt.Sprintf("file %s with metadata variant %s", f.Name, m.name)
		locus := f.Codec + "|meta:" + m.name
		c.Begin(locus, desc)
		res := filedrv.Read(data, 0, f.SC.Type, false, -1, nil)
		if report(c, res, locus, desc, desc) {
			continue
		}
		c.Nontrivial(desc)
		if m.wantErr {
			if res.Err == nil {
				c.Violation("missing-error|"+locus, "file accepted — "+desc, desc)
			}
			if len(res.Records) != 0 {
				c.Violation("records-despite-bad-header|"+locus, desc, desc)
			}
			continue
		}
		if res.Err != nil {
			c.Violation("spurious-error|"+locus, fmt.Sprintf("%v — %s", res.Err, desc), desc)
		} else if len(res.Records) != total {
			c.Violation("wrong-record-count|"+locus, fmt.Sprintf("%d records delivered, %d declared — %s", len(res.Records), total, desc), desc)
		} else if d := f.ComparePrefix(res.Records, total); d != "" {
			c.Violation("wrong-record|"+locus, d+" — "+desc, desc)
		}
	}
	c.Sample(map[string]interface{}{"file": f.Name, "bytes": len(f.Data), "bit_flip_sites": len(sites(f)) * 8, "callback_failure_points": total, "metadata_variants": len(mvs)})
}

func init() {
	fw.Register(&fw.Check{
		ID:    "C07",
		Level: "fault_enumeration",
		Rule: func(tier string) string {
			n := 3
			if tier == "thorough" {
				n = 4
			}
			return fmt.Sprintf("file family {3 schemas} × {null,deflate,snappy} × every composition of <=%d records into blocks (+70-record blocks; + per codec two Big files: a 3000-record highly compressible block, and a 3/90/3-record file whose middle block exceeds 100 KiB on the wire so that the reader's buffer grows mid-block — for Big files payload bytes are flipped at every 23rd / 499th site, all other sites fully), written by the reference writer; per file: intact read under 6 readers (full, 1-byte, data+EOF, *bytes.Buffer, 16-byte *bufio.Reader, every other Read returning (0, nil)) × value/pointer target; files with EMPTY blocks (count 0) first, between and after full blocks; per codec a file of 2400 blocks of changing size (intact reads, callback failures and damage at spread sites only); a complete read into a caller-owned destination already used by a read abandoned at every record index; a second complete ReadFile of the same file started from inside the callback of every record index (two live readers of one codec); callback failing at every record index with the caller's own error value and with io.EOF / io.ErrUnexpectedEOF / io.ErrShortWrite — also with the bytes taken from the reader counted (none after the failure) and, when the failing record is the last of its block, with that block's sync marker damaged, missing or cut; every ordered triple of six files that share one record name and one Go type but differ in their field lists, read one after the other; EVERY BIT of every block sync marker, of the header sync (when a block exists), of every snappy CRC, of every compressed payload byte (deflate, snappy) and of the magic flipped one at a time; metadata variants (schema removed, codec absent/unknown spellings, reordered, extra keys, and the metadata map written in every composition of its entries into map blocks, plain and byte-size-prefixed); a case is one damaged or intact file; non-trivial = ReadFile completed and its result was compared with the oracle", n)
		},
		Assumptions: []string{
			"for a flipped payload bit the claim is made only when the reference decompressor (stdlib flate / golang/snappy + CRC) rejects the damaged payload; flips it accepts are counted, not judged",
			"callback error must be returned unchanged: compared with ==",
		},
		NumCases: func(tier string) int { return len(family(tier)) + 1 },
		RunCase: func(c *fw.Ctx, idx int) {
			if idx == len(family(c.Tier)) {
				runSameName(c)
				return
			}
			runFile(c, family(c.Tier)[idx])
		},
		Budget: func(tier string) time.Duration { return 30 * time.Minute },
	})
}

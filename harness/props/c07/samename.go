package c07

import (
	"fmt"
	"reflect"

	"verifharness/explore"
	"verifharness/filedrv"
	"verifharness/fw"
	"verifharness/gv"
	"verifharness/ref"
)

// SN is read from files that all call their record "SN" but list different fields: what a reader learned from one
// file's header must not be applied to the next file.
type SN struct {
	ID    int64  `json:"id"`
	Count int64  `json:"count"`
	Note  string `json:"note"`
}

func runSameName(c *fw.Ctx) {
	p := ref.Prim
	type sf struct {
		schema *ref.Schema
		recs   []ref.Datum
	}
	l, s := ref.DLong, ref.DString
	files := []sf{
		{ref.Record("SN", ref.F("id", p("long")), ref.F("count", p("long")), ref.F("note", p("string"))), []ref.Datum{ref.DRecord(l(1), l(10), s("a")), ref.DRecord(l(2), l(20), s("bb")), ref.DRecord(l(3), l(30), s(""))}},
		{ref.Record("SN", ref.F("count", p("long")), ref.F("id", p("long")), ref.F("note", p("string"))), []ref.Datum{ref.DRecord(l(10), l(1), s("a")), ref.DRecord(l(20), l(2), s("bb")), ref.DRecord(l(30), l(3), s("ccc"))}},
		{ref.Record("SN", ref.F("note", p("string")), ref.F("id", p("long"))), []ref.Datum{ref.DRecord(s("only-note"), l(7)), ref.DRecord(s(""), l(-8))}},
		{ref.Record("SN", ref.F("id", p("long"))), []ref.Datum{ref.DRecord(l(5)), ref.DRecord(l(6)), ref.DRecord(l(-7))}},
		{ref.Record("SN", ref.F("extra", p("double")), ref.F("count", p("long")), ref.F("id", p("long"))), []ref.Datum{ref.DRecord(ref.DDouble(1.5), l(40), l(4)), ref.DRecord(ref.DDouble(-2), l(50), l(5))}},
		{ref.Record("SN", ref.F("count", p("int")), ref.F("id", p("long"))), []ref.Datum{ref.DRecord(ref.DInt(9), l(90)), ref.DRecord(ref.DInt(-9), l(91))}},
	}
	t := reflect.TypeOf(SN{})
	type built struct {
		data [3][]byte
		want []reflect.Value
	}
	var bs []built
	for _, f := range files {
		var b built
		var payload []byte
		for _, d := range f.recs {
			payload = append(payload, ref.Encode(f.schema, d)...)
			v := reflect.New(t).Elem()
			if err := gv.Expect(f.schema, d, v); err != nil {
				panic(err)
			}
			b.want = append(b.want, v)
		}
		for ci, codec := range []string{"null", "deflate", "snappy"} {
			b.data[ci], _ = ref.WriteFile(ref.StdMeta(f.schema.Print(nil), codec, true), codec, [16]byte{1, 2, 3, 4, 5, 6, 7, 8, 9, 10, 11, 12, 13, 14, 15, 16}, []ref.Block{{Count: int64(len(f.recs)), Payload: payload}})
		}
		bs = append(bs, b)
	}
	k := 0
	explore.Sequences(len(files), 3, func(seq []int) {
		for pos, fi := range seq {
			k++
			c.Eval(1)
			desc := fmt.Sprintf("files %v (same record name SN, one Go type, field lists: 0 id,count,note; 1 count,id,note; 2 note,id; 3 id; 4 extra,count,id; 5 count:int,id) read one after the other; file at position %d", seq, pos)
			locus := "same-record-name"
			c.Begin(locus, desc)
			res := filedrv.Read(bs[fi].data[k%3], k%filedrv.NumReadModes, t, k%2 == 0, -1, nil)
			if report(c, res, locus, desc, desc) {
				return
			}
			c.Nontrivial(fmt.Sprintf("%v/%d", seq, pos))
			if res.Err != nil {
				c.Violation("spurious-error|"+locus, fmt.Sprintf("%v — %s", res.Err, desc), desc)
				return
			}
			if len(res.Records) != len(bs[fi].want) {
				c.Violation("wrong-record-count|"+locus, fmt.Sprintf("%d records delivered, %d declared — %s", len(res.Records), len(bs[fi].want), desc), desc)
				return
			}
			for i := range res.Records {
				if d := gv.Equal(bs[fi].want[i], res.Records[i]); d != "" {
					c.Violation("wrong-record|"+locus, fmt.Sprintf("record %d differs at %s: delivered %s, the file declares %s — %s", i, d, gv.Show(res.Records[i]), gv.Show(bs[fi].want[i]), desc), desc)
					return
				}
			}
		}
	})
	c.Sample(map[string]interface{}{"kind": "files sharing a record name and a Go type", "reads": k})
}

// Package c14: schema JSON parsing and serialisation are faithful inverses.
package c14

import (
	"encoding/json"
	"fmt"
	"os"
	"strings"
	"time"

	"github.com/philpearl/avro"

	"verifharness/aschema"
	"verifharness/fw"
	"verifharness/ref"
)

// ---- universe of schema ASTs

func leaves(full bool) []*ref.Schema {
	var ls []*ref.Schema
	for _, p := range []string{"null", "boolean", "int", "long", "float", "double", "bytes", "string"} {
		ls = append(ls, ref.Prim(p))
	}
	ls = append(ls,
		&ref.Schema{Type: "long", ObjectForm: true},
		&ref.Schema{Type: "string", ObjectForm: true},
		ref.Logical("int", "date"),
		ref.Logical("long", "timestamp-millis"),
		ref.Logical("long", "timestamp-micros"),
		&ref.Schema{Type: "fixed", Name: "Fx", Size: 16},
		&ref.Schema{Type: "fixed", Name: "Md5", Namespace: "org.example", Size: 1, Logical: "decimal"},
		&ref.Schema{Type: "enum", Name: "Suit", Symbols: []string{"SPADES", "HEARTS"}},
		&ref.Schema{Type: "enum", Name: "One", Namespace: "n.s", Symbols: []string{"A"}},
		// a dotted name next to a namespace attribute: both are attributes of the document and both must survive
		&ref.Schema{Type: "fixed", Name: "com.example.Dotted", Namespace: "org.other", Size: 2},
		&ref.Schema{Type: "enum", Name: "x.y.E2", Namespace: "zz", Symbols: []string{"P", "Q"}},
	)
	if !full {
		return []*ref.Schema{ref.Prim("null"), ref.Prim("long"), ref.Prim("string"), ref.Logical("long", "timestamp-micros"), {Type: "fixed", Name: "Fx", Size: 16}, {Type: "enum", Name: "Suit", Symbols: []string{"SPADES", "HEARTS"}}}
	}
	return ls
}

var nameCtr int

func wrap(inner []*ref.Schema, pairs []*ref.Schema) []*ref.Schema {
	var out []*ref.Schema
	for _, x := range inner {
		out = append(out, ref.Array(x), ref.Map(x))
		nameCtr++
		out = append(out, &ref.Schema{Type: "record", Name: fmt.Sprintf("R%d", nameCtr), Fields: []ref.Field{{Name: "f", Type: x}}})
		nameCtr++
		out = append(out, &ref.Schema{Type: "record", Name: fmt.Sprintf([]string{"R%d", "dotted.pkg.R%d"}[nameCtr%2], nameCtr), Namespace: "com.example.pkg_x", Fields: []ref.Field{{Name: "a_field", Type: x}, {Name: "b", Type: ref.Prim("string")}}})
		if x.Type != "union" {
			out = append(out, ref.Union(x))
			if x.Type != "null" {
				out = append(out, ref.Union(ref.Prim("null"), x), ref.Union(x, ref.Prim("null")))
			}
			if x.Type != "null" && x.Type != "boolean" && x.Type != "double" {
				out = append(out, ref.Union(ref.Prim("null"), x, ref.Prim("boolean"), ref.Prim("double")))
			}
		}
	}
	for i, a := range pairs {
		for j, b := range pairs {
			nameCtr++
			out = append(out, &ref.Schema{Type: "record", Name: fmt.Sprintf("P%d", nameCtr), Fields: []ref.Field{{Name: fmt.Sprintf("x%d", i), Type: a}, {Name: fmt.Sprintf("y%d", j), Type: b}, {Name: "z", Type: ref.Prim("boolean")}}})
		}
	}
	return out
}

var memoU = map[string][]*ref.Schema{}

func universe(tier string) []*ref.Schema {
	if u, ok := memoU[tier]; ok {
		return u
	}
	nameCtr = 0
	l := leaves(true)
	d1 := wrap(l, l[:5])
	var u []*ref.Schema
	u = append(u, l...)
	u = append(u, d1...)
	d2 := wrap(d1, nil)
	u = append(u, d2...)
	if tier == "thorough" {
		// depth 3 over a reduced leaf alphabet
		rl := leaves(false)
		r1 := wrap(rl, nil)
		r2 := wrap(r1, nil)
		r3 := wrap(r2, nil)
		u = append(u, r3...)
	}
	// an empty record and records with empty name parts
	u = append(u, &ref.Schema{Type: "record", Name: "Empty"})
	// named types identified by FULL name: the same short name in different namespaces, side by side in one union
	addr := func(ns string) *ref.Schema {
		return &ref.Schema{Type: "record", Name: "Address", Namespace: ns, Fields: []ref.Field{{Name: "line", Type: ref.Prim("string")}}}
	}
	u = append(u, ref.Union(ref.Prim("null"), addr("v1"), addr("v2")),
		ref.Union(&ref.Schema{Type: "fixed", Name: "Digest", Namespace: "a.b", Size: 4}, &ref.Schema{Type: "enum", Name: "Digest", Namespace: "c", Symbols: []string{"X"}}, ref.Prim("long")))
	// deep nesting ("nested to any depth"): nullable repeated records, 6 and 16 levels; arrays and maps 40 and 70 deep
	for _, d := range []int{6, 16} {
		x := ref.Prim("string")
		for i := 0; i < d; i++ {
			x = &ref.Schema{Type: "record", Name: fmt.Sprintf("Lvl%d_%d", d, i), Fields: []ref.Field{{Name: "id", Type: ref.Prim("long")}, {Name: "kids", Type: ref.Union(ref.Prim("null"), ref.Array(x))}}}
		}
		u = append(u, x)
	}
	for _, d := range []int{40, 70} {
		x := ref.Prim("long")
		for i := 0; i < d; i++ {
			if i%2 == 0 {
				x = ref.Array(x)
			} else {
				x = ref.Map(x)
			}
		}
		u = append(u, x)
	}
	// wide tables: documents of 20 KB to 300 KB (a file header holding one crosses the reader's 64 KiB chunks)
	for _, n := range []int{250, 760, 1500, 3300} {
		w := &ref.Schema{Type: "record", Name: fmt.Sprintf("WideTable%d", n), Namespace: "warehouse.exports"}
		for i := 0; i < n; i++ {
			ft := []*ref.Schema{ref.Prim("long"), ref.Prim("string"), ref.Logical("long", "timestamp-micros"), ref.Prim("double")}[i%4]
			w.Fields = append(w.Fields, ref.Field{Name: fmt.Sprintf("column_number_%04d", i), Type: ref.Union(ref.Prim("null"), ft)})
		}
		u = append(u, w)
	}
	memoU[tier] = u
	return u
}

// ---- key permutations

func permutations(n int) [][]int {
	if n <= 1 {
		return [][]int{{0}}[:n+0*1][:min(n, 1)]
	}
	var out [][]int
	var rec func(cur []int, used []bool)
	rec = func(cur []int, used []bool) {
		if len(cur) == n {
			out = append(out, append([]int(nil), cur...))
			return
		}
		for i := 0; i < n; i++ {
			if !used[i] {
				used[i] = true
				rec(append(cur, i), used)
				used[i] = false
			}
		}
	}
	rec(nil, make([]bool, n))
	return out
}

var permCache = map[int][][]int{}

// keyOrder returns the p-th ordering: every permutation for <=4 keys, rotations beyond.
func keyOrder(p int) func(keys []string) []string {
	return func(keys []string) []string {
		n := len(keys)
		if n <= 1 {
			return keys
		}
		out := make([]string, n)
		if n <= 4 {
			ps, ok := permCache[n]
			if !ok {
				ps = permutations(n)
				permCache[n] = ps
			}
			perm := ps[p%len(ps)]
			for i, j := range perm {
				out[i] = keys[j]
			}
			return out
		}
		r := p % n
		for i := range keys {
			out[i] = keys[(i+r)%n]
		}
		if p/n%2 == 1 { // also reversed rotations
			for i, j := 0, n-1; i < j; i, j = i+1, j-1 {
				out[i], out[j] = out[j], out[i]
			}
		}
		return out
	}
}

var extras = []ref.ExtraAttr{
	{Key: "doc", Raw: `"a \"doc\" string with {braces} and [brackets]"`},
	{Key: "default", Raw: `null`},
	{Key: "default", Raw: `{"type":"evil","name":"x","fields":[1,2]}`},
	{Key: "aliases", Raw: `["a","b.c"]`},
	{Key: "order", Raw: `"descending"`},
	{Key: "precision", Raw: `9`},
	{Key: "scale", Raw: `2.5e0`},
	{Key: "x-unknown", Raw: `{"type":["null",{"type":"array","items":"x"}],"k":[[],{}],"n":null,"t":true}`},
	{Key: "zzz", Raw: `[{"name":"q","type":"long"}]`},
	// attribute names are case-sensitive and exact: these are unknown attributes too, however much they look like supported ones
	{Key: "Size", Raw: `3`},
	{Key: "Name", Raw: `"Sneaky"`},
	{Key: "NAMESPACE", Raw: `"sn.eaky"`},
	{Key: "Items", Raw: `"long"`},
	{Key: "Values", Raw: `"int"`},
	{Key: "logical_type", Raw: `"date"`},
	{Key: "logical-type", Raw: `"date"`},
	{Key: "Symbols", Raw: `["Z"]`},
	{Key: "Type", Raw: `"string"`},
}

var caseVariantFrom = 9 // index of the first look-alike attribute in extras

// withExtra returns copies of s, each with one extra attribute inserted at one object node (schema object or field object).
func withExtra(s *ref.Schema, e ref.ExtraAttr) []*ref.Schema {
	var out []*ref.Schema
	// count object nodes
	type slot struct{ kind, idx int }
	var clone func(s *ref.Schema, target *int, hit *bool) *ref.Schema
	clone = func(s *ref.Schema, target *int, hit *bool) *ref.Schema {
		c := *s
		isObj := s.Type != "union" && (!ref.IsPrimitive(s.Type) || s.ObjectForm || s.Logical != "")
		if isObj {
			if *target == 0 && !*hit {
				c.Extra = append(append([]ref.ExtraAttr(nil), s.Extra...), e)
				*hit = true
			}
			*target--
		}
		if s.Items != nil {
			c.Items = clone(s.Items, target, hit)
		}
		if s.Values != nil {
			c.Values = clone(s.Values, target, hit)
		}
		if len(s.Branches) > 0 {
			c.Branches = nil
			for _, b := range s.Branches {
				c.Branches = append(c.Branches, clone(b, target, hit))
			}
		}
		if len(s.Fields) > 0 {
			c.Fields = nil
			for _, f := range s.Fields {
				nf := ref.Field{Name: f.Name}
				if *target == 0 && !*hit {
					nf.Extra = []ref.ExtraAttr{e}
					*hit = true
				}
				*target--
				nf.Type = clone(f.Type, target, hit)
				c.Fields = append(c.Fields, nf)
			}
		}
		return &c
	}
	for k := 0; ; k++ {
		t := k
		hit := false
		c := clone(s, &t, &hit)
		if !hit {
			break
		}
		out = append(out, c)
	}
	return out
}

func astKind(s *ref.Schema) string {
	k := s.Type
	switch {
	case s.Items != nil:
		k += ">" + s.Items.Type
	case s.Values != nil:
		k += ">" + s.Values.Type
	case len(s.Fields) > 0:
		k += ">" + s.Fields[0].Type.Type
	case len(s.Branches) > 0:
		k += ">" + s.Branches[len(s.Branches)-1].Type
	}
	if s.Logical != "" {
		k += "+logical"
	}
	if s.Namespace != "" {
		k += "+ns"
	}
	return k
}

func safeParse(doc string) (s avro.Schema, err error, pan interface{}, site string) {
	defer func() {
		if r := recover(); r != nil {
			pan = r
			site = fw.PanicSite(3)
		}
	}()
	s, err = avro.SchemaFromString(doc)
	return
}

// the previous Marshal result (as returned) and a private copy of it: a later Marshal must not change it
var prevOut, prevCopy []byte

func safeMarshal(s *avro.Schema) (b []byte, err error, pan interface{}, site string) {
	defer func() {
		if r := recover(); r != nil {
			pan = r
			site = fw.PanicSite(3)
		}
	}()
	b, err = s.Marshal()
	return
}

// checkDoc: parse doc, compare with the expected schema, marshal, re-parse.
func checkDoc(c *fw.Ctx, ast *ref.Schema, doc string, variant string) {
	c.Eval(1)
	kind := astKind(ast)
	got, err, pan, site := safeParse(doc)
	det := map[string]interface{}{"doc": clipS(doc, 600), "variant": variant}
	if pan != nil {
		c.Violation("panic:"+fw.PanicClass(pan)+"@"+site+"|parse|"+kind, fmt.Sprintf("SchemaFromString panicked: %v on %s", pan, clipS(doc, 200)), det)
		return
	}
	if err != nil {
		c.Violation("parse-error|"+kind+"|"+variant, fmt.Sprintf("valid schema rejected: %v — %s", err, clipS(doc, 200)), det)
		return
	}
	want := aschema.ToAvro(ast)
	if d := aschema.Diff(want, got); d != "" {
		c.Violation("parse-mismatch|"+kind+"|"+variant, fmt.Sprintf("parsed schema differs from the document at %s — %s", d, clipS(doc, 200)), det)
		return
	}
	out, err, pan, site := safeMarshal(&got)
	if pan != nil {
		c.Violation("panic:"+fw.PanicClass(pan)+"@"+site+"|marshal|"+kind, fmt.Sprintf("Marshal panicked: %v for %s", pan, clipS(doc, 200)), det)
		return
	}
	if err != nil {
		c.Violation("marshal-error|"+kind, fmt.Sprintf("Marshal failed: %v for %s", err, clipS(doc, 200)), det)
		return
	}
	if prevOut != nil && string(prevOut) != string(prevCopy) {
		c.Violation("marshal-result-changed-by-later-marshal|"+kind, fmt.Sprintf("bytes returned by an earlier Marshal (%s) were modified by a later Marshal call (now %s)", clipS(string(prevCopy), 120), clipS(string(prevOut), 120)), det)
		prevOut = nil
		return
	}
	prevOut, prevCopy = out, append([]byte(nil), out...)
	det["marshalled"] = clipS(string(out), 600)
	if !json.Valid(out) {
		c.Violation("marshal-invalid-json|"+kind, fmt.Sprintf("Marshal output is not valid JSON: %s", clipS(string(out), 200)), det)
		return
	}
	rs, rerr := ref.ParseSchema(out)
	if rerr != nil {
		c.Violation("marshal-not-a-schema|"+kind, fmt.Sprintf("Marshal output rejected by the reference parser: %v — %s", rerr, clipS(string(out), 200)), det)
		return
	}
	if !rs.Equal(ast) {
		c.Violation("marshal-loses-structure|"+kind, fmt.Sprintf("Marshal output %s does not describe the same schema as %s", clipS(string(out), 200), clipS(ast.Print(nil), 200)), det)
		return
	}
	back, err, pan, _ := safeParse(string(out))
	if pan != nil || err != nil {
		c.Violation("reparse-fails|"+kind, fmt.Sprintf("own Marshal output not parseable: err=%v panic=%v — %s", err, pan, clipS(string(out), 200)), det)
		return
	}
	if d := aschema.Diff(got, back); d != "" {
		c.Violation("marshal-parse-not-identity|"+kind, fmt.Sprintf("parse(Marshal(s)) differs from s at %s — %s", d, clipS(string(out), 200)), det)
	} else if d := formDiff(got, back, "schema"); d != "" {
		// "parses back to an identical schema": the Go value a caller compares (reflect.DeepEqual, cmp) keeps, per
		// node, whether the type was written as a bare name or as an object
		c.Violation("marshal-parse-not-identity|"+kind+"|object-form", fmt.Sprintf("parse(Marshal(s)) is not the value s: %s — document %s, marshalled %s", d, clipS(doc, 200), clipS(string(out), 200)), det)
	}
	// history: the caller edits everything reachable from the result (deriving another schema from it is ordinary
	// use), then parses the same document again: the second result is a function of the document alone
	scramble(&got)
	again, err, pan, _ := safeParse(doc)
	if pan != nil || err != nil {
		c.Violation("reparse-fails|"+kind+"|after-edit", fmt.Sprintf("parsing the same document again failed: err=%v panic=%v — %s", err, pan, clipS(doc, 200)), det)
	} else if d := aschema.Diff(want, again); d != "" {
		c.Violation("parse-depends-on-history|"+kind, fmt.Sprintf("after the first result was edited by the caller, parsing the same document again differs from the document at %s — %s", d, clipS(doc, 200)), det)
	}
	c.Nontrivial(doc)
}

// formDiff: where do a and b (already known to describe the same schema) differ in having / not having an Object?
func formDiff(a, b avro.Schema, path string) string {
	if (a.Object == nil) != (b.Object == nil) {
		return fmt.Sprintf("at %s one has an Object (object form), the other has none (bare name)", path)
	}
	for i := range a.Union {
		if i < len(b.Union) {
			if d := formDiff(a.Union[i], b.Union[i], fmt.Sprintf("%s.Union[%d]", path, i)); d != "" {
				return d
			}
		}
	}
	if a.Object != nil && b.Object != nil {
		for i := range a.Object.Fields {
			if i < len(b.Object.Fields) {
				if d := formDiff(a.Object.Fields[i].Type, b.Object.Fields[i].Type, fmt.Sprintf("%s.Fields[%d]", path, i)); d != "" {
					return d
				}
			}
		}
		if a.Type == "array" {
			if d := formDiff(a.Object.Items, b.Object.Items, path+".Items"); d != "" {
				return d
			}
		}
		if a.Type == "map" {
			if d := formDiff(a.Object.Values, b.Object.Values, path+".Values"); d != "" {
				return d
			}
		}
	}
	return ""
}

// scramble overwrites everything reachable from s in place.
func scramble(s *avro.Schema) {
	s.Type = "scrambled-" + s.Type
	for i := range s.Union {
		scramble(&s.Union[i])
	}
	if len(s.Union) > 1 {
		s.Union[0], s.Union[len(s.Union)-1] = s.Union[len(s.Union)-1], s.Union[0]
	}
	if o := s.Object; o != nil {
		o.Name += "V2"
		o.Namespace += ".v2"
		o.LogicalType = "scrambled"
		o.Size += 7
		for i := range o.Symbols {
			o.Symbols[i] = "S" + o.Symbols[i]
		}
		for i := range o.Fields {
			o.Fields[i].Name += "_v2"
			scramble(&o.Fields[i].Type)
		}
		scramble(&o.Items)
		scramble(&o.Values)
	}
}

var hdrFile string

// checkFileHeader: the same document stored as avro.schema in a container-file header and read back with
// FileSchema must give the same schema as SchemaFromString is required to give.
func checkFileHeader(c *fw.Ctx, ast *ref.Schema, doc string, variant string) {
	c.Eval(1)
	kind := astKind(ast)
	det := map[string]interface{}{"doc": clipS(doc, 600), "variant": variant, "path": "FileSchema"}
	got, err, ok := fileSchemaOf(c, doc)
	if !ok {
		return
	}
	if err != nil {
		c.Violation("parse-error|"+kind+"|"+variant+"|file-header", fmt.Sprintf("valid schema in a file header rejected: %v — %s", err, clipS(doc, 200)), det)
		return
	}
	if d := aschema.Diff(aschema.ToAvro(ast), got); d != "" {
		c.Violation("parse-mismatch|"+kind+"|"+variant+"|file-header", fmt.Sprintf("schema read from a file header differs from the document at %s — %s", d, clipS(doc, 200)), det)
	}
	c.Nontrivial("hdr:" + doc)
}

// fileSchemaOf stores doc as the avro.schema entry of an (otherwise empty) container file and reads it back
// with FileSchema; ok is false when the call panicked or the scratch file could not be written.
func fileSchemaOf(c *fw.Ctx, doc string) (got avro.Schema, err error, ok bool) {
	if hdrFile == "" {
		dir := os.Getenv("VERIF_WORK")
		if dir == "" {
			dir = os.TempDir()
		}
		f, cerr := os.CreateTemp(dir, "c14hdr-*.avro")
		if cerr != nil {
			c.HarnessError("cannot create a scratch file: " + cerr.Error())
			return
		}
		hdrFile = f.Name()
		f.Close()
	}
	data, _ := ref.WriteFile(ref.StdMeta(doc, "null", true), "null", [16]byte{1, 2, 3, 4}, nil)
	if werr := os.WriteFile(hdrFile, data, 0o644); werr != nil {
		c.HarnessError("cannot write the scratch file: " + werr.Error())
		return
	}
	if c.Guard("fileschema", "FileSchema on a header holding "+clipS(doc, 200), clipS(doc, 600), func() { got, err = avro.FileSchema(hdrFile) }) {
		return
	}
	return got, err, true
}

// CleanupC14 removes the worker's scratch file.
func cleanupC14() {
	if hdrFile != "" {
		os.Remove(hdrFile)
		hdrFile = ""
	}
}

func clipS(s string, n int) string {
	if len(s) > n {
		return s[:n] + "…"
	}
	return s
}

// malformed: every truncation and every structural-token deletion/duplication; oracle encoding/json.
func checkMalformed(c *fw.Ctx, doc string) {
	try := func(m string, how string) {
		c.Eval(1)
		s, err, pan, site := safeParse(m)
		if pan != nil {
			c.Violation("panic:"+fw.PanicClass(pan)+"@"+site+"|parse-malformed|"+how, fmt.Sprintf("SchemaFromString panicked: %v on %q", pan, clipS(m, 200)), m)
			return
		}
		if json.Valid([]byte(m)) {
			return
		}
		c.Nontrivial("mal:" + m)
		if err == nil {
			c.Violation("malformed-accepted|"+how, fmt.Sprintf("malformed JSON %q accepted as schema %+v", clipS(m, 200), s), m)
		}
		// the other entry point: the same bytes as the avro.schema entry of a container-file header
		if hs, herr, ok := fileSchemaOf(c, m); ok && herr == nil {
			c.Violation("malformed-accepted|"+how+"|file-header", fmt.Sprintf("malformed JSON %q in a file header accepted by FileSchema as schema %+v", clipS(m, 200), hs), m)
		}
	}
	for i := 0; i < len(doc); i++ {
		try(doc[:i], "truncation")
	}
	for i := 0; i < len(doc); i++ {
		if strings.ContainsRune(`{}[]:,"`, rune(doc[i])) {
			try(doc[:i]+doc[i+1:], "token-deleted")
			try(doc[:i]+doc[i:i+1]+doc[i:], "token-duplicated")
		}
	}
	try(doc+"}", "trailing")
	try(doc+"]", "trailing")
	try(doc+`"x"`, "trailing")
	try(doc+" "+doc, "trailing")
}

const chunk = 8

func numCases(tier string) int { return (len(universe(tier)) + chunk - 1) / chunk }

func runCase(c *fw.Ctx, idx int) {
	u := universe(c.Tier)
	for k := idx * chunk; k < (idx+1)*chunk && k < len(u); k++ {
		ast := u[k]
		c.Begin("c14", clipS(ast.Print(nil), 300))
		if strings.HasPrefix(ast.Name, "WideTable") {
			// documents of this size: three renderings, through SchemaFromString and through a file header
			for layout := 0; layout < 3; layout++ {
				doc := ast.Print(&ref.PrintOpts{KeyOrder: keyOrder(layout * 5), Layout: layout})
				checkDoc(c, ast, doc, "wide")
				checkFileHeader(c, ast, doc, "wide")
			}
			cleanupC14()
			continue
		}
		nperm := 24
		for p := 0; p < nperm; p++ {
			for layout := 0; layout < 3; layout++ {
				doc := ast.Print(&ref.PrintOpts{KeyOrder: keyOrder(p), Layout: layout})
				checkDoc(c, ast, doc, "plain")
			}
		}
		// the same documents as an ASCII-only / escaping JSON writer would render them: one character of every
		// string (type names, names, keys) as a \uXXXX escape, optionally '/' as \/
		for esc := 1; esc <= 2; esc++ {
			for layout := 0; layout < 3; layout++ {
				doc := ast.Print(&ref.PrintOpts{KeyOrder: keyOrder((k + layout + esc) % 24), Layout: layout, Escape: esc})
				checkDoc(c, ast, doc, "escaped")
			}
		}
		checkFileHeader(c, ast, ast.Print(&ref.PrintOpts{KeyOrder: keyOrder((k + 5) % 24), Layout: 1, Escape: 1}), "escaped")
		for ei, e := range extras {
			for vi, v := range withExtra(ast, e) {
				p := (ei*7 + vi) % 24
				doc := v.Print(&ref.PrintOpts{KeyOrder: keyOrder(p), Layout: (ei + vi) % 3})
				checkDoc(c, ast, doc, "extra:"+e.Key)
				// the extra attribute first and last
				doc = v.Print(&ref.PrintOpts{KeyOrder: keyOrder(0), Layout: 0})
				checkDoc(c, ast, doc, "extra:"+e.Key)
				if ei >= caseVariantFrom || vi == 0 {
					checkFileHeader(c, ast, doc, "extra:"+e.Key)
				}
			}
		}
		checkFileHeader(c, ast, ast.Print(&ref.PrintOpts{KeyOrder: keyOrder(k % 24), Layout: k % 3}), "plain")
		if ast.Nodes() <= 3 || k%16 == 0 {
			checkMalformed(c, ast.Print(nil))
			checkMalformed(c, ast.Print(&ref.PrintOpts{Layout: 2}))
		}
		cleanupC14()
		if k%97 == 0 {
			c.Sample(map[string]interface{}{"schema": ast.Print(nil), "permuted": ast.Print(&ref.PrintOpts{KeyOrder: keyOrder(17), Layout: 1})})
		}
	}
}

func init() {
	fw.Register(&fw.Check{
		ID:    "C14",
		Level: "exploration",
		Rule: func(tier string) string {
			d := "depth<=2 over 19 leaves (8 primitives in string form, object-form primitives, 3 logical types, 3 fixed, 3 enum; names with and without dots next to a namespace attribute)"
			if tier == "thorough" {
				d += " plus depth 3 over a 6-leaf alphabet"
			}
			return "every reference schema AST of " + d + " under constructors {array, map, record(1 field), record(2 fields, namespace), record(3 fields), union [X], [null,X], [X,null], [null,X,boolean,double]}; each rendered under 24 key orderings (every permutation for objects with <=4 keys, rotations/reversals beyond) × 3 whitespace layouts, and in 6 renderings with JSON string escapes (one character of every string, keys included, as \\uXXXX; optionally '/' as \\/), and with each of 18 extra attributes (doc, default null/object, aliases, order, precision, scale, unknown object, unknown array, and 9 look-alikes of supported attributes that differ only in case or punctuation: Size, Name, NAMESPACE, Items, Values, logical_type, logical-type, Symbols, Type) inserted at each schema object and each field object; SchemaFromString result compared structurally with the expected avro.Schema; Marshal output checked with encoding/json, re-parsed by the reference parser and by the library; after every document the caller-visible result is overwritten in place (every reachable string, slice element and size) and the same document parsed again, which must again equal the document; one rendering per AST and every look-alike-attribute document (plus one slot of every other extra) is also stored as avro.schema of a container-file header and read back with FileSchema, same oracle; malformed documents = every truncation and every structural-token deletion/duplication of the small documents, oracle json.Valid, through SchemaFromString and through a file header read with FileSchema; plus unions of named types that share a short name in different namespaces, and deep documents (nullable repeated records 6 and 16 levels deep, arrays/maps 40 and 70 deep), and wide tables of 250 to 3300 nullable columns (documents of 20 KB to 300 KB, also through a file header); parse(Marshal(s)) is compared with s including, per node, whether the type is a bare name or an object; non-trivial = a distinct document that reached the comparison"
		},
		Assumptions: []string{
			"a nil Object and an all-zero Object, nil and empty slices are identified (rendering details, not structure)",
			"malformed = rejected by encoding/json's validator; valid JSON that is not a schema is not judged",
		},
		NumCases: numCases,
		RunCase:  runCase,
		Budget:   func(tier string) time.Duration { return 30 * time.Minute },
	})
}

// Package c08: a truncated file yields a prefix of its records and an error.
package c08

import (
	"fmt"
	"time"

	"verifharness/filedrv"
	"verifharness/fw"
)

var fam = map[string][]filedrv.File{}

func family(tier string) []filedrv.File {
	if f, ok := fam[tier]; ok {
		return f
	}
	n := 3
	if tier == "thorough" {
		n = 5
	}
	f := filedrv.Family(n)
	fam[tier] = f
	return f
}

// region classifies a cut position for the violation signature.
func region(f filedrv.File, c int) string {
	l := f.Layout
	switch {
	case c < 4:
		return "in-magic"
	case c < l.SyncOff:
		return "in-meta"
	case c < l.HeaderEnd:
		return "in-header-sync"
	case c == l.HeaderEnd:
		return "at-header-end"
	}
	for _, b := range l.Blocks {
		switch {
		case c < b.SizeOff:
			return "in-block-count"
		case c == b.SizeOff:
			return "after-block-count"
		case c < b.PayloadStart:
			return "in-block-size"
		case c < b.PayloadEnd:
			return "in-payload"
		case c == b.PayloadEnd:
			return "at-payload-end"
		case c < b.End:
			return "in-block-sync"
		case c == b.End:
			return "at-block-end"
		}
	}
	return "?"
}

func runFile(c *fw.Ctx, f filedrv.File) {
	interesting := map[int]bool{}
	if f.Big {
		for _, b := range f.Layout.Blocks {
			for _, x := range []int{b.Start, b.SizeOff, b.PayloadStart, b.PayloadEnd, b.End} {
				for d := -3; d <= 3; d++ {
					interesting[x+d] = true
				}
			}
			for x := b.PayloadEnd; x <= b.End; x++ {
				interesting[x] = true
			}
		}
	}
	stride := 97
	if len(f.Data) > 1<<16 {
		stride = 251
		// the reader fetches a block in 64 KiB chunks: cuts around every chunk boundary inside a payload
		for _, b := range f.Layout.Blocks {
			for x := b.PayloadStart + 1<<16; x < b.PayloadEnd; x += 1 << 16 {
				for d := -2; d <= 2; d++ {
					interesting[x+d] = true
				}
			}
		}
	}
	if f.Long {
		// thousands of blocks: landmarks of every 97th block only, and a coarse stride elsewhere
		interesting = map[int]bool{}
		for bi, b := range f.Layout.Blocks {
			if bi%97 == 0 || bi == len(f.Layout.Blocks)-1 {
				for _, x := range []int{b.Start, b.SizeOff, b.PayloadStart, b.PayloadEnd, b.End} {
					for d := -1; d <= 1; d++ {
						interesting[x+d] = true
					}
				}
			}
		}
		stride = 2003
	}
	for cut := 0; cut <= len(f.Data); cut++ {
		if f.Big && cut > f.Layout.HeaderEnd+3 && !interesting[cut] && cut%stride != 0 {
			continue
		}
		// oracle from the reference layout of the uncut file
		complete := 0
		okEnd := cut == f.Layout.HeaderEnd
		for k, b := range f.Layout.Blocks {
			if b.PayloadEnd <= cut {
				complete = k + 1
			}
			if cut == b.End {
				okEnd = true
			}
		}
		if cut < f.Layout.HeaderEnd {
			complete = 0
		}
		wantRecs := f.RecordsBefore(complete)
		reg := region(f, cut)
		for mode := 0; mode < filedrv.NumReadModes; mode++ {
			c.Eval(1)
			c.Nontrivial(fmt.Sprintf("%s/%d/%d", f.Name, cut, mode))
			desc := fmt.Sprintf("file %s (%d bytes) cut at %d (%s), reader %s", f.Name, len(f.Data), cut, reg, filedrv.ModeName(mode))
			locus := f.Codec + "|" + reg
			detail := map[string]interface{}{"file": f.Name, "cut": cut, "region": reg, "reader": filedrv.ModeName(mode), "len": len(f.Data)}
			c.Begin(locus, desc)
			res := filedrv.Read(f.Data[:cut], mode, f.SC.Type, false, -1, nil)
			if res.Panic != nil {
				c.Violation("panic:"+fw.PanicClass(res.Panic)+"@"+res.Site+"|"+locus, fmt.Sprintf("panic %v — %s", res.Panic, desc), detail)
				continue
			}
			if len(res.Records) != wantRecs {
				c.Violation("wrong-record-count|"+locus, fmt.Sprintf("%d records delivered, %d expected (blocks completely present: %d) — %s", len(res.Records), wantRecs, complete, desc), detail)
				continue
			}
			if d := f.ComparePrefix(res.Records, wantRecs); d != "" {
				c.Violation("wrong-record|"+locus, d+" — "+desc, detail)
				continue
			}
			if okEnd && res.Err != nil {
				c.Violation("spurious-error|"+locus, fmt.Sprintf("prefix ends exactly at a boundary but ReadFile returned %v — %s", res.Err, desc), detail)
			}
			if !okEnd && res.Err == nil {
				c.Violation("missing-error|"+locus, "truncated file read without error — "+desc, detail)
			}
		}
	}
	c.Sample(map[string]interface{}{"file": f.Name, "bytes": len(f.Data), "cuts": len(f.Data) + 1, "reader_modes": filedrv.NumReadModes, "blocks": f.Comp})
}

func init() {
	fw.Register(&fw.Check{
		ID:    "C08",
		Level: "fault_enumeration",
		Rule: func(tier string) string {
			n := 3
			if tier == "thorough" {
				n = 5
			}
			return fmt.Sprintf("every cut position 0..len of every file of the family {3 schemas} × {null,deflate,snappy} × every composition of <=%d records into blocks (records of 1..200 encoded bytes; plus a 70-record block per codec for 2-byte count varints; plus, per codec, two Big files — a 3000-record highly compressible block and a 3/90/3-record file whose middle block is >100 KiB on the wire — cut at every header position, within ±3 of every block landmark and 64 KiB chunk boundary, and at every 97th/251st byte elsewhere; plus per codec a file of 2400 blocks of changing size cut at the landmarks of every 97th block and every 2003rd byte), written by the reference writer, × reader {full reads, 1-byte reads, data together with EOF, a *bytes.Buffer, a *bufio.Reader with a 16-byte buffer, a reader whose every other Read returns (0, nil)}; a case is one (file, cut, reader mode); non-trivial = ReadFile ran on the prefix and its deliveries and error were compared with the oracle derived from the reference layout", n)
		},
		Assumptions: []string{
			"files are produced by the reference writer (ref.WriteFile), whose layout offsets define which blocks are completely present at a cut",
			"delivered records are deep-copied inside the callback, so aliasing defects (C10) do not mask or cause C08 reports",
		},
		NumCases: func(tier string) int { return len(family(tier)) },
		RunCase: func(c *fw.Ctx, idx int) {
			runFile(c, family(c.Tier)[idx])
		},
		Budget: func(tier string) time.Duration { return 30 * time.Minute },
	})
}

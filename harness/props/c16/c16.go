// Package c16: write failures surface as errors and leave a clean prefix.
package c16

import (
	"bytes"
	"errors"
	"fmt"
	"io"
	"io/fs"
	"syscall"
	"time"

	"github.com/philpearl/avro"

	"verifharness/encdrv"
	"verifharness/explore"
	"verifharness/fw"
	"verifharness/ref"
)

var errInjected = errors.New("injected write failure")

// faultyWriter accepts writes until write index failAt, where it accepts
// only part of the data (mode) and returns the injected error; afterwards
// every write fails accepting nothing.
type faultyWriter struct {
	buf     bytes.Buffer
	writes  int
	failAt  int // -1 = never
	mode    int // accept = mode%4: 0 bytes, 1 byte, len-1 bytes, all len bytes (a non-nil error with n == len(p) is legal for an io.Writer)
	failed  bool
	lastLen int
	// transient: only write failAt fails; later writes succeed again (a connection that hit a deadline once)
	transient bool
	snap      []byte
	// err is the error value the failing write returns (errInjected unless set): callers look for THEIR error in
	// what the library returns, whatever its dynamic type
	err error
	// arm2: the next write fails (accepting nothing) with err2 — a second, different failure later in the history
	arm2, fired2 bool
	err2         error
}

func (w *faultyWriter) injected() error {
	if w.err != nil {
		return w.err
	}
	return errInjected
}

var errSecond = errors.New("second injected write failure, a different value")

func (w *faultyWriter) Write(p []byte) (int, error) {
	idx := w.writes
	w.writes++
	if w.arm2 {
		w.arm2, w.fired2 = false, true
		return 0, w.err2
	}
	if w.failed && !w.transient {
		return 0, w.injected()
	}
	if idx == w.failAt {
		w.failed = true
		n := 0
		switch w.mode % 4 {
		case 1:
			n = 1
		case 2:
			n = len(p) - 1
		case 3:
			n = len(p)
		}
		if n > len(p) {
			n = len(p)
		}
		if n < 0 {
			n = 0
		}
		w.buf.Write(p[:n])
		w.snap = append([]byte(nil), w.buf.Bytes()...) // what the writer had accepted when it failed
		return n, w.injected()
	}
	w.buf.Write(p)
	return len(p), nil
}

// richWriter is the same sink seen through a type that also offers the optional methods code likes to probe a
// writer for (Flush, Close, WriteString, Sync); none of them fails and none of them may change what the caller
// is told about a failed Write. WriteString and WriteByte are writes like any other and share the fault injector.
type richWriter struct {
	*faultyWriter
	flushes int
}

func (w *richWriter) Flush() error { w.flushes++; return nil }
func (w *richWriter) Sync() error  { return nil }
func (w *richWriter) Close() error { return nil }
func (w *richWriter) WriteString(s string) (int, error) {
	return w.faultyWriter.Write([]byte(s))
}

// WriteByte is one write like any other: it can be the one that fails.
func (w *richWriter) WriteByte(b byte) error {
	_, err := w.faultyWriter.Write([]byte{b})
	return err
}

// numModes: modes 0..7 = accept kind (mode%4) × {persistent, transient}; modes 8 and 9 = accept 0 bytes,
// persistent / transient, through a richWriter.
const numModes = 14

func newFaulty(k, mode int) (*faultyWriter, io.Writer) {
	if mode >= 10 {
		// modes 10..13: accept 0 bytes, persistent / transient, and the error is not a plain sentinel: a
		// *fs.PathError (what a failing *os.File returns) or an error that itself wraps another
		f := &faultyWriter{failAt: k, mode: 0, transient: mode%2 == 1}
		if mode < 12 {
			f.err = &fs.PathError{Op: "write", Path: "/mnt/out.avro", Err: syscall.ENOSPC}
		} else {
			f.err = fmt.Errorf("remote sink: %w", io.ErrClosedPipe)
		}
		return f, f
	}
	if mode >= 8 {
		f := &faultyWriter{failAt: k, mode: 0, transient: mode == 9}
		return f, &richWriter{faultyWriter: f}
	}
	f := &faultyWriter{failAt: k, mode: mode % 4, transient: mode >= 4}
	return f, f
}

type config struct {
	k     encdrv.Kind
	codec string
	bs    int
	depth int
}

func configs(tier string) []config {
	d := 4
	if tier == "thorough" {
		d = 6
	}
	var cs []config
	for _, codec := range []string{"null", "deflate", "snappy"} {
		for _, bs := range []int{0, 10, 1 << 20} {
			cs = append(cs, config{encdrv.K1, codec, bs, d})
		}
		cs = append(cs, config{encdrv.K0, codec, 0, d + 1})
		cs = append(cs, config{encdrv.KW, codec, 0, d - 1})
	}
	return cs
}

// rekey returns the fault-free output with its sync marker replaced by sync.
func rekey(clean []byte, sync []byte) []byte {
	p, err := ref.ParseFile(clean)
	if err != nil {
		return clean
	}
	out := append([]byte(nil), clean...)
	copy(out[p.HeaderEnd-16:], sync)
	for _, b := range p.Blocks {
		copy(out[b.End-16:], sync)
	}
	return out
}

func runHistory(c *fw.Ctx, cf config, h []int) {
	desc := fmt.Sprintf("%s codec=%s blocksize=%d history=[%s]", cf.k.Name, cf.codec, cf.bs, encdrv.HistString(cf.k, h))
	locus := cf.k.Name
	c.Begin(locus, desc) // progress marker (the watchdog needs to see progress inside long cases)
	// fault-free runs, one per writer shape (a tree may drive a writer that offers WriteByte / WriteString through
	// those): learn the number of writes, which call issues which, and the clean output
	type cleanRun struct {
		total, hdrWrites int
		writeOfCall      []int
		out              []byte
		hdrLen           int
	}
	runClean := func(rich bool) (cr cleanRun, ok bool) {
		clean := &faultyWriter{failAt: -1}
		var sink io.Writer = clean
		if rich {
			sink = &richWriter{faultyWriter: clean}
		}
		ok = true
		cr.hdrWrites = 1
		c.Guard(locus, desc, desc, func() {
			e, err := encdrv.New(cf.k, sink, cf.codec, cf.bs)
			if err != nil {
				ok = false
				return
			}
			cr.hdrWrites = clean.writes // however many writes the constructor's header takes on this tree
			for _, op := range h {
				cr.writeOfCall = append(cr.writeOfCall, clean.writes)
				if cf.k.IsFlush(op) {
					err = e.Flush()
				} else {
					err = e.Encode(op)
				}
				if err != nil {
					ok = false
					return
				}
			}
		})
		if !ok {
			c.Violation("fault-free-run-failed|"+locus, "fault-free run failed: "+desc, desc)
			return cr, false
		}
		cr.total = clean.writes
		cr.out = clean.buf.Bytes()
		cp, err := ref.ParseFile(cr.out)
		if err != nil {
			c.Violation("fault-free-run-unparseable|"+locus, "fault-free output unparseable: "+desc, desc)
			return cr, false
		}
		cr.hdrLen = cp.HeaderEnd
		return cr, true
	}
	plain, ok1 := runClean(false)
	rich, ok2 := runClean(true)
	if !ok1 || !ok2 {
		return
	}
	for mode := 0; mode < numModes; mode++ {
		cr := plain
		if mode >= 8 {
			cr = rich
		}
		for k := 0; k < cr.total; k++ {
			if mode >= 10 && k < cr.hdrWrites && mode%2 == 1 {
				continue // a failed header write ends the attempt: transient and persistent are the same there
			}
			c.Eval(1)
			c.Nontrivial(fmt.Sprintf("%s/%s/%d/%s/%d/%d", cf.k.Name, cf.codec, cf.bs, encdrv.HistString(cf.k, h), k, mode))
			oneFault(c, cf, h, k, mode, cr.out, cr.hdrLen, cr.hdrWrites, cr.writeOfCall, desc, locus)
		}
	}
}

func writeRole(k int) string { return writeRoleH(k, 1) }

// writeRoleH names write k when the header takes hw writes (labels only: blocks are assumed to take four).
func writeRoleH(k, hw int) string {
	if k < hw {
		return "header"
	}
	return [...]string{"count", "size", "payload", "sync"}[(k-hw)%4]
}

func oneFault(c *fw.Ctx, cf config, h []int, k, mode int, cleanOut []byte, hdrLen int, hdrWrites int, writeOfCall []int, desc, locus string) {
	fw_, sink := newFaulty(k, mode)
	detail := map[string]interface{}{"type": cf.k.Name, "codec": cf.codec, "blocksize": cf.bs, "history": encdrv.HistString(cf.k, h), "fail_write": k, "mode": mode}
	d2 := fmt.Sprintf("%s failing write #%d (%s) mode %d", desc, k, writeRoleH(k, hdrWrites), mode)
	role := writeRoleH(k, hdrWrites)
	c.Guard(locus+"|"+role, d2, detail, func() {
		e, err := encdrv.New(cf.k, sink, cf.codec, cf.bs)
		if k < hdrWrites {
			if err == nil {
				c.Violation("missing-error|"+locus+"|header", "NewEncoderFor returned nil although the header write failed — "+d2, detail)
			} else if !errors.Is(err, fw_.injected()) {
				c.Violation("error-not-wrapped|"+locus+"|header", fmt.Sprintf("NewEncoderFor error %v does not wrap the writer's error — %s", err, d2), detail)
			}
			checkPrefix(c, fw_.snap, cleanOut, hdrLen, locus, role, d2, detail)
			return
		}
		if err != nil {
			c.Violation("spurious-error|"+locus+"|ctor", fmt.Sprintf("NewEncoderFor failed (%v) although write 0 succeeded — %s", err, d2), detail)
			return
		}
		for i, op := range h {
			if cf.k.IsFlush(op) {
				err = e.Flush()
			} else {
				err = e.Encode(op)
			}
			// which writes does this call issue in the clean run?
			lo := writeOfCall[i]
			hi := len(cleanOut) // dummy
			_ = hi
			next := -1
			if i+1 < len(writeOfCall) {
				next = writeOfCall[i+1]
			}
			triggers := k >= lo && (next == -1 || k < next)
			if triggers {
				if err == nil {
					c.Violation("missing-error|"+locus+"|"+role, fmt.Sprintf("call %d (%s) returned nil although its write #%d failed — %s", i, cf.k.OpName(op), k, d2), detail)
				} else if !errors.Is(err, fw_.injected()) {
					c.Violation("error-not-wrapped|"+locus+"|"+role, fmt.Sprintf("call %d error %v does not wrap the writer's error — %s", i, err, d2), detail)
				}
				checkPrefix(c, fw_.snap, cleanOut, hdrLen, locus, role, d2, detail)
				if fw_.transient {
					// a writer that fails once accepts later writes again: what it holds when the failing CALL
					// returns (not just at the instant of the failure) must still be a prefix of the fault-free run
					checkPrefix(c, fw_.buf.Bytes(), cleanOut, hdrLen, locus, role+"|at-call-return", d2, detail)
					// the caller carries on with the same encoder, and the sink fails once more, with a
					// DIFFERENT error value, at the next write: the call that meets it reports THAT error
					fw_.arm2, fw_.err2 = true, errSecond
					rest := append(append([]int(nil), h[i+1:]...), cf.k.NumOps()-1, 0, cf.k.NumOps()-1)
					for j, op2 := range rest {
						var err2 error
						if cf.k.IsFlush(op2) {
							err2 = e.Flush()
						} else {
							err2 = e.Encode(op2)
						}
						if fw_.fired2 {
							if err2 == nil {
								c.Violation("missing-error|"+locus+"|second-failure", fmt.Sprintf("after the first failure, call +%d (%s) returned nil although its write failed — %s", j+1, cf.k.OpName(op2), d2), detail)
							} else if !errors.Is(err2, errSecond) {
								c.Violation("error-not-wrapped|"+locus+"|second-failure", fmt.Sprintf("after the first failure, call +%d met a second write failure (%v) but returned %v, which does not wrap it — %s", j+1, errSecond, err2, d2), detail)
							}
							break
						}
					}
				}
				return
			}
			if err != nil {
				c.Violation("spurious-error|"+locus+"|"+role, fmt.Sprintf("call %d returned %v before the failing write — %s", i, err, d2), detail)
				return
			}
		}
		c.Violation("fault-not-reached|"+locus, "harness: failing write index never reached — "+d2, detail)
	})
}

func checkPrefix(c *fw.Ctx, got, cleanOut []byte, hdrLen int, locus, role, d2 string, detail interface{}) {
	if len(got) > len(cleanOut) {
		c.Violation("not-a-prefix|"+locus+"|"+role, fmt.Sprintf("accepted %d bytes, more than the fault-free run's %d — %s", len(got), len(cleanOut), d2), detail)
		return
	}
	exp := cleanOut
	if len(got) >= hdrLen {
		exp = rekey(cleanOut, got[hdrLen-16:hdrLen])
	} else if len(got) > hdrLen-16 {
		// partial sync marker accepted: only the part before the sync is comparable
		got = got[:hdrLen-16]
	}
	if !bytes.Equal(got, exp[:len(got)]) {
		i := 0
		for i < len(got) && got[i] == exp[i] {
			i++
		}
		c.Violation("not-a-prefix|"+locus+"|"+role, fmt.Sprintf("accepted bytes diverge from the fault-free run at offset %d — %s", i, d2), detail)
	}
}

// direct FileWriter histories: WriteHeader then blocks of given (count, payload).
func runFileWriter(c *fw.Ctx, codec string, nblocks int) {
	payloads := [][]byte{{}, {0x02}, bytes.Repeat([]byte{0x61}, 50)}
	locus := "FileWriter"
	explore.Sequences(len(payloads), nblocks, func(seq []int) {
		desc := fmt.Sprintf("FileWriter codec=%s blocks=%v", codec, seq)
		// clean run
		run := func(w io.Writer, fixed *avro.FileWriter) (errs []error, fwr *avro.FileWriter) {
			fwr = fixed
			if fwr == nil {
				var err error
				fwr, err = avro.NewFileWriter([]byte(`"long"`), avro.Compression(codec))
				if err != nil {
					return []error{err}, nil
				}
			}
			errs = append(errs, fwr.WriteHeader(w))
			for _, s := range seq {
				if errs[len(errs)-1] != nil {
					break // behaviour after an error is not specified
				}
				errs = append(errs, fwr.WriteBlock(w, s+1, payloads[s]))
			}
			for len(errs) < len(seq)+1 {
				errs = append(errs, nil)
			}
			return errs, fwr
		}
		clean := &faultyWriter{failAt: -1}
		errs, _ := run(clean, nil)
		for _, e := range errs {
			if e != nil {
				c.Violation("fault-free-run-failed|"+locus, desc+": "+e.Error(), desc)
				return
			}
		}
		cp, err := ref.ParseFile(clean.buf.Bytes())
		if err != nil {
			c.Violation("fault-free-run-unparseable|"+locus, desc+": "+err.Error(), desc)
			return
		}
		for k := 0; k < clean.writes; k++ {
			for mode := 0; mode < numModes; mode++ {
				c.Eval(1)
				c.Nontrivial(fmt.Sprintf("fwriter/%s/%v/%d/%d", codec, seq, k, mode))
				w, sink := newFaulty(k, mode)
				role := writeRole(k)
				d2 := fmt.Sprintf("%s failing write #%d (%s) mode %d", desc, k, role, mode)
				c.Guard(locus+"|"+role, d2, d2, func() {
					errs, fwr := run(sink, nil)
					// call index that issues write k: header = call 0 (1 write), block j = call j+1 (4 writes)
					call := 0
					if k > 0 {
						call = (k-1)/4 + 1
					}
					for i := 0; i < call; i++ {
						if errs[i] != nil {
							c.Violation("spurious-error|"+locus+"|"+role, fmt.Sprintf("call %d failed early: %v — %s", i, errs[i], d2), d2)
							return
						}
					}
					if errs[call] == nil {
						c.Violation("missing-error|"+locus+"|"+role, fmt.Sprintf("call %d returned nil although its write failed — %s", call, d2), d2)
					} else if !errors.Is(errs[call], w.injected()) {
						c.Violation("error-not-wrapped|"+locus+"|"+role, fmt.Sprintf("call %d error %v does not wrap the writer's error — %s", call, errs[call], d2), d2)
					}
					// the prefix is what was accepted up to and including the failing write
					checkPrefix(c, w.snap, clean.buf.Bytes(), cp.HeaderEnd, locus, role, d2, d2)
					if w.transient {
						checkPrefix(c, w.buf.Bytes(), clean.buf.Bytes(), cp.HeaderEnd, locus, role+"|at-call-return", d2, d2)
					}
					// the SAME FileWriter used again for a complete, fault-free file (a caller that opens a new
					// destination after the failure): what the failed attempt left inside the FileWriter must not
					// show up in the new file
					if fwr != nil && mode%4 == 0 {
						again := &faultyWriter{failAt: -1}
						errs2, _ := run(again, fwr)
						for _, e := range errs2 {
							if e != nil {
								c.Violation("spurious-error|"+locus+"|reused-after-failure", fmt.Sprintf("fault-free run on the reused FileWriter failed: %v — %s", e, d2), d2)
								return
							}
						}
						checkPrefix(c, again.buf.Bytes(), clean.buf.Bytes(), cp.HeaderEnd, locus, role+"|reused-after-failure", d2, d2)
						if len(again.buf.Bytes()) != len(clean.buf.Bytes()) {
							c.Violation("not-a-prefix|"+locus+"|"+role+"|reused-after-failure", fmt.Sprintf("the reused FileWriter wrote %d bytes, a fresh one %d — %s", len(again.buf.Bytes()), len(clean.buf.Bytes()), d2), d2)
						}
					}
				})
			}
		}
	})
}

type task struct {
	name string
	run  func(c *fw.Ctx)
}

func tasks(tier string) []task {
	var ts []task
	for _, cf := range configs(tier) {
		cf := cf
		// one task per first op to spread the load
		for first := 0; first < cf.k.NumOps(); first++ {
			first := first
			ts = append(ts, task{fmt.Sprintf("%s %s bs=%d first=%s", cf.k.Name, cf.codec, cf.bs, cf.k.OpName(first)), func(c *fw.Ctx) {
				if first == 0 {
					runHistory(c, cf, nil)
				}
				for l := 1; l <= cf.depth; l++ {
					explore.Sequences(cf.k.NumOps(), l-1, func(rest []int) {
						h := append([]int{first}, rest...)
						runHistory(c, cf, h)
					})
				}
				c.Sample(map[string]interface{}{"type": cf.k.Name, "codec": cf.codec, "blocksize": cf.bs, "first_op": cf.k.OpName(first), "max_history_len": cf.depth, "fault_modes": []string{"accept 0 bytes", "accept 1 byte", "accept len-1 bytes", "accept all bytes, still an error", "each persistent or transient", "accept 0 bytes through a writer that also has Flush/Sync/Close/WriteString"}})
			}})
		}
	}
	// one long history: tens of thousands of rows in a single block (whatever the encoder does "every so many
	// rows" happens somewhere inside), then a flush
	for _, codec := range []string{"null", "deflate", "snappy"} {
		codec := codec
		ts = append(ts, task{"long history " + codec, func(c *fw.Ctx) {
			h := make([]int, 0, 40001)
			for i := 0; i < 40000; i++ {
				h = append(h, i%2)
			}
			h = append(h, encdrv.K1.NumOps()-1) // flush
			runHistory(c, config{encdrv.K1, codec, 1 << 22, len(h)}, h)
			c.Sample(map[string]interface{}{"type": encdrv.K1.Name, "codec": codec, "history": "40000 x encode(1B/10B alternating), flush", "blocksize": 1 << 22})
		}})
	}
	nb := 3
	if tier == "thorough" {
		nb = 4
	}
	for _, codec := range []string{"null", "deflate", "snappy"} {
		codec := codec
		ts = append(ts, task{"FileWriter " + codec, func(c *fw.Ctx) {
			for n := 0; n <= nb; n++ {
				runFileWriter(c, codec, n)
			}
		}})
	}
	return ts
}

func init() {
	fw.Register(&fw.Check{
		ID:    "C16",
		Level: "fault_enumeration",
		Rule: func(tier string) string {
			d := 4
			if tier == "thorough" {
				d = 6
			}
			return fmt.Sprintf("every call history of the real Encoder[T] up to length %d over {encode(1B), encode(10B), encode(41B), flush} (struct{S string}; block sizes 0, 10, 2^20) and {encode(0B), flush} (struct{}), and (one step shorter) over a 24-field type whose schema exceeds 1 KiB, × {null,deflate,snappy} × every write index k of the fault-free run × failure mode {accept 0, 1, len-1, len bytes} + error × {every later write fails too, only this write fails (transient)}, and accept-0 × {persistent, transient} through a writer type that additionally has never-failing Flush/Sync/Close methods and WriteString/WriteByte that go through the same fault injector (the fault-free run is measured per writer shape); plus one 40000-row history in a single block per codec; plus FileWriter.WriteHeader/WriteBlock driven directly (and, after each failed attempt, the same FileWriter used again for a complete fault-free file) over every sequence of <=3 (4 thorough) blocks from a 3-payload alphabet; a case is one (history, k, mode) triple; non-trivial = the failing write was reached and the accepted bytes — at the failure and, for transient faults, when the failing call returns — compared with the fault-free run re-keyed to the same sync marker", d)
		},
		Assumptions: []string{
			"the writer obeys io.Writer: a short write comes with a non-nil error; after the first failure the history stops (behaviour after an error is not specified by the property)",
			"when the header write is cut inside the 16 sync bytes, only the bytes before the sync are compared (any prefix of a sync is consistent with some fault-free run)",
		},
		NumCases: func(tier string) int { return len(tasks(tier)) },
		RunCase: func(c *fw.Ctx, idx int) {
			t := tasks(c.Tier)[idx]
			c.Begin("c16", t.name)
			t.run(c)
		},
		// every execution builds an encoder with its own block buffer (up to 1 MiB): at tens of thousands of executions
		// per second the heap can outgrow the collector; a soft limit keeps workers far below their address-space limit
		WorkerEnv: []string{"GOMEMLIMIT=2GiB"},
		// the address-space limit counts what the Go heap has ever mapped, not what is live: with 1 MiB objects made
		// and dropped at this rate the mapping grows far beyond the live heap (observed: 6 GiB mapped, a few MiB live)
		MemLimit: 48 << 30,
		Budget:   func(tier string) time.Duration { return 30 * time.Minute },
	})
}

//go:build ovl

package c11

import (
	"strings"

	"github.com/philpearl/avro/zzvsync"
)

// In overlay builds the library carries a generated zzvs.StmtPoint(label) before every statement of
// every function. The ones on the decode / encode path (codecs, banks, buffers, the record loop of
// ReadFile) become garbage-collection choice points of the explorer, so collections are placed between
// any two statements there, not only at codec-call boundaries. Each static point counts for its first
// two dynamic occurrences per execution (later iterations of the same loop repeat the same window).
var hotPrefixes = []string{
	"avro.MapCodec.", "avro.arrayCodec.", "avro.PointerCodec.", "avro.recordCodec.", "avro.unionCodec.", "avro.unionOneAndNullCodec.", "avro.unionNullString.",
	"avro.StringCodec.", "avro.BytesCodec.", "avro.fixedCodec.", "avro.ResourceBank.", "avro.ReadBuf.ExtractResourceBank", "avro.ReadBuf.NextAsString", "avro.ReadBuf.Alloc",
	"avro.newResourceBank", "avro.ReadFile#", "avro.Encoder.", "avro.FileWriter.WriteBlock", "time.StringCodec.", "time.LongCodec.", "time.DateCodec.", "null.",
}

var seenThisExec map[string]int

func init() {
	stmtPoints = true
	resetStmtCounts = func() { seenThisExec = map[string]int{} }
	zzvsync.GCHook = func(label string) {
		h := hook
		if h == nil {
			return
		}
		hot := false
		for _, p := range hotPrefixes {
			if strings.HasPrefix(label, p) {
				hot = true
				break
			}
		}
		if !hot {
			return
		}
		if stmtOccCap == 0 {
			return
		}
		seenThisExec[label]++
		if seenThisExec[label] > stmtOccCap {
			return
		}
		h("stmt:" + label)
	}
}

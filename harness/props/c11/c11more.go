package c11

import (
	"bytes"
	"errors"
	"fmt"
	"reflect"
	"runtime"
	"strings"
	"unsafe"

	"github.com/philpearl/avro"

	"verifharness/dynenc"
	"verifharness/filedrv"
	"verifharness/fw"
	"verifharness/gv"
)

var errStop = errors.New("found what I was looking for")

// runAbandonedRead: the callback keeps record i (a plain struct copy; it does NOT close the bank) and stops the
// read by returning an error — the documented way to stop. Nothing released the values, so after other readers
// have run (banks closed at once), after churn and collections, the kept record still holds what was decoded.
func runAbandonedRead(c *fw.Ctx) {
	t := reflect.TypeOf(MixRec{})
	mk := func(tag string) ([]MixRec, []byte) {
		var vals []MixRec
		for i := 0; i < 6; i++ {
			vals = append(vals, MixRec{N: int64(i), S: fmt.Sprintf("%s-string-%02d-%s", tag, i, strings.Repeat("x", i)), M: map[string]string{fmt.Sprintf("%s-key-%02d", tag, i): fmt.Sprintf("%s-value-%02d", tag, i)}, L: []int64{int64(i), 7}})
		}
		var buf bytes.Buffer
		enc, err := dynenc.New(t, &buf, "null", 0)
		if err != nil {
			c.HarnessError("abandoned read: " + err.Error())
			return nil, nil
		}
		for i := range vals {
			enc.Encode(unsafe.Pointer(&vals[i]))
		}
		enc.Flush()
		return vals, append([]byte(nil), buf.Bytes()...)
	}
	vals, file := mk("kept")
	_, other := mk("ZZZZ")
	if file == nil || other == nil {
		return
	}
	for stopAt := 0; stopAt < len(vals); stopAt++ {
		for later := 0; later < 3; later++ {
			c.Eval(1)
			desc := fmt.Sprintf("ReadFile stopped by the callback's error at record %d, that record kept (its bank not closed by anybody); then %d complete reads of another file with banks closed at once, collections in between", stopAt, later)
			locus := "abandoned-read"
			c.Begin(locus, desc)
			c.Nontrivial(desc)
			var kept MixRec
			var bank *avro.ResourceBank
			var rerr error
			i := 0
			pan, site := run(func() {
				rerr = avro.ReadFile(&filedrv.Reader{Data: file}, MixRec{}, func(val unsafe.Pointer, rb *avro.ResourceBank) error {
					if i == stopAt {
						kept, bank = *(*MixRec)(val), rb
						return errStop
					}
					i++
					rb.Close()
					return nil
				})
				for k := 0; k < later; k++ {
					// straight away (a pool keeps what it was given until the next collection), then once more
					// after a collection
					avro.ReadFile(&filedrv.Reader{Data: other}, MixRec{}, func(val unsafe.Pointer, rb *avro.ResourceBank) error {
						rb.Close()
						return nil
					})
					collect()
				}
				collect()
			})
			if pan != nil {
				c.Violation("panic:"+fw.PanicClass(pan)+"@"+site+"|"+locus, fmt.Sprintf("panic %v — %s", pan, desc), desc)
				continue
			}
			if rerr != errStop {
				c.Violation("read-error|"+locus, fmt.Sprintf("ReadFile returned %v — %s", rerr, desc), desc)
				continue
			}
			if d := gv.Equal(reflect.ValueOf(vals[stopAt]), reflect.ValueOf(kept)); d != "" {
				c.Violation("decoded-value-lost-after-gc|"+locus, fmt.Sprintf("the kept record no longer holds what was decoded: %s (now %s) — %s", d, clip(gv.Show(reflect.ValueOf(kept))), desc), desc)
			}
			runtime.KeepAlive(bank)
		}
	}
}

// runBigItems: records whose pointed-to / mapped elements are larger than 4 KiB (a struct of 520 longs), 1 to 40 of
// them in one record — the bank's per-type arenas grow several times while the record is decoded.
func runBigItems(c *fw.Ctx) {
	var fs []reflect.StructField
	i64 := reflect.TypeOf(int64(0))
	for i := 0; i < 520; i++ {
		fs = append(fs, reflect.StructField{Name: fmt.Sprintf("F%03d", i), Type: i64, Tag: reflect.StructTag(fmt.Sprintf(`json:"f%03d"`, i))})
	}
	big := reflect.StructOf(fs)
	outer := reflect.StructOf([]reflect.StructField{
		{Name: "L", Type: reflect.SliceOf(reflect.PointerTo(big)), Tag: `json:"l"`},
		{Name: "M", Type: reflect.MapOf(reflect.TypeOf(""), big), Tag: `json:"m"`},
		{Name: "Z", Type: i64, Tag: `json:"z"`},
	})
	mkBig := func(seed int64) reflect.Value {
		v := reflect.New(big).Elem()
		for i := 0; i < 520; i++ {
			v.Field(i).SetInt(seed*1000 + int64(i))
		}
		return v
	}
	for _, counts := range [][2]int{{1, 0}, {13, 0}, {14, 0}, {15, 2}, {27, 0}, {40, 3}, {0, 14}, {0, 30}} {
		nl, nm := counts[0], counts[1]
		var recs []reflect.Value
		for r := 0; r < 2; r++ {
			v := reflect.New(outer).Elem()
			l := reflect.MakeSlice(outer.Field(0).Type, 0, nl)
			for i := 0; i < nl; i++ {
				p := reflect.New(big)
				p.Elem().Set(mkBig(int64(r*100 + i + 1)))
				l = reflect.Append(l, p)
			}
			v.Field(0).Set(l)
			m := reflect.MakeMap(outer.Field(1).Type)
			for i := 0; i < nm; i++ {
				m.SetMapIndex(reflect.ValueOf(fmt.Sprintf("k%02d", i)), mkBig(int64(-(r*100 + i + 1))))
			}
			v.Field(1).Set(m)
			v.Field(2).SetInt(int64(r) + 77)
			recs = append(recs, v)
		}
		var buf bytes.Buffer
		enc, err := dynenc.New(outer, &buf, "null", 0)
		if err != nil {
			c.HarnessError("big items: " + err.Error())
			return
		}
		for _, v := range recs {
			enc.Encode(unsafe.Pointer(v.UnsafeAddr()))
		}
		enc.Flush()
		file := append([]byte(nil), buf.Bytes()...)
		for gcAt := -1; gcAt < 2; gcAt++ {
			c.Eval(1)
			desc := fmt.Sprintf("records holding %d pointed-to and %d mapped elements of 4160 bytes each, both records kept, collection at callback %d and after the read", nl, nm, gcAt)
			locus := "big-elements"
			c.Begin(locus, desc)
			c.Nontrivial(desc)
			var kept []reflect.Value
			var banks []*avro.ResourceBank
			var rerr error
			i := 0
			pan, site := run(func() {
				rerr = avro.ReadFile(&filedrv.Reader{Data: file}, reflect.New(outer).Elem().Interface(), func(val unsafe.Pointer, rb *avro.ResourceBank) error {
					if i == gcAt {
						collect()
					}
					k := reflect.New(outer).Elem()
					k.Set(reflect.NewAt(outer, val).Elem())
					kept = append(kept, k)
					banks = append(banks, rb)
					i++
					return nil
				})
				collect()
			})
			if pan != nil {
				c.Violation("panic:"+fw.PanicClass(pan)+"@"+site+"|"+locus, fmt.Sprintf("panic %v — %s", pan, desc), desc)
				continue
			}
			if rerr != nil || len(kept) != len(recs) {
				c.Violation("read-error|"+locus, fmt.Sprintf("err=%v records=%d — %s", rerr, len(kept), desc), desc)
				continue
			}
			for j := range recs {
				if d := gv.Equal(recs[j], kept[j]); d != "" {
					c.Violation("decoded-value-lost-after-gc|"+locus, fmt.Sprintf("kept record %d (bank open) does not hold what was written: %s — %s", j, d, desc), desc)
					break
				}
			}
			runtime.KeepAlive(banks)
		}
	}
}

// Package c11: decoded values are fully visible to the garbage collector.
package c11

import (
	"bytes"
	"fmt"
	"reflect"
	"runtime"
	"sort"
	"strings"
	"time"
	"unsafe"

	"github.com/philpearl/avro"
	"github.com/unravelin/null/v5"

	"verifharness/dynenc"
	"verifharness/filedrv"
	"verifharness/fw"
	"verifharness/gv"
	"verifharness/ref"
	"verifharness/reg"
)

// GCProbe is an instrumented leaf type: its registered codec gives the
// explorer a GC choice point inside every Read / New / Omit / Write, i.e. in
// the middle of whatever composite (map being filled, slice being grown, bank
// being extended, map being iterated) contains it.
type GCProbe struct {
	V int64
	S string
}

var hook func(label string)

// stmtPoints is set in overlay builds (c11_ovl.go): statement-level interception points are available.
var stmtPoints bool

// stmtOccCap: how many dynamic occurrences of each static statement point are choice points in the
// current execution (0 = statement points off; set per tier and variant).
var stmtOccCap int

// resetStmtCounts is called at the start of every explored execution (set in overlay builds).
var resetStmtCounts = func() {}

type probeCodec struct {
	lng avro.Int64Codec
	str avro.StringCodec
	typ reflect.Type
}

func (c probeCodec) Read(r *avro.ReadBuf, p unsafe.Pointer) error {
	g := (*GCProbe)(p)
	if hook != nil {
		hook("probe.Read:before")
	}
	if err := c.lng.Read(r, unsafe.Pointer(&g.V)); err != nil {
		return err
	}
	if hook != nil {
		hook("probe.Read:middle")
	}
	if err := c.str.Read(r, unsafe.Pointer(&g.S)); err != nil {
		return err
	}
	if hook != nil {
		hook("probe.Read:after")
	}
	return nil
}

func (c probeCodec) Skip(r *avro.ReadBuf) error {
	if err := c.lng.Skip(r); err != nil {
		return err
	}
	return c.str.Skip(r)
}

func (c probeCodec) New(r *avro.ReadBuf) unsafe.Pointer {
	if hook != nil {
		hook("probe.New")
	}
	return r.Alloc(c.typ)
}

func (c probeCodec) Omit(p unsafe.Pointer) bool {
	if hook != nil {
		hook("probe.Omit")
	}
	return false
}

func (c probeCodec) Write(w *avro.WriteBuf, p unsafe.Pointer) {
	g := (*GCProbe)(p)
	if hook != nil {
		hook("probe.Write:before")
	}
	c.lng.Write(w, unsafe.Pointer(&g.V))
	c.str.Write(w, unsafe.Pointer(&g.S))
	if hook != nil {
		hook("probe.Write:after")
	}
}

var probeT = reflect.TypeOf(GCProbe{})

func initC11(c *fw.Ctx) {
	reg.Init()
	s, err := avro.SchemaFromString(`{"type":"record","name":"GCProbe","fields":[{"name":"v","type":"long"},{"name":"s","type":"string"}]}`)
	if err != nil {
		panic(err)
	}
	avro.RegisterSchema(probeT, s)
	avro.Register(probeT, func(schema avro.Schema, typ reflect.Type, omit bool) (avro.Codec, error) {
		return probeCodec{typ: typ}, nil
	})
}

// ---- primer: a record type all of whose bank allocations are POINTER-FREE, in the sizes (8, 16, 24, 32 bytes) that
// pointer-carrying allocations of other record types have too. Reading it first and closing its banks leaves the
// pool holding banks whose typed arenas were made for pointer-free types.

type Primer struct {
	A []*int64      `json:"a"`
	B []*null.Int   `json:"b"`
	C []*Tri        `json:"c"`
	D []*null.Float `json:"d"`
	E []*Quad       `json:"e"`
	F []*float64    `json:"f"`
}

type Tri struct{ X, Y, Z int64 }
type Quad struct{ W, X, Y, Z int64 }

var primerFile []byte

func primer() []byte {
	if primerFile != nil {
		return primerFile
	}
	var buf bytes.Buffer
	enc, err := dynenc.New(reflect.TypeOf(Primer{}), &buf, "null", 0)
	if err != nil {
		panic("primer: " + err.Error())
	}
	for r := 0; r < 3; r++ {
		var p Primer
		for i := 0; i < 20; i++ {
			x, n, fl, y := int64(i), null.IntFrom(int64(i)), null.FloatFrom(float64(i)), float64(i)
			c, e := Tri{1, 2, 3}, Quad{1, 2, 3, 4}
			p.A, p.B, p.C, p.D, p.E, p.F = append(p.A, &x), append(p.B, &n), append(p.C, &c), append(p.D, &fl), append(p.E, &e), append(p.F, &y)
		}
		enc.Encode(unsafe.Pointer(&p))
	}
	enc.Flush()
	primerFile = append([]byte(nil), buf.Bytes()...)
	return primerFile
}

func readPrimer() {
	avro.ReadFile(&filedrv.Reader{Data: primer()}, Primer{}, func(val unsafe.Pointer, rb *avro.ResourceBank) error {
		rb.Close()
		return nil
	})
}

// ---- mixed retention: records that take nothing from their bank (numbers, empty strings, empty maps) between
// records that do; the application closes the banks of the former at once and keeps the latter. With a collection
// at any one callback and two afterwards, every kept record must still hold what was decoded.

type MixRec struct {
	N int64             `json:"n"`
	S string            `json:"s"`
	M map[string]string `json:"m"`
	L []int64           `json:"l"`
}

func runMixedRetention(c *fw.Ctx) {
	t := reflect.TypeOf(MixRec{})
	var vals []MixRec
	for i := 0; i < 12; i++ {
		if i%3 == 0 { // nothing to take from the bank
			vals = append(vals, MixRec{N: int64(i), L: []int64{int64(i), 2, 3}})
		} else {
			vals = append(vals, MixRec{N: int64(i), S: fmt.Sprintf("string-of-record-%02d-%s", i, strings.Repeat("x", i)), M: map[string]string{fmt.Sprintf("key-%02d", i): fmt.Sprintf("value-%02d", i)}})
		}
	}
	for _, bs := range []int{0, 1 << 20} {
		var buf bytes.Buffer
		enc, err := dynenc.New(t, &buf, "null", bs)
		if err != nil {
			c.HarnessError("mixed retention: " + err.Error())
			return
		}
		for i := range vals {
			enc.Encode(unsafe.Pointer(&vals[i]))
		}
		enc.Flush()
		file := append([]byte(nil), buf.Bytes()...)
		for gcAt := -1; gcAt < len(vals); gcAt++ {
			for mode := 0; mode < 3; mode++ {
				closeFree, lag := mode > 0, mode == 2
				c.Eval(1)
				desc := fmt.Sprintf("mixed retention (block size %d): banks of allocation-free records closed=%v (one callback later=%v), collection at callback %d", bs, closeFree, lag, gcAt)
				locus := "mixed-retention"
				det := map[string]interface{}{"blocksize": bs, "close_allocation_free_banks": closeFree, "one_callback_later": lag, "gc_at_callback": gcAt}
				c.Begin(locus, desc)
				c.Nontrivial(desc)
				var kept []MixRec
				var banks []*avro.ResourceBank
				var rerr error
				var pendingClose *avro.ResourceBank
				i := 0
				pan, site := run(func() {
					rerr = avro.ReadFile(&filedrv.Reader{Data: file}, MixRec{}, func(val unsafe.Pointer, rb *avro.ResourceBank) error {
						if i == gcAt {
							collect()
						}
						r := *(*MixRec)(val)
						kept = append(kept, r)
						if pendingClose != nil {
							pendingClose.Close()
							pendingClose = nil
						}
						switch {
						case closeFree && i%3 == 0 && lag:
							pendingClose = rb
						case closeFree && i%3 == 0:
							rb.Close()
						default:
							banks = append(banks, rb)
						}
						i++
						return nil
					})
				})
				if pan != nil {
					c.Violation("panic:"+fw.PanicClass(pan)+"@"+site+"|"+locus, fmt.Sprintf("panic %v — %s", pan, desc), det)
					continue
				}
				if rerr != nil || len(kept) != len(vals) {
					c.Violation("read-error|"+locus, fmt.Sprintf("err=%v records=%d — %s", rerr, len(kept), desc), det)
					continue
				}
				for pass := 0; pass < 2; pass++ {
					collect()
					bad := false
					for j := range vals {
						if closeFree && j%3 == 0 {
							continue // its bank is closed: nothing is promised
						}
						if d := gv.Equal(reflect.ValueOf(vals[j]), reflect.ValueOf(kept[j])); d != "" {
							c.Violation("decoded-value-lost-after-gc|mixed-retention", fmt.Sprintf("kept record %d (bank open) no longer holds what was decoded (pass %d): %s — %s", j, pass, d, desc), det)
							bad = true
							break
						}
					}
					if bad {
						break
					}
				}
				runtime.KeepAlive(banks)
			}
		}
	}
	c.Sample(map[string]interface{}{"kind": "mixed retention", "records": len(vals)})
	runResetReuse(c, vals)
}

// runResetReuse: ONE ReadBuf used for a series of separately framed messages (decode, keep the value, Reset(next
// message), decode again …): nothing the caller keeps was ever released, so every kept value must still hold what
// was decoded — after the later decodes and after a collection at any point.
func runResetReuse(c *fw.Ctx, vals []MixRec) {
	s, err := avro.SchemaForType(MixRec{})
	if err != nil {
		c.HarnessError(err.Error())
		return
	}
	codec, err := s.Codec(MixRec{})
	if err != nil {
		c.HarnessError(err.Error())
		return
	}
	var msgs [][]byte
	for i := range vals {
		w := avro.NewWriteBuf(nil)
		codec.Write(w, unsafe.Pointer(&vals[i]))
		msgs = append(msgs, append([]byte(nil), w.Bytes()...))
	}
	for gcAt := -1; gcAt < len(vals); gcAt++ {
		c.Eval(1)
		desc := fmt.Sprintf("one ReadBuf Reset for each of %d messages, every decoded value kept, collection before message %d", len(vals), gcAt)
		locus := "readbuf-reset-reuse"
		c.Begin(locus, desc)
		c.Nontrivial(desc)
		kept := make([]MixRec, len(vals))
		pan, site := run(func() {
			rb := avro.NewReadBuf(nil)
			for i := range msgs {
				if i == gcAt {
					collect()
				}
				rb.Reset(msgs[i])
				if err := codec.Read(rb, unsafe.Pointer(&kept[i])); err != nil {
					panic(err)
				}
			}
			runtime.KeepAlive(rb)
		})
		if pan != nil {
			c.Violation("panic:"+fw.PanicClass(pan)+"@"+site+"|"+locus, fmt.Sprintf("panic %v — %s", pan, desc), desc)
			continue
		}
		collect()
		for j := range vals {
			if d := gv.Equal(reflect.ValueOf(vals[j]), reflect.ValueOf(kept[j])); d != "" {
				c.Violation("decoded-value-lost-after-gc|readbuf-reset-reuse", fmt.Sprintf("value %d, kept by the caller and never released, no longer holds what was decoded: %s — %s", j, d, desc), desc)
				break
			}
		}
	}
}

// ---- garbage: allocate objects of many size classes so that freed slots are reused and overwritten

var sink [][]byte
var sinkPtrs []*[4]uintptr

func churn() {
	sink = sink[:0]
	sinkPtrs = sinkPtrs[:0]
	for _, sz := range []int{8, 16, 24, 32, 48, 64, 80, 96, 112, 128, 192, 256, 384, 512, 1024, 2048} {
		for i := 0; i < 48; i++ {
			b := make([]byte, sz)
			for j := range b {
				b[j] = 0xAB
			}
			sink = append(sink, b)
		}
	}
	for i := 0; i < 256; i++ {
		p := new([4]uintptr)
		p[0], p[1], p[2], p[3] = 0xABABABABABABABAB, 0xABABABABABABABAB, 0xABABABABABABABAB, 0xABABABABABABABAB
		sinkPtrs = append(sinkPtrs, p)
	}
	// maps and small pointerful objects too
	m := map[string]string{}
	for i := 0; i < 64; i++ {
		m[fmt.Sprintf("k%d", i)] = strings.Repeat("g", i)
	}
	_ = m
}

func collect() {
	runtime.GC()
	runtime.GC()
	// let finalizers (if the library sets any) run before memory is churned
	for i := 0; i < 4; i++ {
		runtime.Gosched()
	}
	time.Sleep(200 * time.Microsecond)
	churn()
}

// ---- type universe

type tcase struct {
	name string
	ft   reflect.Type
}

func universe(tier string) []tcase {
	str := reflect.TypeOf("")
	leaves := []reflect.Type{probeT, str, reflect.TypeOf([]byte(nil)), reflect.TypeOf(int64(0)), reflect.TypeOf((*int64)(nil)), reflect.PointerTo(probeT), gv.TimeT, gv.NullStringT}
	wrap := func(t reflect.Type) []reflect.Type {
		return []reflect.Type{reflect.PointerTo(t), reflect.SliceOf(t), reflect.MapOf(str, t),
			reflect.StructOf([]reflect.StructField{{Name: "X", Type: t, Tag: `json:"x"`}, {Name: "P", Type: probeT, Tag: `json:"p"`}})}
	}
	var all []reflect.Type
	all = append(all, leaves...)
	var d1 []reflect.Type
	for _, l := range leaves {
		d1 = append(d1, wrap(l)...)
	}
	all = append(all, d1...)
	var d2 []reflect.Type
	for _, t := range d1 {
		d2 = append(d2, wrap(t)...)
	}
	all = append(all, d2...)
	if tier == "thorough" {
		for _, t := range d2 {
			if t.Kind() == reflect.Map || t.Kind() == reflect.Ptr {
				all = append(all, wrap(t)...)
			}
		}
	}
	var out []tcase
	seen := map[reflect.Type]bool{}
	for _, t := range all {
		if seen[t] {
			continue
		}
		seen[t] = true
		out = append(out, tcase{t.String(), t})
	}
	return out
}

// values: collections get 2-3 elements so that growth and several map insertions happen
func build(t reflect.Type, k int) reflect.Value {
	switch t {
	case probeT:
		return reflect.ValueOf(GCProbe{V: int64(1000 + k), S: fmt.Sprintf("probe-%d-%s", k, strings.Repeat("p", 20+k))})
	case gv.TimeT:
		return reflect.ValueOf(time.Date(2020, 1, 2, 3, 4, 5+k, 6, time.FixedZone("", 3600*(k%3))))
	case gv.NullStringT:
		v := reflect.New(t).Elem()
		v.FieldByName("Valid").SetBool(true)
		v.FieldByName("String").SetString(fmt.Sprintf("ns-%d-%s", k, strings.Repeat("n", 33)))
		return v
	}
	switch t.Kind() {
	case reflect.String:
		return reflect.ValueOf(fmt.Sprintf("str-%d-%s", k, strings.Repeat("s", 40)))
	case reflect.Int64:
		return reflect.ValueOf(int64(7000 + k))
	case reflect.Ptr:
		p := reflect.New(t.Elem())
		p.Elem().Set(build(t.Elem(), k+1))
		return p
	case reflect.Slice:
		if t.Elem().Kind() == reflect.Uint8 {
			return reflect.ValueOf([]byte(fmt.Sprintf("bytes-%d-%s", k, strings.Repeat("b", 50))))
		}
		s := reflect.MakeSlice(t, 0, 0)
		for i := 0; i < 3; i++ {
			s = reflect.Append(s, build(t.Elem(), k*10+i))
		}
		return s
	case reflect.Map:
		m := reflect.MakeMap(t)
		for i := 0; i < 3; i++ {
			m.SetMapIndex(reflect.ValueOf(fmt.Sprintf("key-%d-%d", k, i)), build(t.Elem(), k*10+i))
		}
		return m
	case reflect.Struct:
		s := reflect.New(t).Elem()
		for i := 0; i < t.NumField(); i++ {
			s.Field(i).Set(build(t.Field(i).Type, k*10+i))
		}
		return s
	}
	return reflect.Zero(t)
}

func chain(t reflect.Type, n int) string {
	if n == 0 {
		return "…"
	}
	if t == probeT {
		return "probe"
	}
	switch t.Kind() {
	case reflect.Ptr, reflect.Slice, reflect.Map:
		if t.Kind() == reflect.Slice && t.Elem().Kind() == reflect.Uint8 {
			return "bytes"
		}
		return gv.KindName(t) + ">" + chain(t.Elem(), n-1)
	case reflect.Struct:
		if t == gv.TimeT || gv.IsNullWrapper(t) {
			return gv.KindName(t)
		}
		return "struct>" + chain(t.Field(0).Type, n-1)
	}
	return gv.KindName(t)
}

func runType(c *fw.Ctx, idx int, tc tcase, bound int) {
	outer := reflect.StructOf([]reflect.StructField{{Name: "F", Type: tc.ft, Tag: `json:"f"`}, {Name: "Tail", Type: probeT, Tag: `json:"tail"`}, {Name: "G", Type: tc.ft, Tag: `json:"g,omitempty"`}})
	locus := chain(tc.ft, 3)
	vals := []reflect.Value{}
	// three records, one per block: a bank dropped after the first record can come back from the pool for the third
	for k := 0; k < 3; k++ {
		v := reflect.New(outer).Elem()
		v.Field(0).Set(build(tc.ft, k+1))
		v.Field(1).Set(build(probeT, 50+k))
		if k == 1 {
			v.Field(2).Set(build(tc.ft, 7))
		}
		vals = append(vals, v)
	}
	// reference encoding without any collection
	hook = nil
	var clean bytes.Buffer
	enc, err := dynenc.New(outer, &clean, "null", 0)
	if err != nil {
		c.Count("types_not_encodable_skipped", 1)
		return
	}
	for _, v := range vals {
		enc.Encode(unsafe.Pointer(v.UnsafeAddr()))
	}
	enc.Flush()
	cleanFile := append([]byte(nil), clean.Bytes()...)
	cp, perr := ref.ParseFile(cleanFile)
	if perr != nil {
		c.Violation("harness-clean-run-unparseable|"+locus, perr.Error(), tc.name)
		return
	}
	rs, _ := ref.ParseSchema(cp.Meta["avro.schema"])
	var cleanDatums []ref.Datum
	for _, b := range cp.Blocks {
		ds, derr := ref.DecodeAll(rs, b.Payload, b.Count)
		if derr != nil {
			c.Violation("harness-clean-run-undecodable|"+locus, derr.Error(), tc.name)
			return
		}
		cleanDatums = append(cleanDatums, ds...)
	}

	// the same records as a conformant writer may also serialise them: every array and map one item per block,
	// byte-size prefix on every second block (slices and maps then GROW while they already hold items)
	var splitBlocks []ref.Block
	{
		k := 0
		pol := func(label string, n int) int {
			switch label {
			case "blocksize":
				return n - 1
			case "sizeprefix":
				k++
				return k % 2
			}
			return 0
		}
		di := 0
		for _, b := range cp.Blocks {
			var payload []byte
			for i := int64(0); i < b.Count; i++ {
				payload = (&ref.Enc{Policy: pol}).Encode(payload, rs, cleanDatums[di])
				di++
			}
			splitBlocks = append(splitBlocks, ref.Block{Count: b.Count, Payload: payload})
		}
	}
	splitFile, _ := ref.WriteFile(ref.StdMeta(string(cp.Meta["avro.schema"]), "null", true), "null", [16]byte{0xc, 1, 1}, splitBlocks)

	// ---- decode direction: GC placements during ReadFile
	// variants: (0) the application keeps the banks; (1) it keeps the records but drops the banks without
	// closing them; (2) a previous read whose banks were closed (and one collection) precedes the read, so
	// banks come recycled from the pool
	var execs int64
	var stD gcStats
	for variant := 0; variant < 4; variant++ {
		variant := variant
		file := cleanFile
		if variant == 3 {
			file = splitFile // (3) banks kept, collections written one item per block
		}
		// quick: statement-level points (first occurrence of each) in the main variant, codec-boundary points
		// in the other two; thorough: the first two occurrences everywhere
		switch {
		case c.Tier == "thorough":
			stmtOccCap = 2
		case variant == 0:
			stmtOccCap = 1
		default:
			stmtOccCap = 0
		}
		stV := gcExplore(bound, 3000, func(ch *placer) {
			execs++
			desc := fmt.Sprintf("decode %s (variant %s) with collections at %s", tc.name, [...]string{"banks kept", "banks dropped unclosed", "banks recycled from the pool", "banks kept, arrays and maps written one item per block"}[variant], ch.Desc())
			if variant == 2 {
				hook = nil
				if execs%2 == 0 {
					readPrimer() // banks last used for a pointer-free record type of another shape
				}
				avro.ReadFile(&filedrv.Reader{Data: cleanFile}, reflect.New(outer).Elem().Interface(), func(val unsafe.Pointer, rb *avro.ResourceBank) error {
					rb.Close()
					return nil
				})
				runtime.GC() // one cycle: pooled banks survive in the pool's victim cache
				churn()
			}
			c.Begin(locus+"|decode", desc)
			resetStmtCounts()
			hook = func(label string) {
				if ch.At(label) {
					collect()
				}
			}
			var kept []reflect.Value
			var banks []*avro.ResourceBank
			var rerr error
			pan, site := run(func() {
				rerr = avro.ReadFile(&filedrv.Reader{Data: file, Mode: int(execs) % filedrv.NumModes}, reflect.New(outer).Elem().Interface(), func(val unsafe.Pointer, rb *avro.ResourceBank) error {
					hook("callback")
					sh := reflect.New(outer).Elem()
					sh.Set(reflect.NewAt(outer, val).Elem()) // what an application retains: a shallow copy
					kept = append(kept, sh)
					if variant != 1 {
						banks = append(banks, rb)
					}
					return nil
				})
			})
			hook = nil
			det := map[string]interface{}{"type": tc.name, "gc_placement": ch.Desc(), "direction": "decode", "variant": variant}
			if pan != nil {
				c.Violation("panic:"+fw.PanicClass(pan)+"@"+site+"|"+locus+"|decode", fmt.Sprintf("panic %v — %s", pan, desc), det)
				return
			}
			if rerr != nil || len(kept) != len(vals) {
				c.Violation("read-error|"+locus, fmt.Sprintf("ReadFile: err=%v records=%d — %s", rerr, len(kept), desc), det)
				return
			}
			// always: one collection after decoding, compare, another collection, compare again
			for pass := 0; pass < 2; pass++ {
				collect()
				for i := range vals {
					if d, dl, vc := gv.DiffLocus(vals[i], kept[i]); d != "" {
						c.Violation("decoded-value-lost-after-gc|"+dl+"|"+vc, fmt.Sprintf("record %d no longer holds what was decoded after a collection (pass %d): now %s (difference at %s) — %s", i, pass, clip(gv.Show(kept[i].Field(0))), d, desc), det)
						return
					}
				}
			}
			runtime.KeepAlive(banks)
		})
		stD.ChoicePoints += stV.ChoicePoints
		stD.PairsCapped = stD.PairsCapped || stV.PairsCapped
		if stV.MaxDepth > stD.MaxDepth {
			stD.MaxDepth = stV.MaxDepth
		}
	}

	// ---- encode direction: GC placements during Write (incl. inside map iteration)
	stmtOccCap = 1
	if c.Tier == "thorough" {
		stmtOccCap = 2
	}
	stE := gcExplore(bound, 3000, func(ch *placer) {
		execs++
		desc := fmt.Sprintf("encode %s with collections at %s", tc.name, ch.Desc())
		c.Begin(locus+"|encode", desc)
		resetStmtCounts()
		hook = func(label string) {
			if ch.At(label) {
				collect()
			}
		}
		var buf bytes.Buffer
		var eerr error
		pan, site := run(func() {
			e, err := dynenc.New(outer, &buf, "null", 0)
			if err != nil {
				eerr = err
				return
			}
			for _, v := range vals {
				hook("before-encode")
				if err := e.Encode(unsafe.Pointer(v.UnsafeAddr())); err != nil {
					eerr = err
					return
				}
				hook("after-encode")
			}
			eerr = e.Flush()
		})
		hook = nil
		det := map[string]interface{}{"type": tc.name, "gc_placement": ch.Desc(), "direction": "encode"}
		if pan != nil {
			c.Violation("panic:"+fw.PanicClass(pan)+"@"+site+"|"+locus+"|encode", fmt.Sprintf("panic %v — %s", pan, desc), det)
			return
		}
		if eerr != nil {
			c.Violation("encode-error|"+locus, eerr.Error()+" — "+desc, det)
			return
		}
		p, perr := ref.ParseFile(buf.Bytes())
		if perr != nil {
			c.Violation("encoded-output-differs-under-gc|"+locus+"|unparseable", perr.Error()+" — "+desc, det)
			return
		}
		var ds []ref.Datum
		for _, b := range p.Blocks {
			x, derr := ref.DecodeAll(rs, b.Payload, b.Count)
			if derr != nil {
				c.Violation("encoded-output-differs-under-gc|"+locus+"|undecodable", derr.Error()+" — "+desc, det)
				return
			}
			ds = append(ds, x...)
		}
		if len(ds) != len(cleanDatums) {
			c.Violation("encoded-output-differs-under-gc|"+locus+"|count", desc, det)
			return
		}
		for i := range ds {
			if !ds[i].Equal(cleanDatums[i]) {
				c.Violation("encoded-output-differs-under-gc|"+locus, fmt.Sprintf("record %d encodes to %s with collections running, %s without — %s", i, clip(ds[i].String()), clip(cleanDatums[i].String()), desc), det)
				return
			}
		}
		// the source values must be unharmed too
		collect()
		for k := 0; k < 3; k++ {
			want := reflect.New(outer).Elem()
			want.Field(0).Set(build(tc.ft, k+1))
			want.Field(1).Set(build(probeT, 50+k))
			if k == 1 {
				want.Field(2).Set(build(tc.ft, 7))
			}
			if d := gv.Equal(want, vals[k]); d != "" {
				c.Violation("source-value-damaged-by-encode|"+locus, d+" — "+desc, det)
				return
			}
		}
	})
	c.Eval(execs)
	c.NontrivialN(execs)
	c.Count("states", execs)
	c.Count("transitions", stD.ChoicePoints+stE.ChoicePoints)
	c.Count("traces_validated_against_impl", execs)
	c.Max("max_gc_points_in_one_decode", int64(stD.MaxDepth))
	if stD.PairsCapped || stE.PairsCapped {
		c.NotExhaustive("pairs of collection placements were strided down to 3000 per (type, variant) in at least one case")
	}
	if stmtPoints {
		c.Count("statement_level_points_enabled", 1)
	}
	if idx%23 == 0 {
		c.Sample(map[string]interface{}{"type": tc.name, "gc_points_decode": stD.MaxDepth, "gc_points_encode": stE.MaxDepth, "placements_explored": execs, "bound": bound})
	}
}

// placer decides where collections are injected in one execution. A point is identified by its label
// and its occurrence number in the execution (not by its position in the sequence of points), so the
// enumeration does not depend on executions having identical point sequences.
type placer struct {
	inject map[string]bool
	occ    map[string]int
	ids    []string
	fired  []string
}

func newPlacer(inject ...string) *placer {
	p := &placer{inject: map[string]bool{}, occ: map[string]int{}}
	for _, id := range inject {
		p.inject[id] = true
	}
	return p
}

func (p *placer) At(label string) bool {
	p.occ[label]++
	id := fmt.Sprintf("%s@%d", label, p.occ[label])
	p.ids = append(p.ids, id)
	if p.inject[id] {
		p.fired = append(p.fired, id)
		return true
	}
	return false
}

func (p *placer) Desc() string {
	if len(p.inject) == 0 {
		return "no injected collection"
	}
	var want []string
	for id := range p.inject {
		want = append(want, id)
	}
	sort.Strings(want)
	return strings.Join(want, " + ")
}

type gcStats struct {
	Executions   int64
	ChoicePoints int64
	MaxDepth     int
	PairsCapped  bool
}

// gcExplore runs exec once without injection, then once per distinct point of that run with one
// collection injected there, and (bound>=2) once per pair of distinct points, up to pairCap pairs
// (evenly strided when there are more).
func gcExplore(bound int, pairCap int, exec func(p *placer)) gcStats {
	var st gcStats
	runOne := func(p *placer) {
		exec(p)
		st.Executions++
		st.ChoicePoints += int64(len(p.ids))
		if len(p.ids) > st.MaxDepth {
			st.MaxDepth = len(p.ids)
		}
	}
	base := newPlacer()
	runOne(base)
	seen := map[string]bool{}
	var ids []string
	for _, id := range base.ids {
		if !seen[id] {
			seen[id] = true
			ids = append(ids, id)
		}
	}
	if bound >= 1 {
		for _, id := range ids {
			runOne(newPlacer(id))
		}
	}
	if bound >= 2 {
		total := len(ids) * (len(ids) - 1) / 2
		stride := 1
		if total > pairCap {
			stride = total/pairCap + 1
			st.PairsCapped = true
		}
		k := 0
		for i := 0; i < len(ids); i++ {
			for j := i + 1; j < len(ids); j++ {
				if k%stride == 0 {
					runOne(newPlacer(ids[i], ids[j]))
				}
				k++
			}
		}
	}
	return st
}

func run(f func()) (pan interface{}, site string) {
	defer func() {
		if r := recover(); r != nil {
			pan, site = r, fw.PanicSite(3)
		}
	}()
	f()
	return nil, ""
}

func clip(s string) string {
	if len(s) > 200 {
		return s[:200] + "…"
	}
	return s
}

var memo = map[string][]tcase{}

func init() {
	fw.Register(&fw.Check{
		ID:    "C11",
		Level: "model_checking",
		Rule: func(tier string) string {
			b := 1
			if tier == "thorough" {
				b = 2
			}
			return fmt.Sprintf("workers run with GOGC=off GODEBUG=clobberfree=1,invalidptr=1, so the only collections are the ones the explorer injects and a freed object is overwritten at once; the library is rebuilt with a generated overlay that calls a hook before every statement of every function, and an instrumented leaf type GCProbe (registered custom codec) adds points inside every Read (before/middle/after), New, Omit and Write, plus callback entry and before/after each Encode: every one of these is a choice point (statement points on the decode/encode path: codecs, banks, buffers, the record loop of ReadFile, Encoder; quick tier: the first dynamic occurrence of each static point in the main variant and in encoding, codec-boundary points only in the other variants; thorough: the first two occurrences in all variants); the type universe puts probes inside and after every composite: all type expressions of depth<=2 (3 for maps and pointers in thorough) over leaves {GCProbe,string,[]byte,int64,*int64,*GCProbe,time.Time,null.String} and wrappers {*τ,[]τ,map[string]τ,struct{X τ;P GCProbe}}, each as struct{F τ; Tail GCProbe; G τ omitempty}; the decode direction runs in four variants (banks kept by the application; records kept but banks dropped unclosed; banks recycled from the pool after earlier reads whose banks were closed — of the same file and, every other placement, of a primer file whose record type takes only pointer-free allocations of 8/16/24/32 bytes from its banks — one collection in between; banks kept and the file rewritten by the reference writer with every array and map one item per block, every second block size-prefixed, so that slices and maps grow while holding items); for every type and variant ALL placements of at most %d injected collection(s) (each = 2×runtime.GC + allocation of garbage in 16 size classes) during ReadFile and during encoding are enumerated, and one collection is always run after decoding and again after the first comparison; plus a ReadBuf Reset and re-used for twelve messages with every value kept, and a a read stopped by the callback's own error at every record index with that record kept (nobody closed its bank) followed by 0–2 other complete reads and collections; records holding 1–40 pointed-to or mapped elements of 4160 bytes each (the bank's arenas grow several times within one record); mixed-retention scenario (records that take nothing from their bank between records that do; the former's banks closed at once or one callback later, a collection at any one callback); oracle: every retained (shallow-copied) record equals the value written after the last collection, encoded data equals the collection-free run as a datum, the worker does not die; distinct_nontrivial = (type, placement) executions", b)
		},
		Assumptions: []string{
			"collections land at interception points: in the overlay build (the registered command) that is before EVERY statement of every library function (generated zzvs.StmtPoint hooks), plus inside the probe codec and at callback entry; a collection between two machine instructions of one statement (e.g. inside a single expression that converts a uintptr back to a pointer) is not placed",
			"a correctly tracked object is never freed, so there are no false alarms; a stale copy in a dead stack slot can only hide a defect",
		},
		Init: initC11,
		NumCases: func(tier string) int {
			if _, ok := memo[tier]; !ok {
				memo[tier] = universe(tier)
			}
			return len(memo[tier]) + 1
		},
		RunCase: func(c *fw.Ctx, idx int) {
			if _, ok := memo[c.Tier]; !ok {
				memo[c.Tier] = universe(c.Tier)
			}
			b := 1
			if c.Tier == "thorough" {
				b = 2
			}
			if idx == len(memo[c.Tier]) {
				runMixedRetention(c)
				runAbandonedRead(c)
				runBigItems(c)
				return
			}
			runType(c, idx, memo[c.Tier][idx], b)
		},
		WorkerEnv: []string{"GOGC=off", "GODEBUG=clobberfree=1,invalidptr=1", "GOMAXPROCS=2"},
		Budget:    func(tier string) time.Duration { return 40 * time.Minute },
		// a forced collection with clobberfree=1 has to overwrite everything it frees, and GOGC=off lets garbage pile up
		// between the injected collections: on a loaded machine one execution was seen to take more than two minutes
		// (not reproducible on replay). A real hang is still caught, ten minutes in.
		StallTimeout: 10 * time.Minute,
	})
}

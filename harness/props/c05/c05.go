// Package c05: decoder construction is type-sound and decoding stays inside the destination.
package c05

import (
	"fmt"
	"reflect"
	"time"
	"unsafe"

	"github.com/philpearl/avro"

	"verifharness/filedrv"
	"verifharness/fw"
	"verifharness/gv"
	"verifharness/ref"
	"verifharness/univ"
)

type NamedString string
type NamedInt32 int32
type NamedBool bool
type NamedByte uint8

type snode struct {
	name string
	s    *ref.Schema
}

func snodes() []snode {
	fx := func(n int) snode {
		return snode{fmt.Sprintf("fixed%d", n), &ref.Schema{Type: "fixed", Name: fmt.Sprintf("Fx%d", n), Size: n}}
	}
	return []snode{
		{"null", ref.Prim("null")}, {"boolean", ref.Prim("boolean")}, {"int", ref.Prim("int")}, {"long", ref.Prim("long")}, {"float", ref.Prim("float")}, {"double", ref.Prim("double")},
		{"bytes", ref.Prim("bytes")}, {"string", ref.Prim("string")}, fx(0), fx(1), fx(3), fx(4), fx(8), fx(16), fx(17),
		{"record", ref.Record("Rr", ref.F("a", ref.Prim("long")))}, {"enum", &ref.Schema{Type: "enum", Name: "E", Symbols: []string{"A", "B"}}},
		{"array>long", ref.Array(ref.Prim("long"))}, {"array>string", ref.Array(ref.Prim("string"))}, {"map>long", ref.Map(ref.Prim("long"))},
		{"union01>long", ref.Union(ref.Prim("null"), ref.Prim("long"))}, {"union10>string", ref.Union(ref.Prim("string"), ref.Prim("null"))},
		{"union01>record", ref.Union(ref.Prim("null"), ref.Record("Ur", ref.F("a", ref.Prim("long"))))},
		{"union01>double", ref.Union(ref.Prim("null"), ref.Prim("double"))},
		// multi-branch unions: sound only with a Go type that suits EVERY branch
		{"union[long,string]", ref.Union(ref.Prim("long"), ref.Prim("string"))},
		{"union[null,long,string]", ref.Union(ref.Prim("null"), ref.Prim("long"), ref.Prim("string"))},
		{"union[int,long]", ref.Union(ref.Prim("int"), ref.Prim("long"))},
		// collections of elements at and above 128 bytes (Go maps store larger elements indirectly)
		{"map>fixed128", ref.Map(fx(128).s)}, {"map>fixed136", ref.Map(fx(136).s)}, {"array>fixed136", ref.Array(fx(136).s)},
	}
}

type gtype struct {
	name string
	t    reflect.Type
}

func gtypes() []gtype {
	var out []gtype
	add := func(v interface{}) {
		t := reflect.TypeOf(v)
		out = append(out, gtype{t.String(), t})
	}
	add(false)
	add(NamedBool(false))
	add(int8(0))
	add(int16(0))
	add(int32(0))
	add(int64(0))
	add(int(0))
	add(NamedInt32(0))
	add(uint8(0))
	add(uint16(0))
	add(uint32(0))
	add(uint64(0))
	add(uint(0))
	add(uintptr(0))
	add(float32(0))
	add(float64(0))
	add(complex64(0))
	add(complex128(0))
	add("")
	add(NamedString(""))
	add([]byte(nil))
	add([]NamedByte(nil))
	add([]int8(nil))
	add([0]byte{})
	add([1]byte{})
	add([3]byte{})
	add([4]byte{})
	add([8]byte{})
	add([16]byte{})
	add([17]byte{})
	add([4]int8{})
	add([]int64(nil))
	add([]int16(nil))
	add([]string(nil))
	add([2]int64{})
	add(map[string]int64(nil))
	add(map[string]int16(nil))
	add(map[NamedString]int64(nil))
	add(map[int]int64(nil))
	add(map[[2]byte]int64(nil))
	add(map[string][128]byte(nil))
	add(map[string][136]byte(nil))
	add([][136]byte(nil))
	add(struct{ A int64 }{})
	add(struct{ A int16 `json:"a"` }{})
	add(struct{ A string `json:"a"` }{})
	add(struct{}{})
	out = append(out, gtype{"interface{}", reflect.TypeOf((*interface{})(nil)).Elem()})
	add((chan int)(nil))
	add((func())(nil))
	add(unsafe.Pointer(nil))
	add((*int64)(nil))
	add((**int64)(nil))
	add((*int16)(nil))
	add((*string)(nil))
	add((*[4]byte)(nil))
	add((*uint32)(nil))
	add((*struct{ A int64 })(nil))
	return out
}

type verdict int

const (
	no verdict = iota
	yes
	any
)

// sound is the reference soundness table, written from the documented mapping.
func sound(s *ref.Schema, t reflect.Type) verdict {
	if s.Type == "null" {
		return any // nothing is ever stored
	}
	if s.Type == "union" {
		// every non-null branch may turn up in the data: all of them must suit the Go type
		v := yes
		n := 0
		for _, b := range s.Branches {
			if b.Type != "null" {
				n++
				if sound(b, t) == no {
					v = no
				}
			}
		}
		if n == 0 {
			return any
		}
		return v
	}
	if t.Kind() == reflect.Ptr {
		return sound(s, t.Elem())
	}
	ok := func(b bool) verdict {
		if b {
			return yes
		}
		return no
	}
	switch s.Type {
	case "boolean":
		return ok(t.Kind() == reflect.Bool)
	case "int", "long":
		return ok(t.Kind() == reflect.Int || t.Kind() == reflect.Int16 || t.Kind() == reflect.Int32 || t.Kind() == reflect.Int64)
	case "float":
		return ok(t.Kind() == reflect.Float32)
	case "double":
		return ok(t.Kind() == reflect.Float32 || t.Kind() == reflect.Float64)
	case "bytes":
		return ok(t.Kind() == reflect.Slice && t.Elem().Kind() == reflect.Uint8)
	case "string":
		return ok(t.Kind() == reflect.String)
	case "fixed":
		return ok(t.Kind() == reflect.Array && t.Elem().Kind() == reflect.Uint8 && t.Len() == s.Size)
	case "enum":
		return no
	case "record":
		if t.Kind() != reflect.Struct {
			return no
		}
		for _, f := range s.Fields {
			for i := 0; i < t.NumField(); i++ {
				if n, in := gv.FieldName(t.Field(i)); in && n == f.Name {
					if v := sound(f.Type, t.Field(i).Type); v == no {
						return no
					}
				}
			}
		}
		return yes
	case "array":
		if t.Kind() != reflect.Slice {
			return no
		}
		return sound(s.Items, t.Elem())
	case "map":
		if t.Kind() != reflect.Map || t.Key().Kind() != reflect.String {
			return no
		}
		return sound(s.Values, t.Elem())
	}
	return no
}

type position struct {
	name string
	wrapS func(*ref.Schema) *ref.Schema
	wrapT func(reflect.Type) reflect.Type
}

func positions(tier string) []position {
	str := reflect.TypeOf("")
	id := func(s *ref.Schema) *ref.Schema { return s }
	ps := []position{
		{"direct", id, func(t reflect.Type) reflect.Type { return t }},
		{"behind-pointer", id, reflect.PointerTo},
		{"slice-element", ref.Array, reflect.SliceOf},
		{"map-value", ref.Map, func(t reflect.Type) reflect.Type { return reflect.MapOf(str, t) }},
	}
	if tier == "thorough" {
		ps = append(ps,
			position{"slice-of-maps", func(s *ref.Schema) *ref.Schema { return ref.Array(ref.Map(s)) }, func(t reflect.Type) reflect.Type { return reflect.SliceOf(reflect.MapOf(str, t)) }},
			position{"nullable-pointer", func(s *ref.Schema) *ref.Schema {
				if s.Type == "union" || s.Type == "null" {
					return s // [null,null] is not a schema
				}
				return ref.Union(ref.Prim("null"), s)
			}, reflect.PointerTo},
			position{"map-of-slices", func(s *ref.Schema) *ref.Schema { return ref.Map(ref.Array(s)) }, func(t reflect.Type) reflect.Type { return reflect.MapOf(str, reflect.SliceOf(t)) }},
			position{"pointer-to-pointer", id, func(t reflect.Type) reflect.Type { return reflect.PointerTo(reflect.PointerTo(t)) }},
		)
	}
	return ps
}

const (
	can0 uint64 = 0xC0C0C0C0D1D1D1D1
	can1 uint8  = 0x5A
	can2 uint64 = 0x0123456789ABCDEF
)

// probe struct: destination between canaries of alignment 8 (before) and 1 (immediately after)
func probeType(ft reflect.Type) reflect.Type {
	return reflect.StructOf([]reflect.StructField{
		{Name: "c0", PkgPath: "verifharness/props/c05", Type: reflect.TypeOf(uint64(0))},
		{Name: "F", Type: ft, Tag: `json:"f"`},
		{Name: "c1", PkgPath: "verifharness/props/c05", Type: reflect.TypeOf(uint8(0))},
		{Name: "Sib", Type: reflect.TypeOf(int64(0)), Tag: `json:"sibling_not_in_schema"`},
		{Name: "c2", PkgPath: "verifharness/props/c05", Type: reflect.TypeOf(uint64(0))},
	})
}

const sibVal = 0x7E57AB1E

func fill(v reflect.Value) {
	base := unsafe.Pointer(v.UnsafeAddr())
	t := v.Type()
	for i := 0; i < t.NumField(); i++ {
		p := unsafe.Add(base, t.Field(i).Offset)
		switch t.Field(i).Name {
		case "c0":
			*(*uint64)(p) = can0
		case "c1":
			*(*uint8)(p) = can1
		case "c2":
			*(*uint64)(p) = can2
		case "Sib":
			*(*int64)(p) = sibVal
		}
	}
}

func intact(v reflect.Value) string {
	base := unsafe.Pointer(v.UnsafeAddr())
	t := v.Type()
	for i := 0; i < t.NumField(); i++ {
		p := unsafe.Add(base, t.Field(i).Offset)
		switch t.Field(i).Name {
		case "c0":
			if *(*uint64)(p) != can0 {
				return "bytes before the field"
			}
		case "c1":
			if *(*uint8)(p) != can1 {
				return "byte right after the field"
			}
		case "c2":
			if *(*uint64)(p) != can2 {
				return "trailing canary"
			}
		case "Sib":
			if *(*int64)(p) != sibVal {
				return "sibling field not named in the schema"
			}
		}
	}
	return ""
}

// ---- embedded structs: fields promoted from an embedded struct are NOT matched by name (an embedded
// struct is an ordinary field named after its type), so a schema field with a promoted field's name is
// skipped and must not touch anything; a schema field named after the embedded type fills the whole struct.

type EmbInner struct {
	ID   int64
	Name string
}

type embOuter struct {
	Guard0 uint64
	Live   bool
	Count  int32
	EmbInner
	Guard1 uint64
}

type embPtrOuter struct {
	Guard0 uint64
	Live   bool
	*EmbInner
	Count  int32
	Guard1 uint64
}

func runEmbedded(c *fw.Ctx) {
	schemas := []*ref.Schema{
		ref.Record("E1", ref.F("ID", ref.Prim("long"))),
		ref.Record("E2", ref.F("Name", ref.Prim("string")), ref.F("ID", ref.Prim("long")), ref.F("Count", ref.Prim("long"))),
		ref.Record("E3", ref.F("Live", ref.Prim("boolean")), ref.F("EmbInner", ref.Record("In", ref.F("ID", ref.Prim("long")), ref.F("Name", ref.Prim("string")))), ref.F("ID", ref.Prim("long"))),
		ref.Record("E4", ref.F("EmbInner", ref.Union(ref.Prim("null"), ref.Record("In4", ref.F("Name", ref.Prim("string")), ref.F("ID", ref.Prim("long"))))), ref.F("Name", ref.Prim("string"))),
	}
	for _, rs := range schemas {
		for _, typ := range []reflect.Type{reflect.TypeOf(embOuter{}), reflect.TypeOf(embPtrOuter{})} {
			locus := "embedded|" + typ.Name()
			desc := fmt.Sprintf("schema %s decoded into %s (struct with an embedded struct)", rs.Print(nil), typ)
			c.Eval(1)
			c.Nontrivial(desc)
			c.Begin(locus, desc)
			var codec avro.Codec
			var err error
			if c.Guard(locus+"|build", desc, desc, func() {
				var s avro.Schema
				s, err = avro.SchemaFromString(rs.Print(nil))
				if err == nil {
					codec, err = s.Codec(reflect.New(typ).Elem().Interface())
				}
			}) {
				continue
			}
			if err != nil {
				c.Count("pairs_refused", 1)
				continue
			}
			for _, d := range univ.Datums(rs, false) {
				c.Eval(1)
				enc := ref.Encode(rs, d)
				dst := reflect.New(typ).Elem()
				exp := reflect.New(typ).Elem()
				for _, v := range []reflect.Value{dst, exp} {
					v.FieldByName("Guard0").SetUint(can0)
					v.FieldByName("Guard1").SetUint(can2)
					v.FieldByName("Count").SetInt(0x5A5A5A5A)
					v.FieldByName("Live").SetBool(true)
				}
				ddesc := desc + " datum " + clip(d.String())
				det := map[string]interface{}{"schema": rs.Print(nil), "type": typ.String(), "datum": d.String()}
				var rerr error
				if c.Guard(locus+"|decode", ddesc, det, func() { rerr = codec.Read(avro.NewReadBuf(enc), unsafe.Pointer(dst.UnsafeAddr())) }) {
					continue
				}
				if e := gv.Expect(rs, d, exp); e != nil {
					c.Count("abstraction_undefined_not_judged", 1)
					continue
				}
				if rerr != nil {
					c.Violation("read-error|"+locus, fmt.Sprintf("Read failed: %v — %s", rerr, ddesc), det)
					continue
				}
				if path, dl, vc := gv.DiffLocus(exp, dst); path != "" {
					c.Violation("wrote-outside-field|embedded|"+dl+"|"+vc, fmt.Sprintf("struct holds %s, expected %s (difference at %s): a field the schema does not name was modified or a named one not filled — %s", clip(gv.Show(dst)), clip(gv.Show(exp)), path, ddesc), det)
				}
			}
		}
	}
	c.Sample(map[string]interface{}{"kind": "embedded structs", "schemas": len(schemas), "targets": []string{"embOuter", "embPtrOuter"}})
}

// ---- top-level destinations: only a struct or a pointer to a struct may be decoded into; anything else
// (pointer to pointer, pointer to a non-struct, slices, maps, scalars) must be refused without touching memory

type topS struct {
	A int64  `json:"a"`
	B string `json:"b"`
	C int64  `json:"c"`
}

// runBoolBytes: a boolean on the wire is one byte. Whatever byte arrives (the specification only defines 0 and 1),
// a Go bool that the decoder stores must be a VALID bool — its single byte 0 or 1 — or the decode must fail: a
// bool holding 2 is true in an if, equal to neither true nor false, and not found as a map key.
func runBoolBytes(c *fw.Ctx) {
	type T struct {
		G0 uint64
		B  bool          `json:"b"`
		G1 uint8
		P  *bool         `json:"p"`
		L  []bool        `json:"l"`
		M  map[string]bool `json:"m"`
		N  *bool         `json:"n"`
		NB NamedBool     `json:"nb"`
		G2 uint64
	}
	s, err := avro.SchemaFromString(`{"type":"record","name":"T","fields":[{"name":"b","type":"boolean"},{"name":"p","type":"boolean"},{"name":"l","type":{"type":"array","items":"boolean"}},{"name":"m","type":{"type":"map","values":"boolean"}},{"name":"n","type":["null","boolean"]},{"name":"nb","type":"boolean"}]}`)
	if err != nil {
		c.HarnessError(err.Error())
		return
	}
	codec, err := s.Codec(T{})
	if err != nil {
		c.Count("bool_shapes_refused", 1)
		return
	}
	raw := func(p *bool) byte { return *(*byte)(unsafe.Pointer(p)) }
	for x := 0; x < 256; x++ {
		b := byte(x)
		c.Eval(1)
		c.Nontrivial(fmt.Sprintf("boolbyte/%d", x))
		desc := fmt.Sprintf("boolean byte 0x%02x in every bool-shaped position", b)
		// b, p, l=[x, 1, x], m={"k": x}, n=[1: x], nb
		in := []byte{b, b, 6, b, 1, b, 0, 2, 2, 'k', b, 0, 2, b, b}
		c.Guard("bool-bytes", desc, desc, func() {
			v := T{G0: can0, G1: 0xa5, G2: can2}
			r := avro.NewReadBuf(in)
			if err := codec.Read(r, unsafe.Pointer(&v)); err != nil {
				if b <= 1 {
					c.Violation("spurious-error|boolean|"+fmt.Sprint(b), fmt.Sprintf("%v — %s", err, desc), desc)
				}
				return
			}
			if v.G0 != can0 || v.G1 != 0xa5 || v.G2 != can2 {
				c.Violation("wrote-outside-field|boolean|bool|direct", "guards around the bool fields changed — "+desc, desc)
				return
			}
			var bad []string
			chk := func(name string, p *bool) {
				if p == nil {
					bad = append(bad, name+"=nil")
				} else if raw(p) > 1 {
					bad = append(bad, fmt.Sprintf("%s holds 0x%02x", name, raw(p)))
				} else if b <= 1 && (raw(p) == 1) != (b == 1) {
					bad = append(bad, fmt.Sprintf("%s = %v", name, *p))
				}
			}
			chk("B", &v.B)
			chk("P", v.P)
			if len(v.L) == 3 {
				chk("L[0]", &v.L[0])
				chk("L[2]", &v.L[2])
			} else {
				bad = append(bad, fmt.Sprintf("len(L)=%d", len(v.L)))
			}
			for k := range v.M {
				mv := v.M[k]
				chk("M[k]", &mv)
			}
			chk("N", v.N)
			chk("NB", (*bool)(&v.NB))
			if len(bad) > 0 {
				cls := "noncanonical"
				if b <= 1 {
					cls = "canonical"
				}
				c.Violation("invalid-bool-stored|boolean|"+cls, fmt.Sprintf("%v — %s", bad, desc), desc)
			}
		})
	}
	c.Sample(map[string]interface{}{"kind": "every byte value as a boolean", "positions": "bool, *bool, []bool, map[string]bool, [null,boolean] into *bool, named bool"})
}

func runTopLevel(c *fw.Ctx) {
	rs := ref.Record("TopS", ref.F("a", ref.Prim("long")), ref.F("b", ref.Prim("string")), ref.F("c", ref.Prim("long")))
	d := ref.DRecord(ref.DLong(2), ref.DString("bee"), ref.DLong(3))
	data, _ := ref.WriteFile(ref.StdMeta(rs.Print(nil), "null", true), "null", [16]byte{7}, []ref.Block{{Count: 1, Payload: ref.Encode(rs, d)}})
	type holder struct {
		G0 [4]uint64
		P  *topS
		G1 [4]uint64
		PP **topS
		G2 [4]uint64
		I  *int64
		G3 [4]uint64
	}
	fresh := func() *holder {
		h := &holder{}
		for i := range h.G0 {
			h.G0[i], h.G1[i], h.G2[i], h.G3[i] = can0, can2, can0, can2
		}
		return h
	}
	intact := func(h *holder) bool {
		for i := range h.G0 {
			if h.G0[i] != can0 || h.G1[i] != can2 || h.G2[i] != can0 || h.G3[i] != can2 {
				return false
			}
		}
		return true
	}
	cases := []struct {
		name string
		out  func(h *holder) interface{}
		ok   bool
	}{
		{"struct", func(h *holder) interface{} { return topS{} }, true},
		{"*struct", func(h *holder) interface{} { h.P = &topS{}; return h.P }, true},
		{"**struct", func(h *holder) interface{} { return &h.P }, false},
		{"**struct (non-nil inner)", func(h *holder) interface{} { h.P = &topS{}; return &h.P }, false},
		{"***struct", func(h *holder) interface{} { return &h.PP }, false},
		{"*int64", func(h *holder) interface{} { return &h.I }, false},
		{"int64", func(h *holder) interface{} { return int64(0) }, false},
		{"[]struct", func(h *holder) interface{} { return []topS{{}} }, false},
		{"*[]struct", func(h *holder) interface{} { x := []topS{{}}; return &x }, false},
		{"map", func(h *holder) interface{} { return map[string]int64{} }, false},
		{"string", func(h *holder) interface{} { return "" }, false},
	}
	for _, tc := range cases {
		c.Eval(1)
		locus := "top-level|" + tc.name
		desc := "ReadFile / Schema.Codec with a destination of shape " + tc.name
		c.Nontrivial(desc)
		c.Begin(locus, desc)
		h := fresh()
		out := tc.out(h)
		var cerr, rerr error
		n := 0
		if c.Guard(locus, desc, desc, func() {
			s, err := avro.SchemaFromString(rs.Print(nil))
			if err != nil {
				cerr = err
				return
			}
			_, cerr = s.Codec(out)
			rerr = avro.ReadFile(&filedrv.Reader{Data: data}, out, func(val unsafe.Pointer, rb *avro.ResourceBank) error { n++; return nil })
		}) {
			continue
		}
		if !intact(h) {
			c.Violation("wrote-outside-destination|"+locus, "memory around the destination was modified — "+desc, desc)
			continue
		}
		if tc.ok {
			if cerr != nil || rerr != nil || n != 1 {
				c.Violation("read-error|"+locus, fmt.Sprintf("Codec err=%v ReadFile err=%v records=%d — %s", cerr, rerr, n, desc), desc)
			}
			continue
		}
		if cerr == nil {
			c.Violation("unsound-pair-accepted|"+locus, "Schema.Codec built a decoder for a destination that is neither a struct nor a pointer to a struct — "+desc, desc)
		}
		if rerr == nil {
			c.Violation("unsound-pair-accepted|ReadFile|"+locus, fmt.Sprintf("ReadFile accepted the destination and delivered %d records — %s", n, desc), desc)
		}
	}
}

type pairCase struct {
	sn  snode
	gt  gtype
	pos position
}

var memo = map[string][]pairCase{}

func pairs(tier string) []pairCase {
	if p, ok := memo[tier]; ok {
		return p
	}
	var ps []pairCase
	for _, pos := range positions(tier) {
		for _, sn := range snodes() {
			for _, gt := range gtypes() {
				ps = append(ps, pairCase{sn, gt, pos})
			}
		}
	}
	memo[tier] = ps
	return ps
}

var parsedSchemas = map[string]avro.Schema{}

func runPair(c *fw.Ctx, k int, pc pairCase) {
	fs := pc.pos.wrapS(pc.sn.s)
	ft := pc.pos.wrapT(pc.gt.t)
	rs := ref.Record("Top", ref.F("f", fs))
	schemaJSON := rs.Print(nil)
	pt := probeType(ft)
	locus := pc.sn.name + "|" + pc.gt.name + "|" + pc.pos.name
	desc := fmt.Sprintf("schema %s with Go field type %s (%s)", fs.Print(nil), ft, pc.pos.name)
	c.Eval(1)
	c.Begin(locus, desc)
	want := sound(fs, ft)
	var codec avro.Codec
	var err error
	if c.Guard(locus+"|build", desc, desc, func() {
		// one parsed Schema value per document, used for every Go type it is paired with (parse once, build many)
		s, ok := parsedSchemas[schemaJSON]
		if !ok {
			s, err = avro.SchemaFromString(schemaJSON)
			if err != nil {
				return
			}
			parsedSchemas[schemaJSON] = s
		}
		codec, err = s.Codec(reflect.New(pt).Elem().Interface())
	}) {
		return
	}
	c.Nontrivial(locus)
	if err != nil {
		c.Count("pairs_refused", 1)
		if want == yes {
			c.Count("sound_pairs_refused_not_judged", 1) // refusing a sound pair is allowed by the statement ("either fails or ...")
		}
		return
	}
	c.Count("pairs_built", 1)
	if want == no {
		c.Violation("unsound-pair-accepted|"+pc.sn.name+"|"+kindClass(pc.gt.t)+"|"+pc.pos.name, fmt.Sprintf("a decoder was built for the mismatched pair: %s", desc), map[string]interface{}{"schema": schemaJSON, "type": ft.String()})
		// still run it (in this isolated worker) to demonstrate the corruption, but report nothing further for this pair
	}
	// decode every alphabet datum (in-range and out-of-range) between canaries and guards
	// every datum in three legal renderings of its collections: one plain block; one size-prefixed block; one
	// size-prefixed block per item
	type rendering struct {
		d   ref.Datum
		enc []byte
	}
	var rends []rendering
	alphabet := univ.Datums(fs, true)
	if fs.Type == "map" {
		// a map of nine entries (more than one group of Go's map implementation holds)
		vs := univ.Datums(fs.Values, false)
		var keys []string
		var vals []ref.Datum
		for i := 0; i < 9; i++ {
			keys = append(keys, fmt.Sprintf("entry-%d", i))
			vals = append(vals, vs[i%len(vs)])
		}
		alphabet = append(alphabet, ref.DMap(keys, vals))
	}
	for _, d := range alphabet {
		plain := ref.Encode(rs, ref.DRecord(d))
		rends = append(rends, rendering{d, plain})
		sized := (&ref.Enc{Policy: func(label string, n int) int {
			if label == "sizeprefix" {
				return 1
			}
			return 0
		}}).Encode(nil, rs, ref.DRecord(d))
		if string(sized) != string(plain) {
			rends = append(rends, rendering{d, sized})
			each := (&ref.Enc{Policy: func(label string, n int) int {
				if label == "sizeprefix" {
					return 1
				}
				if label == "blocksize" {
					return n - 1
				}
				return 0
			}}).Encode(nil, rs, ref.DRecord(d))
			if string(each) != string(sized) {
				rends = append(rends, rendering{d, each})
			}
		}
	}
	for di, rd := range rends {
		c.Eval(1)
		d, enc := rd.d, rd.enc
		arr := reflect.New(reflect.ArrayOf(3, pt)).Elem()
		for i := 0; i < 3; i++ {
			fill(arr.Index(i))
		}
		// guard copies of the outer elements
		g0 := reflect.New(pt).Elem()
		g0.Set(arr.Index(0))
		g2 := reflect.New(pt).Elem()
		g2.Set(arr.Index(2))
		dst := arr.Index(1)
		// pre-sized slice with a canary-patterned backing array: the decoder appends in place
		var backing reflect.Value
		if ft.Kind() == reflect.Slice && ft.Elem().Kind() != reflect.Uint8 && isPlain(ft.Elem()) && everyItemStored(pc.sn.s) {
			backing = reflect.MakeSlice(ft, 8, 8)
			fillBytes(backing, 0xEE)
			dst.Field(1).Set(backing.Slice(0, 0))
		}
		ddesc := fmt.Sprintf("%s decoding %s", desc, clip(d.String()))
		det := map[string]interface{}{"schema": schemaJSON, "type": ft.String(), "datum": d.String(), "bytes": fmt.Sprintf("%x", clipB(enc))}
		c.Begin(locus, ddesc)
		var rerr error
		if c.Guard(locus+"|decode", ddesc, det, func() {
			rerr = codec.Read(avro.NewReadBuf(enc), unsafe.Pointer(dst.UnsafeAddr()))
		}) {
			continue
		}
		if want == no {
			if bad := intact(dst); bad != "" {
				c.Count("unsound_pairs_with_observed_corruption", 1)
			}
			continue
		}
		if bad := intact(dst); bad != "" {
			c.Violation("wrote-outside-field|"+pc.sn.name+"|"+kindClass(pc.gt.t)+"|"+pc.pos.name, fmt.Sprintf("decoding modified the %s — %s", bad, ddesc), det)
			continue
		}
		if d0, d2 := gv.Equal(g0, arr.Index(0)), gv.Equal(g2, arr.Index(2)); d0 != "" || d2 != "" {
			c.Violation("wrote-outside-struct|"+pc.sn.name+"|"+kindClass(pc.gt.t)+"|"+pc.pos.name, fmt.Sprintf("decoding modified memory around the struct (%s %s) — %s", d0, d2, ddesc), det)
			continue
		}
		if backing.IsValid() {
			n := dst.Field(1).Len()
			sameBacking := n <= 8 && n > 0 && dst.Field(1).Pointer() == backing.Pointer()
			if sameBacking && !tailIntact(backing, n, 0xEE) {
				c.Violation("wrote-outside-slice-elements|"+pc.sn.name+"|"+kindClass(pc.gt.t)+"|"+pc.pos.name, fmt.Sprintf("decoding %d elements into a pre-sized slice modified the elements after them — %s", n, ddesc), det)
				continue
			}
		}
		exp := reflect.New(pt).Elem()
		fill(exp)
		eerr := gv.Expect(rs, ref.DRecord(d), exp)
		if _, isErr := eerr.(*gv.ErrExpected); isErr {
			if rerr == nil {
				c.Violation("missing-error|"+pc.sn.name+"|"+kindClass(pc.gt.t)+"|out-of-range", fmt.Sprintf("out-of-range value decoded without error as %s — %s", gv.Show(dst.Field(1)), ddesc), det)
			}
			continue
		}
		if eerr != nil {
			c.Count("abstraction_undefined_not_judged", 1)
			continue
		}
		if rerr != nil {
			c.Violation("read-error|"+pc.sn.name+"|"+kindClass(pc.gt.t)+"|"+pc.pos.name, fmt.Sprintf("Read failed: %v — %s", rerr, ddesc), det)
			continue
		}
		if path, dl, vc := gv.DiffLocus(exp.Field(1), dst.Field(1)); path != "" {
			c.Violation("wrong-value|"+dl+"|"+vc, fmt.Sprintf("field holds %s, the datum is %s (difference at %s) — %s", clip(gv.Show(dst.Field(1))), clip(gv.Show(exp.Field(1))), path, ddesc), det)
		}
		_ = di
	}
	if k%211 == 0 {
		c.Sample(map[string]interface{}{"schema": fs.Print(nil), "go_type": ft.String(), "position": pc.pos.name, "sound": []string{"no", "yes", "any"}[want], "built": err == nil})
	}
}

// everyItemStored: the item schema stores a value for every item (no null branch), so reused
// capacity is completely overwritten and the canary pattern may only survive beyond Len.
func everyItemStored(s *ref.Schema) bool {
	switch s.Type {
	case "int", "long", "float", "double", "boolean":
		return true
	}
	return false
}

func isPlain(t reflect.Type) bool {
	switch t.Kind() {
	case reflect.Int, reflect.Int8, reflect.Int16, reflect.Int32, reflect.Int64, reflect.Float32, reflect.Float64, reflect.Bool, reflect.Uint8, reflect.Uint16, reflect.Uint32, reflect.Uint64:
		return true
	}
	return false
}

func fillBytes(s reflect.Value, b byte) {
	n := s.Len() * int(s.Type().Elem().Size())
	if n == 0 {
		return
	}
	p := unsafe.Slice((*byte)(unsafe.Pointer(s.Pointer())), n)
	for i := range p {
		p[i] = b
	}
}

func tailIntact(s reflect.Value, used int, b byte) bool {
	es := int(s.Type().Elem().Size())
	n := s.Len() * es
	p := unsafe.Slice((*byte)(unsafe.Pointer(s.Pointer())), n)
	for i := used * es; i < n; i++ {
		if p[i] != b {
			return false
		}
	}
	return true
}

func kindClass(t reflect.Type) string {
	s := ""
	for t.Kind() == reflect.Ptr {
		s += "ptr>"
		t = t.Elem()
	}
	switch t.Kind() {
	case reflect.Slice, reflect.Array, reflect.Map:
		return s + t.Kind().String() + ">" + t.Elem().Kind().String()
	}
	return s + t.Kind().String()
}

func clip(s string) string {
	if len(s) > 160 {
		return s[:160] + "…"
	}
	return s
}

func clipB(b []byte) []byte {
	if len(b) > 64 {
		return b[:64]
	}
	return b
}

const chunk = 40

func init() {
	fw.Register(&fw.Check{
		ID:    "C05",
		Level: "exploration",
		Rule: func(tier string) string {
			p := "4 positions (direct field, behind a pointer, slice element, map value)"
			if tier == "thorough" {
				p = "8 positions (direct, behind pointer, slice element, map value, slice of maps, nullable pointer, map of slices, pointer to pointer)"
			}
			return "the full matrix of 30 schema nodes (incl. maps and arrays of 128- and 136-byte elements; every map also with nine entries; null, boolean, int, long, float, double, bytes, string, fixed 0/1/3/4/8/16/17, record, enum, arrays, map, unions with null first/second, multi-branch unions; each document parsed once and its Schema value reused for every Go type) × 55 Go types (bool, every signed/unsigned width, uintptr, floats, complex, string, named kinds, byte slices/arrays of every listed length, slices, arrays, maps with string/named/int/array keys, structs, pointers, interface, chan, func, unsafe.Pointer) × " + p + "; oracle: a soundness table written from the documented mapping — an unsound pair must be refused by Schema.Codec; for every pair that builds, every datum of the schema's full alphabet (in-range and out-of-range; collections as one plain block, one size-prefixed block and one size-prefixed block per item) is decoded into the middle element of a 3-element array of struct{c0 uint64; F G; c1 uint8; sibling; c2 uint64} and into a pre-sized canary-patterned slice: canaries, sibling, guard elements and trailing slice capacity must be byte-identical, the field must hold the reference value, out-of-range integers must be errors; every byte value 0..255 as a boolean into bool, *bool, []bool, map[string]bool, [null,boolean]→*bool and a named bool: a stored Go bool must hold 0 or 1 (or the decode fails); each pair runs in an isolated worker (a crash is a violation of that pair); non-trivial = a distinct (schema, type, position) triple"
		},
		Assumptions: []string{
			"a sound pair that the library refuses is not a violation (the statement allows failing)",
			"the null schema stores nothing and is sound with any Go type",
			"writes further than the guard elements / the slice capacity that happen not to crash are not observed",
		},
		NumCases: func(tier string) int { return (len(pairs(tier))+chunk-1)/chunk + 3 },
		RunCase: func(c *fw.Ctx, idx int) {
			ps := pairs(c.Tier)
			if idx == (len(ps)+chunk-1)/chunk {
				runEmbedded(c)
				return
			}
			if idx == (len(ps)+chunk-1)/chunk+1 {
				runTopLevel(c)
				return
			}
			if idx == (len(ps)+chunk-1)/chunk+2 {
				runBoolBytes(c)
				return
			}
			for k := idx * chunk; k < (idx+1)*chunk && k < len(ps); k++ {
				runPair(c, k, ps[k])
			}
		},
		WorkerEnv: []string{"GODEBUG=invalidptr=1"},
		Budget:    func(tier string) time.Duration { return 30 * time.Minute },
	})
}

//go:build ovl

package c12

import (
	"context"
	"fmt"
	"os"
	"os/exec"
	"path/filepath"
	"runtime"
	"runtime/debug"
	"strings"
	"time"

	"github.com/philpearl/avro/zzvsync"

	"verifharness/c12body"
	"verifharness/explore"
	"verifharness/fw"
	"verifharness/reg"
)

type vchan struct{ c *zzvsync.Chan }

func (v vchan) Send(x any)        { v.c.Send(x) }
func (v vchan) Recv() (any, bool) { return v.c.Recv() }
func (v vchan) Close()            { v.c.Close() }

var env = &c12body.Env{NewChan: func() c12body.Chan { return vchan{zzvsync.NewChan()} }}

type outcome struct {
	obs      []c12body.Obs
	races    []zzvsync.Race
	deadlock string
	pan      interface{}
	site     string
	steps    int
}

func execute(sc c12body.Scenario, ch *explore.Chooser, accessPoints bool, stmtPoints ...bool) outcome {
	env.Exec++
	// executions must be independent: empty the library's package-level registries and caches
	zzvsync.ResetAll()
	reg.Init()
	if sc.NoLibraryRegistration {
		zzvsync.ResetAll() // reg.Init may just have registered (first execution of the process): empty again
	} else {
		reg.Again()
	}
	c12body.SetDeterministic()
	st := sc.Setup(env)
	zzvsync.ResetPools()
	s := zzvsync.NewScheduler(func(label string, n int) int { return ch.Choose(label, n) })
	s.AccessPoints = accessPoints
	s.StmtPoints = len(stmtPoints) > 0 && stmtPoints[0]
	obs := make([]c12body.Obs, sc.Threads)
	for i := 0; i < sc.Threads; i++ {
		i := i
		s.Go(func() { obs[i] = sc.Body(st, i) })
	}
	var out outcome
	func() {
		defer func() {
			if r := recover(); r != nil {
				if msg, ok := r.(string); ok && strings.HasPrefix(msg, "explore:") {
					panic(r) // a replay divergence is a harness error, handled by runScenario
				}
				out.pan, out.site = r, fw.PanicSite(3)
			}
		}()
		p, tid := s.Run()
		if p != nil {
			if msg, ok := p.(string); ok && strings.HasPrefix(msg, "explore:") {
				panic(p)
			}
			out.pan, out.site = p, fmt.Sprintf("thread %d", tid)
		}
	}()
	out.obs = obs
	out.races = s.Races
	out.steps = s.Steps
	if s.Deadlock {
		out.deadlock = s.DeadlockInfo
	}
	if out.pan == nil && out.deadlock == "" {
		if e := sc.Check(st, obs); e != "" {
			out.obs = append(out.obs, c12body.Obs{S: "CHECK " + e})
		}
	}
	return out
}

func obsKey(o outcome) string {
	var ps []string
	for _, x := range o.obs {
		ps = append(ps, x.S+"/"+x.Err)
	}
	return strings.Join(ps, " | ")
}

func runScenario(c *fw.Ctx, sc c12body.Scenario, bound int, accessPoints bool, maxExec int64, stmtPoints ...bool) {
	stmt := len(stmtPoints) > 0 && stmtPoints[0]
	old := debug.SetGCPercent(-1)
	defer debug.SetGCPercent(old)
	outcomes := map[string]bool{}
	locus := strings.Fields(sc.Name)[0]
	n := 0
	defer func() {
		if r := recover(); r != nil {
			if msg, ok := r.(string); ok && strings.HasPrefix(msg, "explore: replay divergence") {
				c.HarnessError(fmt.Sprintf("scenario %q: %s (the harness does not own some source of nondeterminism)", sc.Name, msg))
				return
			}
			panic(r)
		}
	}()
	st := explore.Run(bound, maxExec, func(ch *explore.Chooser) {
		n++
		if n%200 == 0 {
			runtime.GC() // between executions only: no address is reused while an execution's shadow state is alive
		}
		c.Begin(locus, sc.Name)
		o := execute(sc, ch, accessPoints, stmt)
		outcomes[obsKey(o)] = true
		desc := fmt.Sprintf("scenario %q schedule %v", sc.Name, ch.Taken)
		det := map[string]interface{}{"scenario": sc.Name, "schedule": fmt.Sprint(ch.Taken), "labels": fmt.Sprint(ch.Labels), "access_points": accessPoints, "statement_points": stmt}
		switch {
		case o.pan != nil:
			c.Violation("panic:"+fw.PanicClass(o.pan)+"|"+locus, fmt.Sprintf("panic %v in %s — %s", o.pan, o.site, desc), det)
		case o.deadlock != "":
			c.Violation("deadlock|"+locus, o.deadlock+" — "+desc, det)
		}
		for _, r := range o.races {
			// re-execute the same schedule: a report that does not reproduce identically is a harness artefact
			again := execute(sc, explore.NewChooser(ch.Taken), accessPoints, stmt)
			rep := false
			for _, r2 := range again.races {
				if r2.Site1 == r.Site1 && r2.Site2 == r.Site2 {
					rep = true
				}
			}
			if !rep {
				c.Count("unreproduced_race_reports_discarded", 1)
				continue
			}
			kind := map[bool]string{true: "write", false: "read"}
			c.Violation("data-race|"+r.Site1+"~"+r.Site2, fmt.Sprintf("unordered conflicting accesses: %s in %s (thread %d) and %s in %s (thread %d), no happens-before path — %s", kind[r.Write1], r.Site1, r.T1, kind[r.Write2], r.Site2, r.T2, desc), det)
		}
		if o.pan == nil && o.deadlock == "" {
			for _, x := range o.obs {
				if strings.HasPrefix(x.S, "CHECK ") {
					c.Violation("result-differs-from-sequential|"+locus, fmt.Sprintf("%s — %s", x.S[6:], desc), det)
				}
			}
		}
	}, func(ch *explore.Chooser, i int, alt int) int {
		if ch.Labels[i] == "sched-free" {
			return 0
		}
		return 1
	})
	c.Eval(st.Executions)
	c.NontrivialN(st.Executions)
	c.Count("states", st.Executions)
	c.Count("transitions", st.ChoicePoints)
	c.Count("traces_validated_against_impl", st.Executions)
	if st.Capped {
		c.NotExhaustive(fmt.Sprintf("scenario %q capped at %d executions (bound %d)", sc.Name, maxExec, bound))
	}
	for k := range outcomes {
		c.Observe("outcomes_total", locus+k)
	}
	collide := "collided"
	if len(outcomes) == 1 {
		collide = "single outcome"
	}
	c.Sample(map[string]interface{}{"scenario": sc.Name, "preemption_bound": bound, "access_hooks_are_scheduling_points": accessPoints, "statements_are_scheduling_points": stmt, "schedules": st.Executions, "choice_points": st.ChoicePoints, "max_points_in_a_schedule": st.MaxDepth, "distinct_outcomes": len(outcomes), "note": collide})
}

type task struct {
	name string
	run  func(c *fw.Ctx)
}

func tasks(tier string) []task {
	var ts []task
	for _, sc := range c12body.Scenarios() {
		sc := sc
		bound := 2
		var cap int64 = 60000
		if tier == "thorough" {
			bound = 3
			cap = 1500000
		}
		ts = append(ts, task{sc.Name + " [sync points]", func(c *fw.Ctx) { runScenario(c, sc, bound, false, cap) }})
		// every instrumented access is a scheduling point too: unsynchronised shared state is interleaved, not only reported
		b2 := 1
		if tier == "thorough" {
			b2 = 2
		}
		ts = append(ts, task{sc.Name + " [sync+access points]", func(c *fw.Ctx) { runScenario(c, sc, b2, true, cap) }})
		// the construction scenarios once more with EVERY statement of the library as a scheduling point (one
		// preemption): publish-before-initialise and check-then-act windows inside unsynchronised code
		switch id := strings.Fields(sc.Name)[0]; {
		case id == "S1" || id == "S2" || id == "S8" || id == "S9" || id == "S6c" || id == "S3" || strings.HasPrefix(id, "S11") || id == "S12" || id == "S13" || tier == "thorough":
			ts = append(ts, task{sc.Name + " [statement points]", func(c *fw.Ctx) { runScenario(c, sc, 1, true, cap, true) }})
		}
	}
	return ts
}

// racePass builds and runs the free-running -race pass of the same bodies (auxiliary evidence).
func racePass(tier string, p *fw.Parent) {
	work := os.Getenv("VERIF_WORK")
	bin := os.Getenv("VERIF_RACEPASS_BIN")
	if bin == "" {
		fmt.Println("C12: race-pass binary not provided (VERIF_RACEPASS_BIN); auxiliary pass skipped")
		p.AddCount("race_pass_skipped", 1)
		return
	}
	rounds := "400"
	if tier == "thorough" {
		rounds = "4000"
	}
	// the pass runs on real goroutines with the real sync package: if the tree under test can deadlock, it may
	// never return. It is auxiliary, so a pass that does not finish is killed and recorded, not judged — the
	// scheduler-driven exploration below detects deadlocks itself, deterministically.
	limit := 5 * time.Minute
	if tier == "thorough" {
		limit = 40 * time.Minute
	}
	ctx, cancel := context.WithTimeout(context.Background(), limit)
	defer cancel()
	cmd := exec.CommandContext(ctx, bin, "-rounds", rounds)
	cmd.Env = append(os.Environ(), "GORACE=halt_on_error=0 log_path="+filepath.Join(work, "racelog"))
	out, err := cmd.CombinedOutput()
	text := string(out)
	if ctx.Err() != nil {
		fmt.Printf("C12: free-running -race pass did not finish within %v (killed; auxiliary pass, not judged)\n", limit)
		p.AddCount("race_pass_killed_after_timeout", 1)
		err = nil
	}
	// race reports go to log_path files
	logs, _ := filepath.Glob(filepath.Join(work, "racelog.*"))
	reports := 0
	for _, l := range logs {
		b, _ := os.ReadFile(l)
		reports += strings.Count(string(b), "WARNING: DATA RACE")
		if strings.Contains(string(b), "WARNING: DATA RACE") {
			head := string(b)
			if len(head) > 1500 {
				head = head[:1500]
			}
			p.AddViolation(fw.Violation{Sig: "data-race|go-race-detector", What: "Go's race detector reported a data race in the free-running pass:\n" + head, Case: -1})
		}
		os.Remove(l)
	}
	if err != nil && reports == 0 {
		p.AddViolation(fw.Violation{Sig: "race-pass-failed", What: "free-running pass failed: " + err.Error() + "\n" + tail(text), Case: -1})
	}
	p.AddCount("race_pass_rounds", int64(atoi(rounds)))
	p.AddCount("race_pass_reports", int64(reports))
	fmt.Printf("C12: free-running -race pass: %s rounds x 16 goroutines per scenario, %d reports\n", rounds, reports)
}

func atoi(s string) int { n := 0; fmt.Sscan(s, &n); return n }

func tail(s string) string {
	if len(s) > 800 {
		return s[len(s)-800:]
	}
	return s
}

func init() {
	fw.Register(&fw.Check{
		ID:    "C12",
		Level: "model_checking",
		Rule: func(tier string) string {
			b, b2 := 2, 1
			if tier == "thorough" {
				b, b2 = 3, 2
			}
			return fmt.Sprintf("the library is rebuilt with its sync import replaced by a cooperative-scheduler shim and with generated Access hooks (before every statement touching a package-level variable, at entry of every pointer-receiver method, classified read/write); 18 scenarios of three threads (one of two) that collide on every piece of shared state (Register ∥ Codec+decode ×2; RegisterSchema ∥ SchemaForType ∥ NewEncoderFor; Register(T1) ∥ Register(T2) ∥ build with a final both-in-effect check; shared-codec decode ×3 with pooled banks, closing at once or keeping banks open; shared-codec encode ×3 incl. map iteration; ReadFile ×2 + a third thread closing banks handed over through a channel; timestamp decode ×3 with the same / different / X,Y,Y not-yet-cached zone offsets; a registered builder that re-enters the codec builder ∥ Register of another type (RWMutex modelled with writer preference: readers queue behind an announced writer); ReadFile abandoned from a callback that closed its bank, then shared-codec decode ×2 (two threads); three independent encoders of one compression codec writing two blocks each (deflate, snappy); null.RegisterCodecs followed at once by use of the types, from empty registries; logical dates decoded concurrently through one codec; timestamps with twelve zone offsets where one thread overwrites its input buffer; a mix) are explored over ALL schedules with at most %d preemptions where every Lock/Unlock/RLock/RUnlock/Pool.Get/Pool.Put/channel operation is a scheduling point and every Pool.Get answer a choice, and again with every Access hook as an additional scheduling point with at most %d preemptions, and — for the construction scenarios, the shared-codec decode and the X,Y,Y zone scenario (all scenarios in thorough) — once more with EVERY statement of the library a scheduling point (generated statement hooks, one preemption), so that publish-before-initialise and check-then-act windows inside unsynchronised code are interleaved; sync.Once and sync.Map are shimmed as well (scheduling points, happens-before edges, state dropped between executions), package-level variables are restored before every execution to their values after package initialisation; per schedule: vector-clock happens-before check of all hooked accesses (lock release→acquire, pool put→get, channel send→recv edges), deadlock detection, and comparison of every thread's observation with what a sequential order allows; auxiliary: the same bodies free-running on 16 goroutines under Go's race detector; distinct_nontrivial = schedules executed", b, b2)
		},
		Assumptions: []string{
			"sequentially consistent interleavings at the granularity of synchronisation operations (and of instrumented accesses in the second pass); weak-memory effects are outside the model",
			"data-race freedom is decided for instrumented locations: package-level variables and objects with pointer-receiver methods; the read/write classification is syntactic and errs towards 'read' (can only hide a race); the free-running -race pass is sampling and only auxiliary, but a report from it is a true race",
			"GC is disabled during an execution so that no heap address is reused while its shadow state is alive; a race report must reproduce on an immediate re-execution of the same schedule",
		},
		NumCases: func(tier string) int { return len(tasks(tier)) },
		RunCase: func(c *fw.Ctx, idx int) {
			t := tasks(c.Tier)[idx]
			c.Begin("c12", t.name)
			t.run(c)
		},
		ParentPre: racePass,
		Budget:    func(tier string) time.Duration { return 40 * time.Minute },
	})
}

// Package c12: concurrent independent use is race-free and result-equivalent.
// The explorer is compiled only in overlay builds (tag ovl).
package c12

// Package c20: a registered custom codec governs its type everywhere and nothing else.
package c20

import (
	twin "verifharness/props/c20/twin"
	"bytes"
	"fmt"
	"reflect"
	"strconv"
	"strings"
	"time"
	"unsafe"

	"github.com/philpearl/avro"
	"github.com/unravelin/null/v5"

	"verifharness/aschema"
	"verifharness/dynenc"
	"verifharness/filedrv"
	"verifharness/fw"
	"verifharness/gv"
	"verifharness/ref"
	"verifharness/reg"
	"verifharness/spec"
)

// Custom kinds. The type parameter only serves to obtain many distinct named
// types (a registration cannot be undone, so histories that start from the
// unregistered state each need a type nobody has registered yet).
type MyInt[Tag any] int64
type Money[Tag any] struct {
	Units int64
	Cents int32
}
type Tags[Tag any] []string
type MyStr[Tag any] string

// control look-alikes that are never registered (package twin declares REGISTERED types with the same
// reflect.Type.String())
type OtherInt int64
type OtherStruct struct {
	Units int64
	Cents int32
}
type OtherTags []string
type OtherStr string

type moneyRaw struct {
	Units int64
	Cents int32
}

const (
	kInt = iota
	kMoney
	kTags
	kStr
)

var kindNames = []string{"named-int64", "struct", "named-slice", "named-string"}

// ---- instrumented custom codec

type counters struct{ read, write, skip, omit, newc, built int }

var count [3]counters // index: builder id (1,2); 0 unused

type customCodec struct {
	builder int
	kind    int
	typ     reflect.Type
	asLong  bool
	omit    bool
	str     avro.StringCodec
	lng     avro.Int64Codec
}

func render(kind int, builder int, p unsafe.Pointer) string {
	prefix := ""
	if builder == 2 {
		prefix = "#"
	}
	switch kind {
	case kInt:
		return prefix + strconv.FormatInt(*(*int64)(p), 10)
	case kMoney:
		m := (*moneyRaw)(p)
		return fmt.Sprintf("%s%d.%d", prefix, m.Units, m.Cents)
	case kStr:
		return prefix + "tag:" + *(*string)(p)
	default:
		return prefix + strings.Join(*(*[]string)(p), ",")
	}
}

func parse(kind int, builder int, s string, p unsafe.Pointer) error {
	if builder == 2 {
		if !strings.HasPrefix(s, "#") {
			return fmt.Errorf("builder 2 codec got data without its marker: %q", s)
		}
		s = s[1:]
	} else if strings.HasPrefix(s, "#") {
		return fmt.Errorf("builder 1 codec got data with builder 2's marker: %q", s)
	}
	switch kind {
	case kInt:
		v, err := strconv.ParseInt(s, 10, 64)
		*(*int64)(p) = v
		return err
	case kMoney:
		m := (*moneyRaw)(p)
		a, b, _ := strings.Cut(s, ".")
		u, err := strconv.ParseInt(a, 10, 64)
		if err != nil {
			return err
		}
		c, err := strconv.ParseInt(b, 10, 32)
		m.Units, m.Cents = u, int32(c)
		return err
	case kStr:
		if !strings.HasPrefix(s, "tag:") {
			return fmt.Errorf("named-string codec got data it did not write: %q", s)
		}
		*(*string)(p) = s[4:]
		return nil
	default:
		if s == "" {
			*(*[]string)(p) = nil
			return nil
		}
		*(*[]string)(p) = strings.Split(s, ",")
		return nil
	}
}

func (c *customCodec) Read(r *avro.ReadBuf, p unsafe.Pointer) error {
	count[c.builder].read++
	if c.asLong {
		return c.lng.Read(r, p)
	}
	var s string
	if err := c.str.Read(r, unsafe.Pointer(&s)); err != nil {
		return err
	}
	return parse(c.kind, c.builder, s, p)
}

func (c *customCodec) Skip(r *avro.ReadBuf) error {
	count[c.builder].skip++
	if c.asLong {
		return c.lng.Skip(r)
	}
	return c.str.Skip(r)
}

func (c *customCodec) New(r *avro.ReadBuf) unsafe.Pointer {
	count[c.builder].newc++
	return r.Alloc(c.typ)
}

func (c *customCodec) Omit(p unsafe.Pointer) bool {
	count[c.builder].omit++
	if !c.omit {
		return false
	}
	switch c.kind {
	case kInt:
		return *(*int64)(p) == 0
	case kMoney:
		return *(*moneyRaw)(p) == moneyRaw{}
	case kStr:
		return *(*string)(p) == ""
	default:
		return len(*(*[]string)(p)) == 0
	}
}

func (c *customCodec) Write(w *avro.WriteBuf, p unsafe.Pointer) {
	count[c.builder].write++
	if c.asLong {
		c.lng.Write(w, p)
		return
	}
	s := render(c.kind, c.builder, p)
	c.str.Write(w, unsafe.Pointer(&s))
}

func builderFor(id, kind int) avro.CodecBuildFunc {
	return func(schema avro.Schema, typ reflect.Type, omit bool) (avro.Codec, error) {
		count[id].built++
		switch {
		case schema.Type == "string":
			return &customCodec{builder: id, kind: kind, typ: typ, omit: omit}, nil
		case schema.Type == "long" && kind == kInt:
			return &customCodec{builder: id, kind: kind, typ: typ, omit: omit, asLong: true}, nil
		}
		return nil, fmt.Errorf("custom builder %d: no codec for schema type %q", id, schema.Type)
	}
}

var schemaDocs = []string{"", `"string"`, `{"type":"string","logicalType":"custom-2"}`, `["string","null"]`}

func schemaByID(id int) (avro.Schema, *ref.Schema) {
	s, err := avro.SchemaFromString(schemaDocs[id])
	if err != nil {
		panic(err)
	}
	r, _ := ref.ParseSchema([]byte(schemaDocs[id]))
	return s, r
}

// ---- model

type state struct{ builder, schema int }

var model = map[reflect.Type]*state{}

func st(t reflect.Type) *state {
	s, ok := model[t]
	if !ok {
		s = &state{}
		model[t] = s
	}
	return s
}

// ops: 0 Register(f1) 1 Register(f2) 2 RegisterSchema(s1) 3 RegisterSchema(s2) 4 RegisterSchema(s3 = union with null second)
var opNames = []string{"Register(f1)", "Register(f2)", "RegisterSchema(s1)", "RegisterSchema(s2)", "RegisterSchema(s3=[string,null])"}

func apply(op int, t reflect.Type, kind int) {
	s := st(t)
	switch op {
	case 0, 1:
		avro.Register(t, builderFor(op+1, kind))
		s.builder = op + 1
	case 2, 3, 4:
		sc, _ := schemaByID(op - 1)
		avro.RegisterSchema(t, sc)
		s.schema = op - 1
	}
}

// ---- positions

type position struct {
	name string
	wrap func(t reflect.Type) (reflect.Type, string) // field type and tag
}

func positions() []position {
	str := reflect.TypeOf("")
	plain := `json:"f"`
	return []position{
		{"field", func(t reflect.Type) (reflect.Type, string) { return t, plain }},
		{"*T", func(t reflect.Type) (reflect.Type, string) { return reflect.PointerTo(t), plain }},
		{"**T", func(t reflect.Type) (reflect.Type, string) { return reflect.PointerTo(reflect.PointerTo(t)), plain }},
		{"[]T", func(t reflect.Type) (reflect.Type, string) { return reflect.SliceOf(t), plain }},
		{"[]*T", func(t reflect.Type) (reflect.Type, string) { return reflect.SliceOf(reflect.PointerTo(t)), plain }},
		{"map[string]T", func(t reflect.Type) (reflect.Type, string) { return reflect.MapOf(str, t), plain }},
		{"map[string]*T", func(t reflect.Type) (reflect.Type, string) { return reflect.MapOf(str, reflect.PointerTo(t)), plain }},
		{"omitempty", func(t reflect.Type) (reflect.Type, string) { return t, `json:"f,omitempty"` }},
		{"struct{X T}", func(t reflect.Type) (reflect.Type, string) {
			return reflect.StructOf([]reflect.StructField{{Name: "X", Type: t, Tag: `json:"x"`}}), plain
		}},
		{"[]struct{X T}", func(t reflect.Type) (reflect.Type, string) {
			return reflect.SliceOf(reflect.StructOf([]reflect.StructField{{Name: "X", Type: t, Tag: `json:"x"`}})), plain
		}},
		{"map[string][]T", func(t reflect.Type) (reflect.Type, string) { return reflect.MapOf(str, reflect.SliceOf(t)), plain }},
	}
}

// values of the custom kinds (as the underlying representation, converted)
func valuesOf(t reflect.Type, kind int) []reflect.Value {
	mk := func(xs ...interface{}) []reflect.Value {
		var out []reflect.Value
		for _, x := range xs {
			out = append(out, reflect.ValueOf(x).Convert(t))
		}
		return out
	}
	switch kind {
	case kInt:
		return mk(int64(0), int64(42), int64(-9000000000))
	case kMoney:
		return mk(moneyRaw{}, moneyRaw{12, 34}, moneyRaw{-7, 0})
	case kStr:
		return mk("", "b", "héllo wörld")
	default:
		return mk([]string(nil), []string{"a"}, []string{"x", "yy", "z"})
	}
}

// fill builds values of the position's field type containing the custom values; returns the
// values and, for each, the number of occurrences of T that must be written (non-null ones).
func fieldValues(ft reflect.Type, t reflect.Type, kind int) []reflect.Value {
	tv := valuesOf(t, kind)
	var build func(ft reflect.Type, k int) reflect.Value
	build = func(ft reflect.Type, k int) reflect.Value {
		if ft == t {
			return tv[k%len(tv)]
		}
		switch ft.Kind() {
		case reflect.Ptr:
			p := reflect.New(ft.Elem())
			p.Elem().Set(build(ft.Elem(), k))
			return p
		case reflect.Slice:
			s := reflect.MakeSlice(ft, 0, 3)
			for i := 0; i < 1+k%3; i++ {
				s = reflect.Append(s, build(ft.Elem(), k+i+1))
			}
			return s
		case reflect.Map:
			m := reflect.MakeMap(ft)
			for i := 0; i < 1+k%2; i++ {
				m.SetMapIndex(reflect.ValueOf(fmt.Sprintf("k%d", i)), build(ft.Elem(), k+i+1))
			}
			return m
		case reflect.Struct:
			s := reflect.New(ft).Elem()
			s.Field(0).Set(build(ft.Field(0).Type, k))
			return s
		}
		return reflect.Zero(ft)
	}
	out := []reflect.Value{reflect.Zero(ft)}
	for k := 0; k < 3; k++ {
		out = append(out, build(ft, k))
	}
	return out
}

// occurrences counts the values of type t reachable in v (through non-nil pointers).
func occurrences(v reflect.Value, t reflect.Type) int {
	if v.Type() == t {
		return 1
	}
	n := 0
	switch v.Kind() {
	case reflect.Ptr:
		if !v.IsNil() {
			n += occurrences(v.Elem(), t)
		}
	case reflect.Slice:
		for i := 0; i < v.Len(); i++ {
			n += occurrences(v.Index(i), t)
		}
	case reflect.Map:
		for _, k := range v.MapKeys() {
			n += occurrences(v.MapIndex(k), t)
		}
	case reflect.Struct:
		for i := 0; i < v.NumField(); i++ {
			n += occurrences(v.Field(i), t)
		}
	}
	return n
}

func kindSchema(kind int, t reflect.Type) *ref.Schema {
	switch kind {
	case kInt:
		return ref.Prim("long")
	case kMoney:
		s, _, _ := spec.SchemaFor(t, spec.Registry{})
		return s
	case kStr:
		return ref.Prim("string")
	default:
		return ref.Array(ref.Prim("string"))
	}
}

// use exercises type t at position pos and compares with the model state.
func use(c *fw.Ctx, t reflect.Type, kind int, pos position, hist string, registered bool) {
	c.Eval(1)
	s := *st(t)
	ft, tag := pos.wrap(t)
	outer := reflect.StructOf([]reflect.StructField{{Name: "F", Type: ft, Tag: reflect.StructTag(tag)}, {Name: "Z", Type: reflect.TypeOf(int64(0)), Tag: `json:"z"`}})
	locus := kindNames[kind] + "|" + pos.name
	stateName := fmt.Sprintf("builder=%d,schema=%d", s.builder, s.schema)
	desc := fmt.Sprintf("%s at position %s after history [%s] (model state %s)", kindNames[kind], pos.name, hist, stateName)
	det := map[string]interface{}{"kind": kindNames[kind], "position": pos.name, "history": hist, "model_state": stateName}
	c.Begin(locus, desc)
	c.Nontrivial(desc + t.String())
	// (1) schema generation shows the model's current schema at T's position
	regy := spec.LibraryRegistry()
	if s.schema != 0 {
		_, rs := schemaByID(s.schema)
		regy[t] = rs
	}
	want, verdict, _ := spec.SchemaFor(outer, regy)
	item := reflect.New(outer).Elem().Interface()
	var got avro.Schema
	var err error
	if c.Guard(locus+"|schema", desc, det, func() { got, err = avro.SchemaForType(item) }) {
		return
	}
	if verdict == spec.Defined {
		if err != nil {
			c.Violation("schema-error|"+locus+"|"+stateName, fmt.Sprintf("SchemaForType failed: %v — %s", err, desc), det)
			return
		}
		if d := aschema.Diff(aschema.ToAvro(want), got); d != "" {
			c.Violation("wrong-schema|"+locus+"|"+stateName, fmt.Sprintf("SchemaForType gives %s, the model (last registration wins) says %s (difference at %s) — %s", aschema.FromAvro(got).Print(nil), want.Print(nil), d, desc), det)
			return
		}
	}
	if err != nil {
		return
	}
	// (2) codec construction: the current builder is consulted (and nothing else's)
	before := count
	var codec avro.Codec
	if c.Guard(locus+"|build", desc, det, func() { codec, err = got.Codec(item) }) {
		return
	}
	other := 3 - s.builder
	if s.builder == 0 {
		if count != before {
			c.Violation("unregistered-type-reached-a-custom-builder|"+locus, fmt.Sprintf("a custom builder was invoked for a type without a registration — %s", desc), det)
			return
		}
	} else {
		if count[other].built != before[other].built {
			c.Violation("superseded-builder-used|"+locus+"|"+stateName, fmt.Sprintf("builder %d was invoked although builder %d was registered last — %s", other, s.builder, desc), det)
			return
		}
		if count[s.builder].built == before[s.builder].built {
			c.Violation("registered-builder-not-used|"+locus+"|"+stateName, fmt.Sprintf("the registered builder %d was not consulted — %s", s.builder, desc), det)
			return
		}
	}
	// what must the build outcome be?
	tSchema := kindSchema(kind, t)
	if s.schema != 0 {
		_, tSchema = schemaByID(s.schema)
	}
	if tSchema.Type == "union" {
		// the builder / kind rules see the non-null branch
		for _, b := range tSchema.Branches {
			if b.Type != "null" {
				tSchema = b
			}
		}
	}
	mustBuild := false
	switch {
	case s.builder != 0:
		mustBuild = tSchema.Type == "string" || (tSchema.Type == "long" && kind == kInt)
	default:
		// no builder: the built-in kind rules apply to whatever schema is shown; a string schema suits a string kind
		mustBuild = s.schema == 0 || kind == kStr
	}
	if !mustBuild {
		if err == nil {
			c.Violation("codec-built-for-mismatched-registration|"+locus+"|"+stateName, fmt.Sprintf("a codec was built although neither a builder nor the kind rules cover schema %s for this type — %s", tSchema.Print(nil), desc), det)
		}
		return
	}
	if err != nil {
		c.Violation("build-error|"+locus+"|"+stateName, fmt.Sprintf("Schema.Codec failed: %v — %s", err, desc), det)
		return
	}
	// (3) values round-trip through the custom codec, at codec level and at file level
	gs := aschema.FromAvro(got)
	for vi, fv := range fieldValues(ft, t, kind) {
		v := reflect.New(outer).Elem()
		v.Field(0).Set(fv)
		v.Field(1).SetInt(0x5EED)
		occ := occurrences(fv, t)
		vdesc := fmt.Sprintf("%s value %s", desc, clip(gv.Show(fv)))
		before = count
		var out []byte
		if c.Guard(locus+"|write", vdesc, det, func() {
			w := avro.NewWriteBuf(nil)
			codec.Write(w, unsafe.Pointer(v.UnsafeAddr()))
			out = w.Bytes()
		}) {
			continue
		}
		custom := s.builder != 0
		if custom {
			omitted := 0
			if pos.name == "omitempty" && isZeroCustom(fv, kind) {
				omitted = 1
			}
			if count[other] != before[other] {
				c.Violation("superseded-codec-used|"+locus+"|"+stateName, fmt.Sprintf("the codec of builder %d ran although builder %d was registered last — %s", other, s.builder, vdesc), det)
				continue
			}
			if count[s.builder].write-before[s.builder].write != occ-omitted {
				c.Violation("custom-codec-write-count|"+locus+"|"+stateName, fmt.Sprintf("%d occurrences of the type were written but the custom codec's Write ran %d times — %s", occ-omitted, count[s.builder].write-before[s.builder].write, vdesc), det)
				continue
			}
		} else if count != before {
			c.Violation("unregistered-type-reached-a-custom-codec|"+locus, vdesc, det)
			continue
		}
		if _, used, derr := ref.Decode(gs, out); derr != nil || used != len(out) {
			c.Violation("invalid-encoding|"+locus+"|"+stateName, fmt.Sprintf("bytes %x are not an encoding under the generated schema %s (used %d, err %v) — %s", out, gs.Print(nil), used, derr, vdesc), det)
			continue
		}
		back := reflect.New(outer).Elem()
		var rerr error
		before = count
		if c.Guard(locus+"|read", vdesc, det, func() { rerr = codec.Read(avro.NewReadBuf(out), unsafe.Pointer(back.UnsafeAddr())) }) {
			continue
		}
		if rerr != nil {
			c.Violation("read-error|"+locus+"|"+stateName, fmt.Sprintf("Read failed: %v — %s", rerr, vdesc), det)
			continue
		}
		if custom && count[other] != before[other] {
			c.Violation("superseded-codec-used|"+locus+"|"+stateName, vdesc, det)
			continue
		}
		if d := gv.Equal(normalise(v, pos, kind), normalise(back, pos, kind)); d != "" {
			c.Violation("round-trip|"+locus+"|"+stateName, fmt.Sprintf("read back %s, wrote %s (difference at %s) — %s", clip(gv.Show(back.Field(0))), clip(gv.Show(fv)), d, vdesc), det)
			continue
		}
		// file level on one value per position
		if vi == 2 {
			var buf bytes.Buffer
			var ferr error
			if c.Guard(locus+"|file", vdesc, det, func() {
				e, err := dynenc.New(outer, &buf, "deflate", 0)
				if err != nil {
					ferr = err
					return
				}
				e.Encode(unsafe.Pointer(v.UnsafeAddr()))
				e.Encode(unsafe.Pointer(v.UnsafeAddr()))
				ferr = e.Flush()
			}) {
				continue
			}
			if ferr != nil {
				c.Violation("file-encode-error|"+locus+"|"+stateName, ferr.Error()+" — "+vdesc, det)
				continue
			}
			res := filedrv.Read(buf.Bytes(), filedrv.ModeOneByte, outer, false, -1, nil)
			if res.Panic != nil || res.Err != nil || len(res.Records) != 2 {
				c.Violation("file-read|"+locus+"|"+stateName, fmt.Sprintf("ReadFile: %s — %s", res, vdesc), det)
				continue
			}
			if d := gv.Equal(normalise(v, pos, kind), normalise(res.Records[1], pos, kind)); d != "" {
				c.Violation("round-trip|"+locus+"|"+stateName, fmt.Sprintf("file round trip differs at %s — %s", d, vdesc), det)
			}
		}
	}
	_ = registered
}

func isZeroCustom(v reflect.Value, kind int) bool {
	if kind == kStr {
		return v.Len() == 0
	}
	if kind == kTags {
		return v.Len() == 0
	}
	return v.IsZero()
}

// normalise removes differences the schema cannot carry: **T with a nil inner pointer reads back
// as a nil outer pointer (recorded known finding of C01), nil vs empty collections.
func normalise(v reflect.Value, pos position, kind int) reflect.Value {
	out := gv.DeepCopy(v)
	if pos.name == "**T" {
		f := out.Field(0)
		if !f.IsNil() && f.Elem().IsNil() {
			f.Set(reflect.Zero(f.Type()))
		}
	}
	return out
}

func clip(s string) string {
	if len(s) > 160 {
		return s[:160] + "…"
	}
	return s
}

// ---- exploration

type task struct {
	name string
	run  func(c *fw.Ctx)
}

func kindTypes(kind int) []reflect.Type {
	switch kind {
	case kInt:
		return freshMyInt
	case kMoney:
		return freshMoney
	case kStr:
		return freshMyStr
	}
	return freshTags
}

func seqs(alpha []int, maxLen int) [][]int {
	out := [][]int{{}}
	frontier := [][]int{{}}
	for l := 1; l <= maxLen; l++ {
		var next [][]int
		for _, f := range frontier {
			for _, a := range alpha {
				n := append(append([]int(nil), f...), a)
				next = append(next, n)
				out = append(out, n)
			}
		}
		frontier = next
	}
	return out
}

func histString(h []int) string {
	var ps []string
	for _, op := range h {
		ps = append(ps, opNames[op])
	}
	return strings.Join(ps, " ")
}

func runKind(c *fw.Ctx, kind int, depth int) {
	types := kindTypes(kind)
	next := 0
	fresh := func() reflect.Type {
		if next >= len(types) {
			panic("out of fresh types")
		}
		t := types[next]
		next++
		return t
	}
	pos := positions()
	states := map[state]bool{}
	transitions := 0
	traces := 0
	visit := func(t reflect.Type) { states[*st(t)] = true }
	// (a) histories from the unregistered state: builder-only and schema-only prefixes (length<=3) need a fresh type each
	for _, alpha := range [][]int{{0, 1}, {2, 3, 4}} {
		for _, h := range seqs(alpha, 3) {
			if len(h) == 0 && alpha[0] == 2 {
				continue
			}
			if alpha[0] == 2 && len(h) == 3 && h[0] != 4 && h[1] != 4 && h[2] != 4 {
				continue // the fresh-type budget: length-3 schema-only histories only when they involve s3
			}
			t := fresh()
			visit(t)
			for _, p := range pos {
				use(c, t, kind, p, "", false)
			}
			for i, op := range h {
				apply(op, t, kind)
				transitions++
				visit(t)
				for _, p := range pos {
					use(c, t, kind, p, histString(h[:i+1]), true)
				}
			}
			traces++
		}
	}
	// (b) every history of length <= depth over all four registration operations, on one type whose state is carried over
	t := fresh()
	for _, h := range seqs([]int{0, 1, 2, 3, 4}, depth) {
		for i, op := range h {
			apply(op, t, kind)
			transitions++
			visit(t)
			// after the last operation every position; earlier ones a rotating position
			if i == len(h)-1 {
				for _, p := range pos {
					use(c, t, kind, p, "… "+histString(h), true)
				}
			} else {
				use(c, t, kind, pos[(i+len(h))%len(pos)], "… "+histString(h[:i+1]), true)
			}
		}
		traces++
	}
	c.Count("states", int64(len(states)))
	c.Count("transitions", int64(transitions))
	c.Count("traces_validated_against_impl", int64(traces))
	c.Sample(map[string]interface{}{"custom_kind": kindNames[kind], "model_states_visited": len(states), "registration_transitions": transitions, "histories": traces, "positions": len(pos), "example_history": histString([]int{0, 2, 1, 3})})
}

func runControls(c *fw.Ctx) {
	// unregistered look-alikes and the library's own registrations in every position
	ctl := []struct {
		t    reflect.Type
		kind int
		name string
	}{{reflect.TypeOf(OtherInt(0)), kInt, "OtherInt"}, {reflect.TypeOf(OtherStruct{}), kMoney, "OtherStruct"}, {reflect.TypeOf(OtherTags(nil)), kTags, "OtherTags"}, {reflect.TypeOf(OtherStr("")), kStr, "OtherStr"}}
	for _, x := range ctl {
		for _, p := range positions() {
			use(c, x.t, x.kind, p, "control: never registered", false)
		}
	}
	// library registrations: time.Time and null.* at every position: schema per the library's registry, values round-trip
	for _, lt := range []reflect.Type{gv.TimeT, gv.NullIntT, gv.NullBoolT, gv.NullFloatT, gv.NullStringT, gv.NullTimeT} {
		for _, p := range positions() {
			c.Eval(1)
			ft, tag := p.wrap(lt)
			outer := reflect.StructOf([]reflect.StructField{{Name: "F", Type: ft, Tag: reflect.StructTag(tag)}})
			locus := lt.String() + "|" + p.name
			desc := "library-registered " + lt.String() + " at position " + p.name
			c.Nontrivial(desc)
			want, verdict, _ := spec.SchemaFor(outer, spec.LibraryRegistry())
			var got avro.Schema
			var err error
			if c.Guard(locus, desc, desc, func() { got, err = avro.SchemaForType(reflect.New(outer).Elem().Interface()) }) {
				continue
			}
			if verdict != spec.Defined || err != nil {
				c.Violation("schema-error|"+locus, fmt.Sprintf("%v — %s", err, desc), desc)
				continue
			}
			if d := aschema.Diff(aschema.ToAvro(want), got); d != "" {
				c.Violation("wrong-schema|"+locus, fmt.Sprintf("SchemaForType gives %s, the registered schema implies %s — %s", aschema.FromAvro(got).Print(nil), want.Print(nil), desc), desc)
				continue
			}
			// round trip at file level
			var buf bytes.Buffer
			vals := libValues(ft, lt)
			var ferr error
			if c.Guard(locus+"|file", desc, desc, func() {
				e, err := dynenc.New(outer, &buf, "null", 1)
				if err != nil {
					ferr = err
					return
				}
				for _, fv := range vals {
					v := reflect.New(outer).Elem()
					v.Field(0).Set(fv)
					e.Encode(unsafe.Pointer(v.UnsafeAddr()))
				}
				ferr = e.Flush()
			}) {
				continue
			}
			if ferr != nil {
				c.Violation("file-encode-error|"+locus, ferr.Error()+" — "+desc, desc)
				continue
			}
			res := filedrv.Read(buf.Bytes(), 0, outer, false, -1, nil)
			if res.Panic != nil || res.Err != nil || len(res.Records) != len(vals) {
				c.Violation("file-read|"+locus, fmt.Sprintf("ReadFile: %s — %s", res, desc), desc)
				continue
			}
			for i, fv := range vals {
				if containsPtrToInvalidOrNilInner(fv) {
					continue // recorded known findings of C01
				}
				if d := gv.Equal(fv, res.Records[i].Field(0)); d != "" {
					c.Violation("round-trip|"+locus, fmt.Sprintf("read back %s, wrote %s (difference at %s) — %s", clip(gv.Show(res.Records[i].Field(0))), clip(gv.Show(fv)), d, desc), desc)
					break
				}
			}
		}
	}
}

// runSiblings: the library-registered types in SEVERAL positions of one record at once (two pointer fields, a
// map and a slice next to a plain field), so that the values the codec allocates for one field sit next to the
// values it allocates for the others; every combination of the leaf values for the two pointers.
func runSiblings(c *fw.Ctx) {
	for _, lt := range []reflect.Type{gv.TimeT, gv.NullIntT, gv.NullBoolT, gv.NullFloatT, gv.NullStringT, gv.NullTimeT} {
		pt := reflect.PointerTo(lt)
		outer := reflect.StructOf([]reflect.StructField{
			{Name: "F", Type: pt, Tag: `json:"f"`}, {Name: "G", Type: pt, Tag: `json:"g"`},
			{Name: "M", Type: reflect.MapOf(reflect.TypeOf(""), lt), Tag: `json:"m"`}, {Name: "L", Type: reflect.SliceOf(pt), Tag: `json:"l"`},
			{Name: "D", Type: lt, Tag: `json:"d"`}})
		locus := lt.String() + "|siblings"
		pv := libValues(pt, lt)
		mv := libValues(outer.Field(2).Type, lt)
		lv := libValues(outer.Field(3).Type, lt)
		dv := libValues(lt, lt)
		var vals []reflect.Value
		for i, f := range pv {
			for j, g := range pv {
				v := reflect.New(outer).Elem()
				v.Field(0).Set(f)
				v.Field(1).Set(g)
				v.Field(2).Set(mv[(i+j)%len(mv)])
				v.Field(3).Set(lv[(i+2*j)%len(lv)])
				v.Field(4).Set(dv[(2*i+j)%len(dv)])
				vals = append(vals, v)
			}
		}
		desc := "library-registered " + lt.String() + " as two pointer fields, map values, slice of pointers and a plain field of one record"
		c.Eval(int64(len(vals)))
		c.Nontrivial(desc)
		c.Begin(locus, desc)
		var buf bytes.Buffer
		var ferr error
		if c.Guard(locus+"|file", desc, desc, func() {
			e, err := dynenc.New(outer, &buf, "null", 64)
			if err != nil {
				ferr = err
				return
			}
			for _, v := range vals {
				e.Encode(unsafe.Pointer(v.UnsafeAddr()))
			}
			ferr = e.Flush()
		}) {
			continue
		}
		if ferr != nil {
			c.Violation("file-encode-error|"+locus, ferr.Error()+" — "+desc, desc)
			continue
		}
		res := filedrv.Read(buf.Bytes(), 0, outer, false, -1, nil)
		if res.Panic != nil || res.Err != nil || len(res.Records) != len(vals) {
			c.Violation("file-read|"+locus, fmt.Sprintf("ReadFile: %s — %s", res, desc), desc)
			continue
		}
		for i, v := range vals {
			if containsPtrToInvalidOrNilInner(v) {
				continue // recorded known findings of C01
			}
			if d := gv.Equal(v, res.Records[i]); d != "" {
				c.Violation("round-trip|"+locus, fmt.Sprintf("record %d read back %s, wrote %s (difference at %s) — %s", i, clip(gv.Show(res.Records[i])), clip(gv.Show(v)), d, desc), desc)
				break
			}
		}
	}
}

// runPerFieldSchemas: the builder registered for a type is consulted for EVERY field of that type with THAT field's
// schema: one record with three time.Time fields carried as timestamp-millis, timestamp-micros and plain long
// (nanoseconds), and their nullable forms, must write and read each field in its own unit.
func runPerFieldSchemas(c *fw.Ctx) {
	type TT3 struct {
		A  time.Time  `json:"a"`
		B  time.Time  `json:"b"`
		C  time.Time  `json:"c"`
		D  time.Time  `json:"d"`
		PA *time.Time `json:"pa"`
		PB *time.Time `json:"pb"`
	}
	units := []struct {
		name, schema string
		toInt        func(time.Time) int64
	}{
		{"timestamp-millis", `{"type":"long","logicalType":"timestamp-millis"}`, func(t time.Time) int64 { return t.UnixMilli() }},
		{"timestamp-micros", `{"type":"long","logicalType":"timestamp-micros"}`, func(t time.Time) int64 { return t.UnixMicro() }},
		{"long", `"long"`, func(t time.Time) int64 { return t.UnixNano() }},
		{"date", `{"type":"int","logicalType":"date"}`, func(t time.Time) int64 { return t.Unix() / 86400 }},
	}
	tm := time.Date(2021, 3, 4, 0, 0, 0, 0, time.UTC) // a whole day, so that every unit carries it exactly
	n := 0
	for _, perm := range [][]int{{0, 1, 2, 3}, {1, 0, 3, 2}, {2, 3, 0, 1}, {3, 2, 1, 0}, {0, 0, 1, 1}, {2, 1, 1, 2}} {
		n++
		c.Eval(1)
		names := []string{"a", "b", "c", "d"}
		doc := `{"type":"record","name":"tt3","fields":[`
		for i, u := range perm {
			doc += fmt.Sprintf(`{"name":"%s","type":%s},`, names[i], units[u].schema)
		}
		doc += fmt.Sprintf(`{"name":"pa","type":["null",%s]},{"name":"pb","type":[%s,"null"]}]}`, units[perm[1]].schema, units[perm[0]].schema)
		desc := "time.Time fields of one record under per-field schemas " + fmt.Sprint(perm) + " (0 millis, 1 micros, 2 nanos, 3 date)"
		locus := "time.Time|per-field-schema"
		c.Nontrivial(desc)
		c.Begin(locus, desc)
		c.Guard(locus, desc, doc, func() {
			s, err := avro.SchemaFromString(doc)
			if err != nil {
				c.HarnessError(err.Error())
				return
			}
			codec, err := s.Codec(TT3{})
			if err != nil {
				c.Violation("codec-refused|"+locus, fmt.Sprintf("%v — %s", err, desc), doc)
				return
			}
			v := TT3{A: tm, B: tm, C: tm, D: tm, PA: &tm, PB: &tm}
			w := avro.NewWriteBuf(nil)
			codec.Write(w, unsafe.Pointer(&v))
			var want []byte
			for _, u := range perm {
				want = ref.AppendLong(want, units[u].toInt(tm))
			}
			want = ref.AppendLong(ref.AppendLong(want, 1), units[perm[1]].toInt(tm))
			want = ref.AppendLong(ref.AppendLong(want, 0), units[perm[0]].toInt(tm))
			if string(w.Bytes()) != string(want) {
				c.Violation("registered-codec-not-per-field|"+locus, fmt.Sprintf("written %x, each field in its own unit is %x — %s", w.Bytes(), want, desc), doc)
				return
			}
			var back TT3
			if err := codec.Read(avro.NewReadBuf(want), unsafe.Pointer(&back)); err != nil || !back.A.Equal(tm) || !back.B.Equal(tm) || !back.C.Equal(tm) || !back.D.Equal(tm) || back.PA == nil || !back.PA.Equal(tm) || back.PB == nil || !back.PB.Equal(tm) {
				c.Violation("registered-codec-not-per-field|"+locus, fmt.Sprintf("read back %+v err=%v, every field should be %s — %s", back, err, tm, desc), doc)
			}
		})
	}
	c.Count("states", int64(n))
	c.Count("transitions", int64(n))
}

// RootReg is a struct type with a REGISTERED schema (no custom codec) that is used as the root type of an encoder:
// the registration governs the type "everywhere", the top of NewEncoderFor[T] included.
type RootReg struct {
	A int64  `json:"a"`
	B string `json:"b"`
}

func runRootRegistered(c *fw.Ctx) {
	const doc = `{"type":"record","name":"custom_root","namespace":"reg.istered","fields":[{"name":"b","type":"string"},{"name":"a","type":{"type":"long","logicalType":"app-thing"}}]}`
	s, err := avro.SchemaFromString(doc)
	if err != nil {
		c.HarnessError(err.Error())
		return
	}
	avro.RegisterSchema(reflect.TypeOf(RootReg{}), s)
	want, _ := ref.ParseSchema([]byte(doc))
	locus := "registered-struct|root-of-encoder"
	for _, comp := range []string{"null", "deflate", "snappy"} {
		c.Eval(1)
		desc := "NewEncoderFor[RootReg] (" + comp + ") where RootReg has a registered record schema with its own name and field order"
		c.Nontrivial(desc)
		c.Begin(locus, desc)
		c.Guard(locus, desc, desc, func() {
			var buf bytes.Buffer
			e, err := avro.NewEncoderFor[RootReg](&buf, avro.Compression(comp), 0)
			if err != nil {
				c.Violation("encoder-error|"+locus, fmt.Sprintf("%v — %s", err, desc), desc)
				return
			}
			rows := []RootReg{{A: 7, B: "seven"}, {A: -1, B: ""}}
			for i := range rows {
				if err := e.Encode(&rows[i]); err != nil {
					c.Violation("encoder-error|"+locus, fmt.Sprintf("%v — %s", err, desc), desc)
					return
				}
			}
			e.Flush()
			p, err := ref.ParseFile(buf.Bytes())
			if err != nil {
				c.Violation("not-a-container|"+locus, fmt.Sprintf("%v — %s", err, desc), desc)
				return
			}
			hs, err := ref.ParseSchema(p.Meta["avro.schema"])
			if err != nil || !hs.Equal(want) {
				c.Violation("superseded-registration-still-in-force|registered-struct|root-of-encoder", fmt.Sprintf("the file header carries %s, the schema registered for the type is %s — %s", p.Meta["avro.schema"], doc, desc), desc)
				return
			}
			i := 0
			for _, b := range p.Blocks {
				ds, derr := ref.DecodeAll(want, b.Payload, b.Count)
				if derr != nil {
					c.Violation("payload-not-avro|"+locus, fmt.Sprintf("%v — %s", derr, desc), desc)
					return
				}
				for _, d := range ds {
					if exp := ref.DRecord(ref.DString(rows[i].B), ref.DLong(rows[i].A)); !d.Equal(exp) {
						c.Violation("wrong-datum|"+locus, fmt.Sprintf("row %d is %s under the registered schema, written %s — %s", i, d, exp, desc), desc)
						return
					}
					i++
				}
			}
			if i != len(rows) {
				c.Violation("wrong-record-count|"+locus, fmt.Sprintf("%d rows, %d written — %s", i, len(rows), desc), desc)
			}
		})
	}
	// and the two schema-generation entry points agree with the registration
	c.Eval(1)
	got, err := avro.SchemaForType(RootReg{})
	if err != nil || !aschema.FromAvro(got).Equal(want) {
		c.Violation("wrong-schema|registered-struct|root", fmt.Sprintf("SchemaForType(RootReg{}) = %s err=%v, registered %s", aschema.FromAvro(got).Print(nil), err, doc), doc)
	}
	// the caller edits what it got back — below the first field level too — and generates again
	if got.Object != nil {
		for i := range got.Object.Fields {
			f := &got.Object.Fields[i]
			f.Name += "_edited"
			f.Type.Type = "edited-" + f.Type.Type
			if f.Type.Object != nil {
				f.Type.Object.LogicalType = "edited"
			}
			for j := range f.Type.Union {
				f.Type.Union[j].Type = "edited"
			}
		}
	}
	if again, err := avro.SchemaForType(RootReg{}); err != nil || !aschema.FromAvro(again).Equal(want) {
		c.Violation("superseded-registration-still-in-force|registered-struct|after-caller-edit", fmt.Sprintf("after the caller edited the schema it was given, SchemaForType(RootReg{}) = %s err=%v, registered %s", aschema.FromAvro(again).Print(nil), err, doc), doc)
	}
	got, err = avro.SchemaForType(struct {
		R RootReg `json:"r"`
	}{})
	if err != nil || len(got.Object.Fields) != 1 || !aschema.FromAvro(got.Object.Fields[0].Type).Equal(want) {
		c.Violation("wrong-schema|registered-struct|field", fmt.Sprintf("SchemaForType(struct{R RootReg}) field schema is not the registered one (err=%v)", err), doc)
	}
}

// runLibraryHistories: sequences over {L = avrotime.RegisterCodecs(), A = the application registers its own
// builder and schema for time.Time}; the most recent one must govern time.Time at every position.
func runLibraryHistories(c *fw.Ctx, depth int) {
	type TTs struct {
		T time.Time `json:"t"`
	}
	type NNs struct {
		N null.Int `json:"n"`
	}
	appSchema, _ := avro.SchemaFromString(`{"type":"long","logicalType":"app-epoch-seconds"}`)
	appNullSchema, _ := avro.SchemaFromString(`{"type":"long","logicalType":"app-null-int"}`)
	appBuilds := [2]int{}
	appBuilder := func(schema avro.Schema, typ reflect.Type, omit bool) (avro.Codec, error) {
		appBuilds[0]++
		return appTimeCodec{}, nil
	}
	appNullBuilder := func(schema avro.Schema, typ reflect.Type, omit bool) (avro.Codec, error) {
		appBuilds[1]++
		return appNullIntCodec{}, nil
	}
	opName := [...]string{"time.RegisterCodecs", "app-registers-time.Time", "null.RegisterCodecs", "app-registers-null.Int"}
	states, transitions := map[string]bool{}, 0
	for _, h := range seqs([]int{0, 1, 2, 3}, depth) {
		// every history starts from "the library's registrations are in force for both types"
		reg.Again()
		gov := [2]int{0, 0} // who governs time.Time / null.Int: 0 library, 1 application
		for i, op := range h {
			switch op {
			case 0:
				reg.Time()
				gov[0] = 0
			case 1:
				avro.Register(gv.TimeT, appBuilder)
				avro.RegisterSchema(gv.TimeT, appSchema)
				gov[0] = 1
			case 2:
				reg.Null()
				gov[1] = 0
			case 3:
				avro.Register(gv.NullIntT, appNullBuilder)
				avro.RegisterSchema(gv.NullIntT, appNullSchema)
				gov[1] = 1
			}
			transitions++
			hist := ""
			for _, o := range h[:i+1] {
				hist += opName[o] + " "
			}
			states[fmt.Sprint(gov)] = true
			for typ := 0; typ < 2; typ++ {
				c.Eval(1)
				tname := [...]string{"time.Time", "null.Int"}[typ]
				c.Nontrivial("libhist:" + tname + ":" + hist)
				desc := tname + " after history [" + strings.TrimSpace(hist) + "]"
				locus := tname + "|registration-history"
				c.Begin(locus, desc)
				var sch avro.Schema
				var err error
				var out []byte
				before := appBuilds[typ]
				if c.Guard(locus, desc, desc, func() {
					var probe interface{} = TTs{}
					if typ == 1 {
						probe = NNs{}
					}
					sch, err = avro.SchemaForType(probe)
					if err != nil {
						return
					}
					var codec avro.Codec
					codec, err = sch.Codec(probe)
					if err != nil {
						return
					}
					w := avro.NewWriteBuf(nil)
					if typ == 0 {
						v := TTs{T: time.Unix(1700000000, 0).UTC()}
						codec.Write(w, unsafe.Pointer(&v))
					} else {
						v := NNs{N: null.IntFrom(1700000000)}
						codec.Write(w, unsafe.Pointer(&v))
					}
					out = w.Bytes()
				}) {
					continue
				}
				if err != nil {
					c.Violation("registration-history-error|"+tname, fmt.Sprintf("%v — %s", err, desc), desc)
					continue
				}
				ft := aschema.FromAvro(sch.Object.Fields[0].Type).Print(nil)
				wantLib := [...]string{`["null","string"]`, `["null","long"]`}[typ]
				marker := [...]string{"app-epoch-seconds", "app-null-int"}[typ]
				if gov[typ] == 0 {
					// the library's registration is the most recent one for this type
					libBytes := len(out) >= 2 && out[0] == 2
					if typ == 1 {
						libBytes = string(out) == string(ref.AppendLong([]byte{2}, 1700000000))
					}
					if ft != wantLib || appBuilds[typ] != before || !libBytes {
						c.Violation("superseded-registration-still-in-force|"+tname+"|library-should-govern", fmt.Sprintf("schema %s, application builder consulted %d times, bytes %x — %s", ft, appBuilds[typ]-before, out, desc), desc)
					}
				} else {
					if !strings.Contains(ft, marker) || appBuilds[typ] == before || string(out) != string(ref.AppendLong(nil, 1700000000)) {
						c.Violation("superseded-registration-still-in-force|"+tname+"|application-should-govern", fmt.Sprintf("schema %s, application builder consulted %d times, bytes %x — %s", ft, appBuilds[typ]-before, out, desc), desc)
					}
				}
			}
		}
	}
	reg.Again()
	c.Count("states", int64(len(states)))
	c.Count("transitions", int64(transitions))
	c.Count("traces_validated_against_impl", int64(transitions))
	c.Sample(map[string]interface{}{"kind": "library (time, null packages separately) vs application registration of time.Time and null.Int", "histories_up_to_length": depth, "transitions": transitions, "model_states": len(states)})
}

type appNullIntCodec struct{ avro.Int64Codec }

func (appNullIntCodec) Read(r *avro.ReadBuf, p unsafe.Pointer) error {
	var l int64
	if err := (avro.Int64Codec{}).Read(r, unsafe.Pointer(&l)); err != nil {
		return err
	}
	*(*null.Int)(p) = null.IntFrom(l)
	return nil
}
func (appNullIntCodec) New(r *avro.ReadBuf) unsafe.Pointer { return r.Alloc(gv.NullIntT) }
func (appNullIntCodec) Omit(p unsafe.Pointer) bool         { return false }
func (appNullIntCodec) Write(w *avro.WriteBuf, p unsafe.Pointer) {
	l := (*null.Int)(p).Int64
	(avro.Int64Codec{}).Write(w, unsafe.Pointer(&l))
}

type appTimeCodec struct{ avro.Int64Codec }

func (appTimeCodec) Read(r *avro.ReadBuf, p unsafe.Pointer) error {
	var l int64
	if err := (avro.Int64Codec{}).Read(r, unsafe.Pointer(&l)); err != nil {
		return err
	}
	*(*time.Time)(p) = time.Unix(l, 0).UTC()
	return nil
}
func (appTimeCodec) New(r *avro.ReadBuf) unsafe.Pointer { return r.Alloc(gv.TimeT) }
func (appTimeCodec) Omit(p unsafe.Pointer) bool         { return false }
func (appTimeCodec) Write(w *avro.WriteBuf, p unsafe.Pointer) {
	l := (*time.Time)(p).Unix()
	(avro.Int64Codec{}).Write(w, unsafe.Pointer(&l))
}

func libValues(ft, lt reflect.Type) []reflect.Value {
	var leaf []reflect.Value
	switch lt {
	case gv.TimeT:
		leaf = []reflect.Value{reflect.ValueOf(time.Time{}), reflect.ValueOf(time.Date(2021, 3, 4, 5, 6, 7, 8, time.UTC)), reflect.ValueOf(time.Date(1969, 1, 1, 0, 0, 0, 0, time.FixedZone("", -3600)))}
	default:
		z := reflect.Zero(lt)
		v1 := reflect.New(lt).Elem()
		v1.FieldByName("Valid").SetBool(true)
		v2 := reflect.New(lt).Elem()
		v2.FieldByName("Valid").SetBool(true)
		p := gv.Payload(v2)
		switch p.Kind() {
		case reflect.Int64:
			p.SetInt(-77)
		case reflect.Bool:
			p.SetBool(true)
		case reflect.Float64:
			p.SetFloat(2.5)
		case reflect.String:
			p.SetString("héllo")
		default:
			p.Set(reflect.ValueOf(time.Date(2000, 1, 2, 3, 4, 5, 6, time.UTC)))
		}
		leaf = []reflect.Value{z, v1, v2}
	}
	var build func(ft reflect.Type, k int) reflect.Value
	build = func(ft reflect.Type, k int) reflect.Value {
		if ft == lt {
			return leaf[k%len(leaf)]
		}
		switch ft.Kind() {
		case reflect.Ptr:
			p := reflect.New(ft.Elem())
			p.Elem().Set(build(ft.Elem(), k))
			return p
		case reflect.Slice:
			s := reflect.MakeSlice(ft, 0, 3)
			for i := 0; i < 3; i++ {
				s = reflect.Append(s, build(ft.Elem(), k+i))
			}
			return s
		case reflect.Map:
			m := reflect.MakeMap(ft)
			for i := 0; i < 3; i++ {
				m.SetMapIndex(reflect.ValueOf(fmt.Sprintf("k%d", i)), build(ft.Elem(), k+i))
			}
			return m
		case reflect.Struct:
			s := reflect.New(ft).Elem()
			s.Field(0).Set(build(ft.Field(0).Type, k))
			return s
		}
		return reflect.Zero(ft)
	}
	return []reflect.Value{reflect.Zero(ft), build(ft, 0), build(ft, 1), build(ft, 2)}
}

func containsPtrToInvalidOrNilInner(v reflect.Value) bool {
	switch v.Kind() {
	case reflect.Ptr:
		if v.IsNil() {
			return false
		}
		e := v.Elem()
		if gv.IsNullWrapper(e.Type()) && !e.FieldByName("Valid").Bool() {
			return true
		}
		if e.Kind() == reflect.Ptr && e.IsNil() {
			return true
		}
		return containsPtrToInvalidOrNilInner(e)
	case reflect.Slice:
		for i := 0; i < v.Len(); i++ {
			if containsPtrToInvalidOrNilInner(v.Index(i)) {
				return true
			}
		}
	case reflect.Map:
		for _, k := range v.MapKeys() {
			if containsPtrToInvalidOrNilInner(v.MapIndex(k)) {
				return true
			}
		}
	case reflect.Struct:
		if v.Type() == gv.TimeT || gv.IsNullWrapper(v.Type()) {
			return false
		}
		for i := 0; i < v.NumField(); i++ {
			if containsPtrToInvalidOrNilInner(v.Field(i)) {
				return true
			}
		}
	}
	return false
}

func init() {
	fw.Register(&fw.Check{
		ID:    "C20",
		Level: "model_checking",
		Rule: func(tier string) string {
			d := 3
			if tier == "thorough" {
				d = 4
			}
			return fmt.Sprintf("explicit-state exploration of registration histories on the real global registries, model = (current builder ∈ {none,f1,f2}, current schema ∈ {none,s1,s2,s3=[string,null]}) with 'last registration wins', for custom types of four kinds (named int64, struct, named slice, named string) with instrumented codecs (invocation counters; builder f2 marks its wire data so the codec actually used is observable): (a) from the unregistered state every history of length<=3 over {Register(f1),Register(f2)} and over {RegisterSchema(s1),RegisterSchema(s2)}, each on a type nobody registered before (generic named types give 40 fresh types per kind); (b) every history of length<=%d over all four operations with the state carried over; after every operation the type is used at 11 positions {field,*T,**T,[]T,[]*T,map[string]T,map[string]*T,omitempty,struct{X T},[]struct{X T},map[string][]T}: SchemaForType must show the model's schema there, Schema.Codec must consult exactly the model's builder, every occurrence must go through that builder's codec (counters), bytes must decode under the generated schema with the reference decoder, values must round-trip at codec and file level; controls: never-registered look-alike types (whose namesakes — same package base name and type name, hence the same reflect.Type.String(), but different types — ARE registered with custom codecs and schemas) and the library's own time.Time / null.* registrations at the same positions; and all of them together as siblings of one record, and time.Time fields of one record under different per-field schemas (millis / micros / nanoseconds / date in six arrangements, plus both nullable forms), and a struct type with a registered record schema used as the ROOT type of NewEncoderFor[T] (header schema and row layout must be the registered ones) (two pointer fields × every pair of leaf values, map values, slice of pointers, plain field); plus every history (one level deeper) over {time.RegisterCodecs(), null.RegisterCodecs(), the application registering its own builder and schema for time.Time, the same for null.Int}, after each step of which the most recent registration FOR THAT TYPE must govern time.Time and null.Int (a registration call for other types must not touch it); distinct_nontrivial counts distinct (type, history, position) uses", d)
		},
		Assumptions: []string{
			"a registration cannot be undone, so model state is carried across histories within a worker; states with an unregistered component are only reachable on fresh types",
			"custom builders accept string schemas (and long for the named int64); for other schemas the builder returns an error and Schema.Codec must fail",
			"the two recorded C01 known findings (pointer to invalid wrapper, pointer to nil pointer) are normalised away here",
		},
		Init: func(c *fw.Ctx) {
			reg.Init()
			// namesakes of the controls (same package base name, same type name, different type) are registered
			for kind, t := range []reflect.Type{reflect.TypeOf(twin.OtherInt(0)), reflect.TypeOf(twin.OtherStruct{}), reflect.TypeOf(twin.OtherTags(nil)), reflect.TypeOf(twin.OtherStr(""))} {
				avro.Register(t, builderFor(1, kind))
				sc, _ := schemaByID(1)
				avro.RegisterSchema(t, sc)
			}
		},
		NumCases: func(tier string) int { return 6 },
		RunCase: func(c *fw.Ctx, idx int) {
			d := 3
			if c.Tier == "thorough" {
				d = 4
			}
			if idx == 5 {
				runLibraryHistories(c, d+1)
				return
			}
			if idx == 4 {
				runControls(c)
				runSiblings(c)
				runPerFieldSchemas(c)
				runRootRegistered(c)
				c.Count("states", 1)
				c.Count("transitions", 1)
				return
			}
			runKind(c, idx, d)
		},
		Budget: func(tier string) time.Duration { return 30 * time.Minute },
	})
}

// Package c20 (directory twin): types whose reflect.Type.String() is the same as that of the never-registered
// control types of the C20 check ("c20.OtherInt", ...), although they are different types. THESE are registered
// with custom codecs and schemas; the controls must not notice.
package c20

type OtherInt int64
type OtherStruct struct {
	Units int64
	Cents int32
}
type OtherTags []string
type OtherStr string

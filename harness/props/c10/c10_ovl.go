//go:build ovl

package c10

import (
	"fmt"
	"reflect"
	"runtime"
	"sort"
	"strings"
	"time"
	"unsafe"

	"github.com/philpearl/avro"
	"github.com/philpearl/avro/zzvsync"

	"verifharness/explore"
	"verifharness/filedrv"
	"verifharness/fw"
	"verifharness/gv"
	"verifharness/ref"
	"verifharness/reg"
)

// ------------------------------------------------------------------ E1: bank level

type node struct {
	P *int64
	S string
	N int64
}

var (
	i64T          = reflect.TypeOf(int64(0))
	nodeT         = reflect.TypeOf(node{})
	anchor  int64 = 0x1357
	longStr       = []byte(strings.Repeat("L", 300))
)

// op kinds
const (
	oAllocInt = iota
	oAllocNode
	oAlloc17
	oStrShort
	oStrLong
	oClose
	oExtract
	// oRecycle: the ReadBuf's current bank goes through the pool and comes back: extract it (the ReadBuf
	// takes a fresh bank), close it, extract again choosing the pooled bank, close the intermediate one.
	oRecycle
)

type op struct {
	kind int
	bank int // role: 0 = the ReadBuf's current bank, 1.. = extracted bank #k (in extraction order among open ones)
	arg  int // extract: pool answer
}

func (o op) String() string {
	b := "rb"
	if o.bank > 0 {
		b = fmt.Sprintf("e%d", o.bank-1)
	}
	switch o.kind {
	case oAllocInt:
		return "alloc(int64)@" + b
	case oAllocNode:
		return "alloc(node)@" + b
	case oAlloc17:
		return "alloc17(int64)@" + b
	case oStrShort:
		return "toString(2B)@" + b
	case oStrLong:
		return "toString(300B)@" + b
	case oClose:
		return "close(" + b + ")"
	case oRecycle:
		return "recycle(rb's bank: extract, close, re-acquire from the pool)"
	}
	return fmt.Sprintf("extract(pool answer %d)", o.arg)
}

type liveAlloc struct {
	addr    uintptr
	size    uintptr
	isNode  bool
	pattern int64
	p       unsafe.Pointer
}

type liveStr struct {
	s    string
	want string
}

// mbank is the model of one physical bank.
type mbank struct {
	id     int
	bank   *avro.ResourceBank
	open   bool
	allocs []liveAlloc
	strs   []liveStr
	nInt   int
	nNode  int
	hiInt  int
	hiNode int
	sLen   int
	hiS    int
	isRB   bool
	// trail: run-length-encoded sequence of operation kinds applied to this physical bank (runs capped at 3),
	// part of the canonical state so that states are merged only when they differ in the length of long runs
	trail []byte
}

func (b *mbank) note(kind byte) {
	n := len(b.trail)
	if n >= 3 && b.trail[n-1] == kind && b.trail[n-2] == kind && b.trail[n-3] == kind {
		return
	}
	b.trail = append(b.trail, kind)
}

type world struct {
	rb        *avro.ReadBuf
	cur       *mbank   // the ReadBuf's current bank
	extracted []*mbank // open extracted banks, extraction order
	pool      []*mbank // model of the pool content (closed banks), oldest first
	all       []*mbank
	byPtr     map[*avro.ResourceBank]*mbank
	seq       int64
	maxBanks  int
}

type e1fail struct{ sig, msg string }

func newWorld(maxBanks int) *world {
	zzvsync.ResetPools()
	w := &world{byPtr: map[*avro.ResourceBank]*mbank{}, maxBanks: maxBanks}
	w.rb = avro.NewReadBuf(nil)
	// identify the bank inside rb by extracting lazily: we learn its identity at the first extract
	w.cur = &mbank{id: 0, open: true, isRB: true}
	w.all = append(w.all, w.cur)
	return w
}

func (w *world) roleBank(role int) *mbank {
	if role == 0 {
		return w.cur
	}
	if role-1 < len(w.extracted) {
		return w.extracted[role-1]
	}
	return nil
}

func (w *world) enabled() []op {
	var ops []op
	roles := []int{0}
	for i := range w.extracted {
		roles = append(roles, i+1)
	}
	for _, r := range roles {
		for _, k := range []int{oAllocInt, oAllocNode, oAlloc17, oStrShort, oStrLong} {
			ops = append(ops, op{kind: k, bank: r})
		}
		if r > 0 {
			ops = append(ops, op{kind: oClose, bank: r})
		}
	}
	if len(w.extracted) < w.maxBanks {
		for k := 0; k <= len(w.pool) && k <= 2; k++ {
			ops = append(ops, op{kind: oExtract, arg: k})
		}
		ops = append(ops, op{kind: oRecycle})
	}
	return ops
}

func overlaps(a1, n1, a2, n2 uintptr) bool { return a1 < a2+n2 && a2 < a1+n1 }

// alloc performs one allocation on bank b (through the ReadBuf when b is its current bank).
func (w *world) alloc(b *mbank, t reflect.Type) *e1fail {
	var p unsafe.Pointer
	if b.isRB {
		p = w.rb.Alloc(t)
	} else {
		p = b.bank.Alloc(t)
	}
	size := t.Size()
	// zeroed?
	for _, x := range unsafe.Slice((*byte)(p), size) {
		if x != 0 {
			return &e1fail{"alloc-not-zeroed", fmt.Sprintf("a fresh allocation of %s holds non-zero bytes (inherits data from an earlier value)", t)}
		}
	}
	addr := uintptr(p)
	for _, mb := range w.all {
		if !mb.open {
			continue
		}
		for _, la := range mb.allocs {
			if overlaps(addr, size, la.addr, la.size) {
				return &e1fail{"alloc-overlaps-live-allocation", fmt.Sprintf("a fresh allocation of %s overlaps a live allocation of bank #%d", t, mb.id)}
			}
		}
		for _, ls := range mb.strs {
			if len(ls.s) > 0 && overlaps(addr, size, uintptr(unsafe.Pointer(unsafe.StringData(ls.s))), uintptr(len(ls.s))) {
				return &e1fail{"alloc-overlaps-live-string", fmt.Sprintf("a fresh allocation of %s overlaps a live string of bank #%d", t, mb.id)}
			}
		}
	}
	w.seq++
	la := liveAlloc{addr: addr, size: size, p: p, pattern: w.seq*0x0101010101 + 7}
	if t == nodeT {
		b.note('N')
	} else {
		b.note('I')
	}
	if t == nodeT {
		la.isNode = true
		n := (*node)(p)
		n.P, n.S, n.N = &anchor, "node-pattern", la.pattern
		b.nNode++
		if b.nNode > b.hiNode {
			b.hiNode = b.nNode
		}
	} else {
		*(*int64)(p) = la.pattern
		b.nInt++
		if b.nInt > b.hiInt {
			b.hiInt = b.nInt
		}
	}
	b.allocs = append(b.allocs, la)
	return nil
}

func (w *world) toString(b *mbank, data []byte) *e1fail {
	var s string
	if b.isRB {
		w.rb.Reset(data)
		var err error
		s, err = w.rb.NextAsString(len(data))
		if err != nil {
			return &e1fail{"nextasstring-error", err.Error()}
		}
	} else {
		s = b.bank.ToString(data)
	}
	if s != string(data) {
		return &e1fail{"string-wrong-at-creation", fmt.Sprintf("interned string is %q, expected %q", clip(s), clip(string(data)))}
	}
	if len(s) > 0 {
		sa, sn := uintptr(unsafe.Pointer(unsafe.StringData(s))), uintptr(len(s))
		for _, mb := range w.all {
			if !mb.open {
				continue
			}
			for _, ls := range mb.strs {
				if len(ls.s) > 0 && overlaps(sa, sn, uintptr(unsafe.Pointer(unsafe.StringData(ls.s))), uintptr(len(ls.s))) {
					return &e1fail{"string-overlaps-live-string", fmt.Sprintf("a fresh string overlaps a live string of bank #%d", mb.id)}
				}
			}
			for _, la := range mb.allocs {
				if overlaps(sa, sn, la.addr, la.size) {
					return &e1fail{"string-overlaps-live-allocation", fmt.Sprintf("a fresh string overlaps a live allocation of bank #%d", mb.id)}
				}
			}
		}
	}
	b.strs = append(b.strs, liveStr{s: s, want: string(data)})
	if len(data) > 100 {
		b.note('L')
	} else {
		b.note('s')
	}
	b.sLen += len(data)
	if b.sLen > b.hiS {
		b.hiS = b.sLen
	}
	return nil
}

func (w *world) apply(o op, poolAsked *int) *e1fail {
	b := w.roleBank(o.bank)
	switch o.kind {
	case oAllocInt:
		return w.alloc(b, i64T)
	case oAllocNode:
		return w.alloc(b, nodeT)
	case oAlloc17:
		for i := 0; i < 17; i++ {
			if f := w.alloc(b, i64T); f != nil {
				return f
			}
		}
	case oStrShort:
		return w.toString(b, []byte("ab"))
	case oStrLong:
		return w.toString(b, longStr)
	case oClose:
		b.bank.Close()
		b.note('C')
		b.open = false
		b.allocs, b.strs = nil, nil
		b.nInt, b.nNode, b.sLen = 0, 0, 0
		for i, e := range w.extracted {
			if e == b {
				w.extracted = append(w.extracted[:i:i], w.extracted[i+1:]...)
			}
		}
		w.pool = append(w.pool, b)
	case oRecycle:
		n := len(w.extracted)
		if f := w.apply(op{kind: oExtract, arg: 0}, poolAsked); f != nil {
			return f
		}
		if f := w.apply(op{kind: oClose, bank: n + 1}, poolAsked); f != nil {
			return f
		}
		// the bank just closed is the most recently pooled one: answer 1
		if f := w.apply(op{kind: oExtract, arg: 1}, poolAsked); f != nil {
			return f
		}
		return w.apply(op{kind: oClose, bank: n + 1}, poolAsked)
	case oExtract:
		// the pool answer for the Get inside ExtractResourceBank is scripted by the operation
		asked := 0
		zzvsync.SetPoolChooser(func(label string, n int) int {
			asked++
			if o.arg >= n {
				panic("explore: scripted pool answer out of range")
			}
			return o.arg
		})
		got := w.rb.ExtractResourceBank()
		zzvsync.SetPoolChooser(defaultChooser)
		*poolAsked += asked
		old := w.cur
		old.bank = got
		old.isRB = false
		if prev, ok := w.byPtr[got]; ok && prev != old {
			return &e1fail{"extract-returned-a-known-bank", fmt.Sprintf("ExtractResourceBank returned the bank that is also bank #%d", prev.id)}
		}
		w.byPtr[got] = old
		w.extracted = append(w.extracted, old)
		// the ReadBuf's new bank: by the model it is pool[len-arg] (most recent first) or a new one
		if o.arg == 0 {
			w.cur = &mbank{id: len(w.all), open: true, isRB: true}
			w.all = append(w.all, w.cur)
		} else {
			i := len(w.pool) - o.arg
			nb := w.pool[i]
			w.pool = append(w.pool[:i:i], w.pool[i+1:]...)
			nb.open, nb.isRB = true, true
			w.cur = nb
		}
	}
	return nil
}

var defaultChooser = func(label string, n int) int { return 0 }

// verify checks every live allocation and string of every open bank.
func (w *world) verify() *e1fail {
	for _, mb := range w.all {
		if !mb.open {
			continue
		}
		for _, la := range mb.allocs {
			if la.isNode {
				n := (*node)(la.p)
				if n.P != &anchor || n.S != "node-pattern" || n.N != la.pattern {
					return &e1fail{"live-allocation-changed", fmt.Sprintf("a live node allocation of open bank #%d no longer holds what was stored", mb.id)}
				}
			} else if *(*int64)(la.p) != la.pattern {
				return &e1fail{"live-allocation-changed", fmt.Sprintf("a live int64 allocation of open bank #%d changed from %#x to %#x", mb.id, la.pattern, *(*int64)(la.p))}
			}
		}
		for _, ls := range mb.strs {
			if ls.s != ls.want {
				return &e1fail{"live-string-changed", fmt.Sprintf("a live string of open bank #%d changed to %q", mb.id, clip(ls.s))}
			}
		}
	}
	return nil
}

func class(n int) int {
	switch {
	case n == 0:
		return 0
	case n <= 16:
		return 1
	case n <= 32:
		return 2
	}
	return 3
}

// key is the canonical state: per physical bank (role, fill level and high-water classes), pool order.
func (w *world) key() string {
	var parts []string
	role := func(mb *mbank) string {
		if mb == w.cur {
			return "rb"
		}
		for i, e := range w.extracted {
			if e == mb {
				return fmt.Sprintf("e%d", i)
			}
		}
		for i, e := range w.pool {
			if e == mb {
				return fmt.Sprintf("p%d", i)
			}
		}
		return "?"
	}
	for _, mb := range w.all {
		parts = append(parts, fmt.Sprintf("%s:%d/%d,%d/%d,%d/%d,%s", role(mb), mb.nInt, class(mb.hiInt), mb.nNode, class(mb.hiNode), mb.sLen, mb.hiS, mb.trail))
	}
	sort.Strings(parts)
	return strings.Join(parts, "|")
}

func histString(h []op) string {
	var ps []string
	for _, o := range h {
		ps = append(ps, o.String())
	}
	return strings.Join(ps, " ; ")
}

// replay executes history h on a fresh world; returns the world, or the failure at step i.
func replay(h []op, maxBanks int) (w *world, fail *e1fail, at int, pan interface{}, site string) {
	defer func() {
		if r := recover(); r != nil {
			pan, site = r, fw.PanicSite(3)
		}
	}()
	zzvsync.SetPoolChooser(defaultChooser)
	w = newWorld(maxBanks)
	asked := 0
	for i, o := range h {
		if f := w.apply(o, &asked); f != nil {
			return w, f, i, nil, ""
		}
		if f := w.verify(); f != nil {
			return w, f, i, nil, ""
		}
	}
	return w, nil, -1, nil, ""
}

func runE1(c *fw.Ctx, first op, depth, maxBanks int) {
	seen := map[string]bool{}
	type item struct{ h []op }
	start := []op{first}
	w, f, _, pan, site := replay(start, maxBanks)
	c.Count("transitions", 1)
	report := func(h []op, f *e1fail, at int, pan interface{}, site string) {
		det := map[string]interface{}{"history": histString(h)}
		if pan != nil {
			c.Violation("panic:"+fw.PanicClass(pan)+"@"+site+"|bank-ops", fmt.Sprintf("panic %v after bank operations [%s]", pan, histString(h)), det)
			return
		}
		c.Violation(f.sig+"|bank-ops|"+opKindName(h[at].kind), fmt.Sprintf("%s — at step %d of [%s]", f.msg, at, histString(h)), det)
	}
	if f != nil || pan != nil {
		report(start, f, 0, pan, site)
		return
	}
	seen[w.key()] = true
	frontier := []item{{start}}
	states, transitions := int64(1), int64(1)
	for d := 1; d < depth && len(frontier) > 0; d++ {
		var next []item
		for _, it := range frontier {
			w, _, _, _, _ := replay(it.h, maxBanks)
			ops := w.enabled()
			for _, o := range ops {
				nh := append(append([]op(nil), it.h...), o)
				c.Eval(1)
				transitions++
				c.Begin("bank-ops", histString(nh))
				w2, f, at, pan, site := replay(nh, maxBanks)
				if f != nil || pan != nil {
					report(nh, f, at, pan, site)
					continue
				}
				c.Nontrivial(histString(nh))
				k := w2.key()
				if !seen[k] {
					seen[k] = true
					states++
					next = append(next, item{nh})
				}
			}
		}
		frontier = next
	}
	c.Count("states", states)
	c.Count("transitions", transitions-1)
	c.Count("traces_validated_against_impl", transitions)
	ex := ""
	if len(frontier) > 0 {
		ex = histString(frontier[len(frontier)-1].h)
	}
	c.Sample(map[string]interface{}{"level": "bank operations", "first_op": first.String(), "states": states, "transitions": transitions, "deepest_history_example": ex})
}

func opKindName(k int) string {
	return [...]string{"alloc-int", "alloc-node", "alloc17", "string-short", "string-long", "close", "extract", "recycle"}[k]
}

func clip(s string) string {
	if len(s) > 40 {
		return s[:40] + "…"
	}
	return s
}

// ------------------------------------------------------------------ E2: file level

type Inner struct {
	V string `json:"v"`
}

type Rec struct {
	S string            `json:"s"`
	B []byte            `json:"b"`
	L []string          `json:"l"`
	M map[string]string `json:"m"`
	// map values of the same types as the pointer targets below: whatever the map codec allocates or keeps for a
	// value shares an arena with them
	MI map[string]int64 `json:"mi"`
	MN map[string]Inner `json:"mn"`
	P  *int64           `json:"p"`
	N  *Inner           `json:"n"`
	// values reachable only through pointer-sized slots of the bank
	PP **int64           `json:"pp"`
	PM *map[string]int64 `json:"pm"`
}

var recSchema = ref.Record("Rec",
	ref.F("s", ref.Prim("string")), ref.F("b", ref.Prim("bytes")), ref.F("l", ref.Array(ref.Prim("string"))), ref.F("m", ref.Map(ref.Prim("string"))),
	ref.F("mi", ref.Map(ref.Prim("long"))), ref.F("mn", ref.Map(ref.Record("InnerM", ref.F("v", ref.Prim("string"))))),
	ref.F("p", ref.Union(ref.Prim("null"), ref.Prim("long"))), ref.F("n", ref.Union(ref.Prim("null"), ref.Record("Inner", ref.F("v", ref.Prim("string"))))),
	ref.F("pp", ref.Union(ref.Prim("null"), ref.Prim("long"))), ref.F("pm", ref.Map(ref.Prim("long"))))

func recDatums(order int) []ref.Datum {
	full := func(i int) ref.Datum {
		tag := fmt.Sprintf("r%d-", i)
		return ref.DRecord(ref.DString(tag+strings.Repeat("s", 20+i)), ref.DBytes(tag+"bytes"), ref.DArray(ref.DString(tag+"l0"), ref.DString(tag+"l1-"+strings.Repeat("x", 40))),
			ref.DMap([]string{tag + "k"}, []ref.Datum{ref.DString(tag + "v")}),
			ref.DMap([]string{tag + "a", tag + "b"}, []ref.Datum{ref.DLong(int64(2000 + i)), ref.DLong(int64(3000 + i))}),
			ref.DMap([]string{tag + "n"}, []ref.Datum{ref.DRecord(ref.DString(tag + "mapped-inner"))}), ref.DUnion(1, ref.DLong(int64(1000+i))), ref.DUnion(1, ref.DRecord(ref.DString(tag+"inner"))),
			ref.DUnion(1, ref.DLong(int64(7000+i))), ref.DMap([]string{tag + "pm"}, []ref.Datum{ref.DLong(int64(8000 + i))}))
	}
	empty := ref.DRecord(ref.DString(""), ref.DBytes(""), ref.DArray(), ref.DMap(nil, nil), ref.DMap(nil, nil), ref.DMap(nil, nil), ref.DUnion(0, ref.DNull()), ref.DUnion(0, ref.DNull()), ref.DUnion(0, ref.DNull()), ref.DMap(nil, nil))
	if order == 2 {
		// the same strings again and again: the LAST string a record decodes (the nested record's) equals the FIRST
		// one the next record decodes, and keys and items repeat from record to record
		same := func(i int, rep string) ref.Datum {
			return ref.DRecord(ref.DString(rep), ref.DBytes(rep), ref.DArray(ref.DString(rep), ref.DString(rep)),
				ref.DMap([]string{rep}, []ref.Datum{ref.DString(rep)}),
				ref.DMap([]string{rep}, []ref.Datum{ref.DLong(int64(2000 + i))}),
				ref.DMap([]string{rep}, []ref.Datum{ref.DRecord(ref.DString(rep))}), ref.DUnion(1, ref.DLong(int64(1000+i))), ref.DUnion(1, ref.DRecord(ref.DString(rep))),
				ref.DUnion(1, ref.DLong(int64(7000+i))), ref.DMap([]string{rep}, []ref.Datum{ref.DLong(int64(8000 + i))}))
		}
		// two records repeating one string, then two repeating another of the same length (a recycled bank is
		// refilled with different bytes at the same offsets)
		const repA, repB = "the-same-string-in-every-record", "ANOTHER-STRING-OF-THE-SAME-SIZE"
		return []ref.Datum{same(0, repA), same(1, repA), same(2, repB), same(3, repB)}
	}
	if order == 1 {
		// the empty record second: the third record is decoded into whatever bank the first one gave back
		return []ref.Datum{full(0), empty, full(2), full(3)}
	}
	return []ref.Datum{full(0), full(1), empty, full(3)}
}

var errGiveUp = fmt.Errorf("caller gives up the read")

type retained struct {
	shallow reflect.Value // *(*Rec)(val): what an application keeps
	deep    reflect.Value
	bank    *avro.ResourceBank
	open    bool
}

func runE2(c *fw.Ctx, codec string, comp []int, mode int, poolBound int, order int, enc int, prelude bool, recycle bool) {
	ds := recDatums(order)
	sc := filedrv.SchemaCase{Name: "Rec", Schema: recSchema, Type: reflect.TypeOf(Rec{})}
	// enc: how the (reference) writer lays out arrays and maps — one plain block; size-prefixed blocks; one
	// size-prefixed block per item
	pol := []func(string, int) int{nil, filedrv.SizedBlocks, filedrv.SizedItemBlocks}[enc]
	f := filedrv.BuildEnc(sc, codec, comp, ds, [16]byte{0xde, 0xad, 0xbe, 0xef, 0x10, 0x32, 0x54, 0x76, 0x98, 0xba, 0xdc, 0xfe, 0x01, 0x23, 0x45, 0x67}, pol)
	f.Name += fmt.Sprintf("/order%d/collections-%s", order, []string{"plain", "sized-blocks", "sized-block-per-item"}[enc])
	if prelude {
		f.Name += "/after-an-abandoned-read"
	}
	if recycle {
		f.Name += "/pool-recycles-by-default"
	}
	locus := "file|" + codec
	var execs, points int64
	obs := map[string]bool{}
	violations := 0
	st := explore.RunUntil(poolBound, 150000, func(ch *explore.Chooser) {
		c.Begin(locus, f.Name)
		zzvsync.ResetPools()
		zzvsync.SetPoolChooser(func(label string, n int) int {
			a := ch.Choose(label, n)
			if recycle && n > 1 {
				// the deviation-free answer is the most recently pooled bank (what a warm sync.Pool gives); a fresh
				// bank is the first alternative
				switch a {
				case 0:
					a = 1
				case 1:
					a = 0
				}
			}
			return a
		})
		defer zzvsync.SetPoolChooser(nil)
		var kept []*retained
		var fail string
		var failSig string
		check := func(when string) {
			for i, r := range kept {
				if !r.open || fail != "" {
					continue
				}
				if d := gv.Equal(r.deep, r.shallow); d != "" {
					fail = fmt.Sprintf("record %d, whose bank is still open, changed %s (difference at %s): now %s", i, when, d, clip(gv.Show(r.shallow)))
					failSig = "retained-record-changed"
				}
			}
		}
		idx := 0
		var pan interface{}
		var site string
		var err error
		if prelude {
			// an earlier read of the same file that its callback gave up at the first record: it closed the bank it
			// was given (its to close) and returned an error. Whatever the reader does on that path, the banks
			// of the read that follows belong to one record each.
			func() {
				defer func() {
					if r := recover(); r != nil {
						pan, site = r, fw.PanicSite(3)
					}
				}()
				avro.ReadFile(&filedrv.Reader{Data: f.Data, Mode: mode}, Rec{}, func(val unsafe.Pointer, rb *avro.ResourceBank) error {
					rb.Close()
					return errGiveUp
				})
			}()
		}
		func() {
			defer func() {
				if r := recover(); r != nil {
					pan, site = r, fw.PanicSite(3)
				}
			}()
			err = avro.ReadFile(&filedrv.Reader{Data: f.Data, Mode: mode}, Rec{}, func(val unsafe.Pointer, rb *avro.ResourceBank) error {
				v := reflect.NewAt(sc.Type, val).Elem()
				// the delivered []byte is the caller's: appending to it (here: filling its spare capacity) is
				// ordinary use and must not reach anything else that is alive
				if b := (*Rec)(val).B; cap(b) > len(b) {
					ext := b[:cap(b)]
					for i := len(b); i < len(ext); i++ {
						ext[i] = 0xEE
					}
				}
				if execs%40 == 0 && idx == 2 {
					// a collection while earlier records are retained (values reachable only through the bank's
					// pointer slots must survive it); clobberfree makes a wrongly freed object visible at once
					runtime.GC()
				}
				sh := reflect.New(sc.Type).Elem()
				sh.Set(v)
				r := &retained{shallow: sh, deep: gv.DeepCopy(v), bank: rb, open: true}
				// a fresh record must not inherit anything
				if fail == "" {
					if d := gv.Equal(f.Expected[idx], r.deep); d != "" {
						fail = fmt.Sprintf("record %d delivered as %s, expected %s (difference at %s)", idx, clip(gv.Show(v)), clip(gv.Show(f.Expected[idx])), d)
						failSig = "delivered-record-wrong"
					}
				}
				kept = append(kept, r)
				check(fmt.Sprintf("by the time record %d was delivered", idx))
				// policy: 0 keep; 1 close own bank now; 2+j close the j-th still-open earlier bank
				var openEarlier []*retained
				for _, k := range kept[:len(kept)-1] {
					if k.open {
						openEarlier = append(openEarlier, k)
					}
				}
				p := ch.Choose("policy", 2+len(openEarlier))
				switch {
				case p == 1:
					r.open = false
					r.bank.Close()
				case p >= 2:
					k := openEarlier[p-2]
					k.open = false
					k.bank.Close()
				}
				idx++
				return nil
			})
		}()
		check("by the end of the read")
		// other bank users after the read: a second ReadFile whose banks are closed at once (pool answers explored)
		if pan == nil && err == nil {
			func() {
				defer func() {
					if r := recover(); r != nil {
						pan, site = r, fw.PanicSite(3)
					}
				}()
				avro.ReadFile(&filedrv.Reader{Data: f.Data, Mode: mode}, Rec{}, func(val unsafe.Pointer, rb *avro.ResourceBank) error {
					rb.Close()
					return nil
				})
			}()
			check("after a later ReadFile of another reader")
		}
		execs++
		points += int64(len(ch.Taken))
		obs[fmt.Sprint(ch.Taken)] = true
		desc := fmt.Sprintf("file %s reader %s choices %v (labels %v)", f.Name, filedrv.ModeName(mode), ch.Taken, ch.Labels)
		det := map[string]interface{}{"file": f.Name, "choices": fmt.Sprint(ch.Taken), "labels": fmt.Sprint(ch.Labels)}
		switch {
		case pan != nil:
			violations++
			c.Violation("panic:"+fw.PanicClass(pan)+"@"+site+"|"+locus, fmt.Sprintf("panic %v — %s", pan, desc), det)
		case err != nil:
			violations++
			c.Violation("read-error|"+locus, fmt.Sprintf("ReadFile failed: %v — %s", err, desc), det)
		case idx != len(ds):
			violations++
			c.Violation("wrong-record-count|"+locus, fmt.Sprintf("%d records delivered, %d in the file — %s", idx, len(ds), desc), det)
		case fail != "":
			violations++
			c.Violation(failSig+"|"+locus, fail+" — "+desc, det)
		}
	}, func(ch *explore.Chooser, i int, alt int) int {
		if ch.Labels[i] == "pool.Get" {
			return 1
		}
		return 0
	}, func() bool { return violations >= 20 || c.Expired() })
	if st.Capped {
		c.NotExhaustive(fmt.Sprintf("exploration of %s stopped after %d executions (%d violations recorded)", f.Name, st.Executions, violations))
	}
	c.Eval(execs)
	c.NontrivialN(int64(len(obs)))
	c.Count("file_executions", execs)
	c.Count("file_choice_points", points)
	c.Count("states", execs)
	c.Count("transitions", points)
	c.Count("traces_validated_against_impl", execs)
	c.Sample(map[string]interface{}{"level": "ReadFile with retention policies", "file": f.Name, "reader": filedrv.ModeName(mode), "executions": st.Executions, "pool_deviation_bound": poolBound, "max_choice_points": st.MaxDepth})
}

// ------------------------------------------------------------------ E3: what a delivered time.Time shows
//
// A decoded time.Time carries a *time.Location; everything it SHOWS (zone name and offset, String, Format) is part
// of the delivered value and must stay what it was at delivery while the bank is open — including after later
// blocks have been read into the reader's buffers.

type TRec struct {
	T time.Time  `json:"t"`
	P *time.Time `json:"p"`
}

func runE3(c *fw.Ctx, codec string, ci int) {
	reg.Init()
	rs := ref.Record("TRec", ref.F("t", ref.Prim("string")), ref.F("p", ref.Union(ref.Prim("null"), ref.Prim("string"))))
	// offsets nobody else in this process parses (the library caches one Location per offset)
	offs := []string{"+01:13", "-04:16", "+11:07", "-00:29", "+01:13"}
	var blocks []ref.Block
	var texts []string
	for i, o := range offs {
		o = o[:4] + fmt.Sprint((int(o[4]-'0')+ci)%6) + o[5:]
		txt := fmt.Sprintf("2021-03-%02dT05:06:07%s", i+1, o)
		texts = append(texts, txt)
		blocks = append(blocks, ref.Block{Count: 1, Payload: ref.Encode(rs, ref.DRecord(ref.DString(txt), ref.DUnion(1, ref.DString(txt))))})
	}
	data, _ := ref.WriteFile(ref.StdMeta(rs.Print(nil), codec, true), codec, [16]byte{3, 3, 3}, blocks)
	show := func(t time.Time) string {
		n, off := t.Zone()
		return strings.Clone(fmt.Sprintf("zone=%q/%d string=%s mst=%s", n, off, t.String(), t.Format("MST -07:00")))
	}
	locus := "time-zone|" + codec
	desc := "ReadFile of 5 one-record blocks of RFC 3339 strings with offsets " + fmt.Sprint(offs) + " into struct{T time.Time; P *time.Time}, all records kept, banks open"
	c.Eval(1)
	c.Nontrivial(desc + codec)
	c.Begin(locus, desc)
	c.Guard(locus, desc, desc, func() {
		var kept []TRec
		var shown []string
		var banks []*avro.ResourceBank
		err := avro.ReadFile(&filedrv.Reader{Data: data}, TRec{}, func(val unsafe.Pointer, rb *avro.ResourceBank) error {
			r := *(*TRec)(val)
			kept = append(kept, r)
			shown = append(shown, show(r.T)+" | "+show(*r.P))
			banks = append(banks, rb)
			return nil
		})
		if err != nil || len(kept) != len(offs) {
			c.Violation("read-error|"+locus, fmt.Sprintf("err=%v records=%d — %s", err, len(kept), desc), desc)
			return
		}
		for i, r := range kept {
			want, _ := time.Parse(time.RFC3339, texts[i])
			if now := show(r.T) + " | " + show(*r.P); now != shown[i] {
				c.Violation("retained-record-changed|"+locus, fmt.Sprintf("record %d showed %s when delivered and shows %s after the rest of the file was read — %s", i, shown[i], now, desc), desc)
				return
			}
			if _, off := r.T.Zone(); !r.T.Equal(want) || off != func() int { _, o := want.Zone(); return o }() {
				c.Violation("delivered-record-wrong|"+locus, fmt.Sprintf("record %d is %s, the file says %s — %s", i, r.T, texts[i], desc), desc)
				return
			}
		}
		runtime.KeepAlive(banks)
	})
	c.Count("states", 1)
	c.Count("transitions", int64(len(offs)))
	c.Sample(map[string]interface{}{"level": "what delivered time.Time values show", "codec": codec, "timestamps": texts})
}

type task struct {
	name string
	run  func(c *fw.Ctx)
}

var memo = map[string][]task{}

func tasks(tier string) []task {
	if t, ok := memo[tier]; ok {
		return t
	}
	depth, banks, poolBound := 6, 2, 2
	if tier == "thorough" {
		depth, banks, poolBound = 7, 3, 3
	}
	var ts []task
	zzvsync.SetPoolChooser(defaultChooser)
	w := newWorld(banks)
	for _, o := range w.enabled() {
		o := o
		ts = append(ts, task{"bank-ops first=" + o.String(), func(c *fw.Ctx) { runE1(c, o, depth, banks) }})
	}
	zzvsync.SetPoolChooser(nil)
	for _, codec := range []string{"null", "deflate", "snappy"} {
		for _, comp := range [][]int{{2, 1, 1}, {1, 1, 2}, {4}, {1, 3}} {
			for mode := 0; mode < 2; mode++ {
				for order := 0; order < 3; order++ {
					codec, comp, mode, order := codec, comp, mode, order
					ts = append(ts, task{fmt.Sprintf("file %s %v %s order %d", codec, comp, filedrv.ModeName(mode), order), func(c *fw.Ctx) { runE2(c, codec, comp, mode, poolBound, order, 0, false, false) }})
					if mode == 0 && order != 1 {
						ts = append(ts, task{fmt.Sprintf("file %s %v order %d pool recycles by default", codec, comp, order), func(c *fw.Ctx) { runE2(c, codec, comp, mode, poolBound, order, 0, false, true) }})
					}
					if mode == 0 && order == 0 {
						ts = append(ts, task{fmt.Sprintf("file %s %v after an abandoned read", codec, comp), func(c *fw.Ctx) { runE2(c, codec, comp, mode, poolBound, order, 0, true, true) }})
					}
					if mode == 0 && (tier == "thorough" || order != 1) {
						enc := 1 + (len(ts)+order)%2
						if tier == "thorough" {
							ts = append(ts, task{fmt.Sprintf("file %s %v order %d sized blocks", codec, comp, order), func(c *fw.Ctx) { runE2(c, codec, comp, mode, poolBound, order, 1, false, false) }})
							enc = 2
						}
						ts = append(ts, task{fmt.Sprintf("file %s %v order %d collections layout %d", codec, comp, order, enc), func(c *fw.Ctx) { runE2(c, codec, comp, mode, poolBound, order, enc, false, false) }})
					}
				}
			}
		}
	}
	for ci, codec := range []string{"null", "deflate", "snappy"} {
		ci, codec := ci, codec
		ts = append(ts, task{"time zones " + codec, func(c *fw.Ctx) { runE3(c, codec, ci) }})
	}
	memo[tier] = ts
	return ts
}

func init() {
	fw.Register(&fw.Check{
		ID:    "C10",
		Level: "model_checking",
		Rule: func(tier string) string {
			depth, banks, pb := 6, 2, 2
			if tier == "thorough" {
				depth, banks, pb = 7, 3, 3
			}
			return fmt.Sprintf("built with the sync→zzvsync overlay so that sync.Pool recycling is an explored choice. (E1) explicit-state BFS over sequences (depth %d) of real ResourceBank/ReadBuf operations {alloc(int64), alloc(struct with pointer and string), 17×alloc (arena growth), ToString/NextAsString of 2 and 300 bytes (string store regrowth), Close(bank i), ExtractResourceBank with Pool.Get answer ∈ {new, each of the 2 most recently pooled banks}, recycle (the ReadBuf's bank goes through Close and the pool and comes back)} over the ReadBuf's bank and <=%d extracted banks; successor = replay on a fresh world + one operation; canonical state = per physical bank (role, fill levels, high-water classes) and pool order; shadow-heap model: after EVERY step a new allocation must be all-zero and disjoint (address ranges) from every live allocation and string of every open bank, and every live allocation and string must still hold its pattern. (E2) ReadFile over 4-record files (strings, bytes, slices, maps of strings / longs / records, pointers to long and to a record — map values and pointer targets of the same types — a **long and a *map; the spare capacity of every delivered []byte is overwritten by the callback (as an append would) and a collection runs in every 40th execution (clobberfree); an all-empty record as third or as second of the four; or four records that repeat one string in every string position) × 3 codecs × 4 block partitions × 2 reader modes — and again with the file's arrays and maps laid out in byte-size-prefixed blocks / one size-prefixed block per item (forms the library's own writer never produces), and again after an earlier read of the file that its callback gave up at the first record (bank closed by the callback, error returned) — with the callback's retention policy (keep / close own bank / close the bank of any earlier open record) explored exhaustively and Pool.Get answers with <=%d deviations — from 'a fresh bank every time' and, in further runs, from 'the most recently pooled bank every time' (a cold and a warm pool) — every retained shallow copy whose bank is open must equal the deep copy taken at delivery, at every later callback, at the end, and again after a second ReadFile (whose banks are closed at once) has run; (E3) what delivered time.Time values SHOW (zone name, offset, String, Format) for RFC 3339 strings with five unusual offsets in five blocks must be unchanged after the rest of the file has been read; distinct_nontrivial = distinct histories / choice vectors checked", depth, banks, pb)
		},
		Assumptions: []string{
			"double Close of one bank and use after Close are API misuse and excluded from the alphabet",
			"canonical state = per physical bank (role, exact fill levels, high-water classes {0,<=16,<=32,>32}, and the run-length-encoded sequence of operation kinds applied to it with runs capped at 3) + pool order: two histories are merged only if they differ in the length of runs of >=3 identical operations on a bank, so order-dependent hidden state (e.g. a 'last type' cache) is not abstracted away",
			"the shim's Pool.Get may return a fresh object or any pooled one: a superset of what the real sync.Pool may do",
		},
		NumCases: func(tier string) int { return len(tasks(tier)) },
		RunCase: func(c *fw.Ctx, idx int) {
			t := tasks(c.Tier)[idx]
			c.Begin("c10", t.name)
			t.run(c)
		},
		WorkerEnv: []string{"GOGC=400", "GODEBUG=clobberfree=1"},
		Budget:    func(tier string) time.Duration { return 40 * time.Minute },
	})
}

// Package c10: delivered values stay intact until their resource bank is
// closed. The check itself is compiled only in overlay builds (tag ovl), where
// the library's sync import is replaced by the zzvsync shim.
package c10

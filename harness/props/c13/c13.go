// Package c13: codecs built from caller-supplied schemas write valid data and invert.
package c13

import (
	"fmt"
	"reflect"
	"strings"
	"time"
	"unsafe"

	"github.com/philpearl/avro"

	"verifharness/fw"
	"verifharness/gv"
	"verifharness/ref"
	"verifharness/reg"
	"verifharness/univ"
)

var memo = map[string][]univ.SNode{}

func schemas(tier string) []univ.SNode {
	if s, ok := memo[tier]; ok {
		return s
	}
	d := 2
	if tier == "thorough" {
		d = 3
	}
	s := univ.DataSchemas(d, true)
	// time.Time carried by a long that has NO logical type of the specification's: the plain name, the object form
	// {"type":"long"}, an annotation nobody knows — the library's documented convention (nanoseconds) applies to all
	objLong, madeUp := ref.Logical("long", ""), ref.Logical("long", "made-up-by-the-caller")
	for _, x := range []univ.SNode{
		{Schema: ref.Prim("long"), Chain: "time-under:long"},
		{Schema: objLong, Chain: "time-under:long-objectform"},
		{Schema: madeUp, Chain: "time-under:long-unknown-logical"},
		{Schema: ref.Union(ref.Prim("null"), objLong), Chain: "time-under:[null,long-objectform]", Depth: 1},
		{Schema: ref.Union(objLong, ref.Prim("null")), Chain: "time-under:[long-objectform,null]", Depth: 1},
		{Schema: ref.Array(objLong), Chain: "time-under:array>long-objectform", Depth: 1},
	} {
		s = append(s, x)
	}
	// collections far longer than anything a writer would put in one block by default
	s = append(s, univ.SNode{Schema: ref.Array(ref.Prim("long")), Chain: "long-collections:array>long", Depth: 1},
		univ.SNode{Schema: ref.Array(ref.Prim("string")), Chain: "long-collections:array>string", Depth: 1},
		univ.SNode{Schema: ref.Map(ref.Prim("long")), Chain: "long-collections:map>long", Depth: 1})
	memo[tier] = s
	return s
}

// targetsOf / datumsOf: the special nodes above bring their own targets and datums.
func targetsOf(n univ.SNode) []reflect.Type {
	if strings.HasPrefix(n.Chain, "time-under:") {
		switch n.Schema.Type {
		case "union":
			return []reflect.Type{reflect.PointerTo(gv.TimeT)}
		case "array":
			return []reflect.Type{reflect.SliceOf(gv.TimeT)}
		}
		return []reflect.Type{gv.TimeT, reflect.PointerTo(gv.TimeT)}
	}
	return univ.Targets(n.Schema, true)
}

func datumsOf(n univ.SNode, full bool) []ref.Datum {
	if strings.HasPrefix(n.Chain, "long-collections:") {
		var out []ref.Datum
		for _, cnt := range []int{4095, 4096, 4097, 10000, 70000} {
			var items []ref.Datum
			var keys []string
			for i := 0; i < cnt; i++ {
				switch n.Schema.Type {
				case "map":
					keys = append(keys, fmt.Sprintf("k%05d", i))
					items = append(items, ref.DLong(int64(i)*3-7))
				default:
					if n.Schema.Items.Type == "string" {
						items = append(items, ref.DString(fmt.Sprintf("s%d", i)))
					} else {
						items = append(items, ref.DLong(int64(i)*3-7))
					}
				}
			}
			if n.Schema.Type == "map" {
				out = append(out, ref.DMap(keys, items))
			} else {
				out = append(out, ref.DArray(items...))
			}
		}
		return out
	}
	if strings.HasPrefix(n.Chain, "time-under:") {
		ls := []ref.Datum{ref.DLong(0), ref.DLong(1), ref.DLong(-1), ref.DLong(1614834367123456789), ref.DLong(-86400000000001)}
		switch n.Schema.Type {
		case "union":
			ni := 0
			if n.Schema.Branches[0].Type != "null" {
				ni = 1
			}
			out := []ref.Datum{ref.DUnion(ni, ref.DNull())}
			for _, l := range ls {
				out = append(out, ref.DUnion(1-ni, l))
			}
			return out
		case "array":
			return []ref.Datum{ref.DArray(), ref.DArray(ls...)}
		}
		return ls
	}
	return univ.Datums(n.Schema, full)
}

var otherZones = []*time.Location{time.FixedZone("west", -5*3600), time.FixedZone("east", 14*3600), time.FixedZone("half", -(3*3600 + 1800))}

// relocate replaces every time.Time inside v (addressable) by the same instant in loc; false if there is none.
func relocate(v reflect.Value, loc *time.Location) bool {
	found := false
	var walk func(v reflect.Value)
	walk = func(v reflect.Value) {
		switch {
		case v.Type() == gv.TimeT:
			if v.CanSet() {
				t := v.Interface().(time.Time)
				if !t.IsZero() {
					v.Set(reflect.ValueOf(t.In(loc)))
					found = true
				}
			}
			return
		}
		switch v.Kind() {
		case reflect.Ptr:
			if !v.IsNil() {
				walk(v.Elem())
			}
		case reflect.Struct:
			for i := 0; i < v.NumField(); i++ {
				if v.Type().Field(i).IsExported() {
					walk(v.Field(i))
				}
			}
		case reflect.Slice:
			for i := 0; i < v.Len(); i++ {
				walk(v.Index(i))
			}
		}
	}
	walk(v)
	return found
}

func build(schemaJSON string, item interface{}) (c avro.Codec, err error, pan interface{}, site string) {
	defer func() {
		if r := recover(); r != nil {
			pan, site = r, fw.PanicSite(3)
		}
	}()
	s, err := avro.SchemaFromString(schemaJSON)
	if err != nil {
		return nil, err, nil, ""
	}
	c, err = s.Codec(item)
	return
}

// Embedded structs under a caller schema: an embedded struct is an ordinary field named after its type, and its own
// fields live in the nested record — also when one of them carries the same schema name as a field of the outer
// struct (fields are matched per record, by name).
type EmbMeta struct {
	ID  int64  `json:"id"`
	Src string `json:"src"`
}

type EmbOuter struct {
	Pad     int64 `json:"pad"`
	EventID int64 `json:"id"`
	EmbMeta
	Tail int64 `json:"tail"`
}

func runEmbeddedCollision(c *fw.Ctx) {
	const doc = `{"type":"record","name":"o","fields":[{"name":"pad","type":"long"},{"name":"id","type":"long"},{"name":"EmbMeta","type":{"type":"record","name":"m","fields":[{"name":"id","type":"long"},{"name":"src","type":"string"}]}},{"name":"tail","type":"long"}]}`
	locus := "embedded-struct|same-schema-name-inside"
	c.Eval(1)
	c.Begin(locus, doc)
	codec, err, pan, site := build(doc, EmbOuter{})
	if pan != nil {
		c.Violation("panic:"+fw.PanicClass(pan)+"@"+site+"|build|"+locus, fmt.Sprint(pan), doc)
		return
	}
	if err != nil {
		c.Count("codec_refused", 1)
		return
	}
	c.Nontrivial(locus)
	v := EmbOuter{Pad: 7, EventID: 1001, EmbMeta: EmbMeta{ID: 55, Src: "n"}, Tail: -3}
	want := ref.AppendLong(ref.AppendLong(nil, 7), 1001)
	want = append(ref.AppendLong(ref.AppendLong(want, 55), 1), 'n')
	want = ref.AppendLong(want, -3)
	c.Guard(locus, doc, doc, func() {
		w := avro.NewWriteBuf(nil)
		codec.Write(w, unsafe.Pointer(&v))
		if string(w.Bytes()) != string(want) {
			c.Violation("wrong-datum|"+locus, fmt.Sprintf("written %x, the value means %x", w.Bytes(), want), doc)
			return
		}
		var back EmbOuter
		if err := codec.Read(avro.NewReadBuf(want), unsafe.Pointer(&back)); err != nil || back != v {
			c.Violation("not-inverted|"+locus, fmt.Sprintf("Read(Write(v)) = %+v err=%v, v = %+v", back, err, v), doc)
		}
	})
}

func runNode(c *fw.Ctx, idx int, n univ.SNode) {
	if idx == 0 {
		runEmbeddedCollision(c)
	}
	rs := ref.Record("Top", ref.F("f", n.Schema))
	schemaJSON := rs.Print(nil)
	full := n.Depth <= 1
	datums := datumsOf(n, full)
	for _, ft := range targetsOf(n) {
		for _, tag := range []string{`json:"f"`, `json:"f,omitempty"`} {
			st := reflect.StructOf([]reflect.StructField{{Name: "F", Type: ft, Tag: reflect.StructTag(tag)}})
			tname := fmt.Sprintf("struct{F %s `%s`}", ft, tag)
			locus := n.Chain + "|" + gv.KindName(ft)
			desc := fmt.Sprintf("schema %s, Go type %s", n.Schema.Print(nil), tname)
			c.Begin(locus, desc)
			codec, err, pan, site := build(schemaJSON, reflect.New(st).Elem().Interface())
			if pan != nil {
				c.Violation("panic:"+fw.PanicClass(pan)+"@"+site+"|build|"+locus, fmt.Sprintf("Schema.Codec panicked: %v — %s", pan, desc), desc)
				continue
			}
			if err != nil {
				c.Count("codec_refused", 1)
				continue
			}
			c.Count("codec_built", 1)
			for _, d := range datums {
				c.Eval(1)
				v := reflect.New(st).Elem()
				if e := gv.Expect(rs, ref.DRecord(d), v); e != nil {
					c.Count("value_outside_target_range_skipped", 1)
					continue // the datum is outside this target's range: not a value of the type
				}
				want, e := gv.ToDatum(rs, v, false)
				if e != nil {
					c.Count("abstraction_undefined_not_judged", 1)
					continue
				}
				vdesc := fmt.Sprintf("%s value %s", desc, gv.Show(v.Field(0)))
				det := map[string]interface{}{"schema": schemaJSON, "type": tname, "value": gv.Show(v.Field(0))}
				c.Nontrivial(vdesc)
				var out []byte
				if c.Guard(locus+"|write", vdesc, det, func() {
					w := avro.NewWriteBuf(nil)
					codec.Write(w, unsafe.Pointer(v.UnsafeAddr()))
					out = w.Bytes()
				}) {
					continue
				}
				got, used, derr := ref.Decode(rs, out)
				vc := gv.ValueClass(v.Field(0))
				if derr != nil {
					c.Violation("invalid-encoding|"+locus+"|"+vc, fmt.Sprintf("Write produced %x, which is not an encoding under the schema: %v — %s", out, derr, vdesc), det)
					continue
				}
				if used != len(out) {
					c.Violation("leftover-bytes|"+locus+"|"+vc, fmt.Sprintf("Write produced %x: %d bytes are left over after decoding — %s", out, len(out)-used, vdesc), det)
					continue
				}
				if path, dl := ref.DatumDiff(rs, want, got); path != "" {
					alt, e2 := gv.ToDatumEmptyNonNull(rs, v, false)
					if e2 != nil || !alt.Equal(got) {
						c.Violation("wrong-datum|"+locus+"|"+dl+"|"+vc, fmt.Sprintf("Write produced %x = %s, the value means %s (difference at %s) — %s", out, got, want, path, vdesc), det)
						continue
					}
				}
				// the same instants carried in other Locations (a time.Time is an instant plus a zone for display):
				// what is written depends on the instant alone
				for _, loc := range otherZones {
					if strings.Contains(n.Chain, "string") {
						break // RFC 3339 text carries the zone: different text for the same instant is right
					}
					v2 := gv.DeepCopy(v)
					if !relocate(v2, loc) {
						break
					}
					var out2 []byte
					if c.Guard(locus+"|write", vdesc, det, func() {
						w := avro.NewWriteBuf(nil)
						codec.Write(w, unsafe.Pointer(v2.UnsafeAddr()))
						out2 = w.Bytes()
					}) {
						break
					}
					if string(out2) != string(out) {
						c.Violation("wrong-datum|"+locus+"|depends-on-location|"+vc, fmt.Sprintf("the same instant in zone %s is written as %x, in UTC as %x — %s", loc, out2, out, vdesc), det)
						break
					}
				}
				// inversion: Read of those bytes returns the original value
				back := reflect.New(st).Elem()
				var rerr error
				if c.Guard(locus+"|read", vdesc, det, func() {
					rerr = codec.Read(avro.NewReadBuf(out), unsafe.Pointer(back.UnsafeAddr()))
				}) {
					continue
				}
				if rerr != nil {
					c.Violation("read-error|"+locus+"|"+vc, fmt.Sprintf("Read of the codec's own output %x failed: %v — %s", out, rerr, vdesc), det)
					continue
				}
				// the original value as the schema can carry it: Expect(ToDatum(v)) — identical to v except
				// that a zero omitempty value reads back as the zero value and an invalid wrapper under a
				// non-nullable schema (not a value of the schema's range) reads back valid
				orig := reflect.New(st).Elem()
				if e := gv.Expect(rs, want, orig); e != nil {
					c.Count("abstraction_undefined_not_judged", 1)
					continue
				}
				if path, dl, dvc := gv.DiffLocus(orig, back); path != "" {
					c.Violation("not-inverted|"+n.Chain+"|"+dl+"|"+dvc, fmt.Sprintf("Read(Write(v)) = %s, v = %s (difference at %s; bytes %x) — %s", gv.Show(back.Field(0)), gv.Show(v.Field(0)), path, out, vdesc), det)
				}
			}
		}
	}
	if n.Schema.Type == "fixed" {
		runNearMissFixed(c, n, rs, schemaJSON)
	}
	if idx%41 == 0 {
		c.Sample(map[string]interface{}{"schema": schemaJSON, "targets": len(targetsOf(n)), "datums": len(datums)})
	}
}

// runNearMissFixed: Go byte arrays whose length is NOT the fixed size. The statement is conditional — "if a codec
// can be built" — so a refusal is fine; but a codec that is built must write valid data for EVERY value of the Go
// type and read it back unchanged, which a length mismatch cannot do for values with non-zero bytes everywhere.
func runNearMissFixed(c *fw.Ctx, n univ.SNode, rs *ref.Schema, schemaJSON string) {
	for _, l := range []int{n.Schema.Size + 4, n.Schema.Size + 1, n.Schema.Size - 1, 2 * n.Schema.Size} {
		if l <= 0 || l == n.Schema.Size {
			continue
		}
		at := reflect.ArrayOf(l, reflect.TypeOf(byte(0)))
		for _, ft := range []reflect.Type{at, reflect.PointerTo(at)} {
			st := reflect.StructOf([]reflect.StructField{{Name: "F", Type: ft, Tag: `json:"f"`}})
			tname := fmt.Sprintf("struct{F %s}", ft)
			locus := n.Chain + "|near-miss|" + gv.KindName(ft)
			desc := fmt.Sprintf("schema %s, Go type %s (array length differs from the fixed size)", n.Schema.Print(nil), tname)
			c.Eval(1)
			c.Begin(locus, desc)
			codec, err, pan, site := build(schemaJSON, reflect.New(st).Elem().Interface())
			if pan != nil {
				c.Violation("panic:"+fw.PanicClass(pan)+"@"+site+"|build|"+locus, fmt.Sprintf("Schema.Codec panicked: %v — %s", pan, desc), desc)
				continue
			}
			if err != nil {
				c.Count("codec_refused", 1)
				c.Nontrivial(desc)
				continue
			}
			c.Nontrivial(desc)
			v := reflect.New(st).Elem()
			arr := reflect.New(at).Elem()
			for i := 0; i < l; i++ {
				arr.Index(i).SetUint(uint64(0x11 * (i + 1) & 0xff))
			}
			if ft.Kind() == reflect.Ptr {
				p := reflect.New(at)
				p.Elem().Set(arr)
				v.Field(0).Set(p)
			} else {
				v.Field(0).Set(arr)
			}
			var out []byte
			back := reflect.New(st).Elem()
			var rerr error
			if c.Guard(locus, desc, desc, func() {
				w := avro.NewWriteBuf(nil)
				codec.Write(w, unsafe.Pointer(v.UnsafeAddr()))
				out = append([]byte(nil), w.Bytes()...)
				rerr = codec.Read(avro.NewReadBuf(out), unsafe.Pointer(back.UnsafeAddr()))
			}) {
				continue
			}
			if _, used, derr := ref.Decode(rs, out); derr != nil || used != len(out) {
				c.Violation("invalid-encoding|"+locus, fmt.Sprintf("a codec was built and Write produced %x, not exactly one encoding under the schema (used %d, err %v) — %s", out, used, derr, desc), desc)
				continue
			}
			if rerr != nil {
				c.Violation("read-error|"+locus, fmt.Sprintf("Read of the codec's own output %x failed: %v — %s", out, rerr, desc), desc)
				continue
			}
			if d := gv.Equal(v, back); d != "" {
				c.Violation("not-inverted|"+locus, fmt.Sprintf("a codec was built, but Read(Write(v)) = %s for v = %s (difference at %s; bytes %x) — %s", gv.Show(back.Field(0)), gv.Show(v.Field(0)), d, out, desc), desc)
			}
		}
	}
}

func init() {
	fw.Register(&fw.Check{
		ID:    "C13",
		Level: "exploration",
		Rule: func(tier string) string {
			d := 2
			if tier == "thorough" {
				d = 3
			}
			return fmt.Sprintf("caller-written schemas record{f: S} for every S of nesting depth <=%d over leaves {boolean,int,long,float,double,bytes,string,fixed(4),record,date,timestamp-millis,timestamp-micros,RFC3339 string} and constructors {array,map,record{x},[null,S],[S,null]} × every compatible Go field type (int/int16/int32/int64, float32/float64, *T, **T, null.* wrappers, time.Time, [n]byte, slices/maps/structs of these) × tag {plain, omitempty} × the value alphabet of the schema restricted to the target's range; (time.Time values also in three non-UTC Locations: under the integer-carried logical types the bytes must depend on the instant alone) oracle: if Schema.Codec builds, the reference decoder reads Write's bytes, with nothing left over, as the datum gv.ToDatum assigns to the value (union branch, width, logical unit), and Codec.Read of the bytes returns the value; plus an embedded struct one of whose fields carries the same schema name as a field of the outer struct; plus, for fixed, Go byte arrays of other lengths (size±1, +4, ×2; by value and behind a pointer): a refusal is fine, a codec that is built must invert a value with no zero byte; non-trivial = a distinct (schema, type, value) for which a codec was built", d)
		},
		Assumptions: []string{
			"only unions of null with one other type (either order) are in scope for writing; multi-branch and single-branch unions are excluded (the statement lists null first or second)",
			"values are obtained as gv.Expect(datum): datums outside the Go target's range are not values of the type and are skipped",
		},
		Init:     func(c *fw.Ctx) { reg.Init() },
		NumCases: func(tier string) int { return len(schemas(tier)) },
		RunCase:  func(c *fw.Ctx, idx int) { runNode(c, idx, schemas(c.Tier)[idx]) },
		Budget:   func(tier string) time.Duration { return 30 * time.Minute },
	})
}

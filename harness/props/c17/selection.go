package c17

import (
	"encoding/binary"
	"fmt"
	"math"
	"reflect"
	"unsafe"

	"github.com/philpearl/avro"

	"verifharness/fw"
	"verifharness/gv"
	"verifharness/ref"
)

var nullIntT, nullFloatT, nullBoolT, nullStringT = gv.NullIntT, gv.NullFloatT, gv.NullBoolT, gv.NullStringT

// Codec SELECTION: the codec types exercised directly elsewhere in this check are reached, in ordinary use, through
// Schema.Codec, which picks one from the (schema primitive, Go type) pair. Here every primitive Go type — plain and
// as a defined (named) type with that underlying type — is paired with every schema primitive it may be carried
// as, inside struct{F T; G T}: the bytes written must be the specification's encoding of F then G, decoding them
// must give F and G back bit-exactly, and G (the neighbour) shows whether a codec of the wrong width was picked.

type (
	DInt16   int16
	DInt32   int32
	DInt64   int64
	DInt     int
	DFloat32 float32
	DFloat64 float64
	DBool    bool
	DString  string
	DBytes   []byte
)

type selCase struct {
	name   string
	schema string                                    // primitive schema name for both fields
	mk     func(i int) (v reflect.Value, enc []byte) // i-th test value of the Go type and its spec encoding
	n      int
}

func intVals(bits int) []int64 {
	vs := []int64{0, 1, -1, 63, 64, -64, -65, 8191, 8192, -8192, -8193}
	hi := int64(1)<<uint(bits-1) - 1
	return append(vs, hi, -hi-1, hi-1, -hi)
}

func selInt[T interface {
	~int16 | ~int32 | ~int64 | ~int
}](name, schema string, bits int) selCase {
	vals := intVals(bits)
	return selCase{name, schema, func(i int) (reflect.Value, []byte) {
		return reflect.ValueOf(T(vals[i])), ref.AppendLong(nil, vals[i])
	}, len(vals)}
}

var f32bits = []uint32{0, 0x80000000, 0x3fc00000, 0xbfc00000, 0x7f7fffff, 0x00000001, 0x7f800000, 0xff800000, 0x7fc00000, 0x7fc00001, 0x41555c29}

func selF32[T ~float32](name, schema string) selCase {
	return selCase{name, schema, func(i int) (reflect.Value, []byte) {
		f := math.Float32frombits(f32bits[i])
		if schema == "float" {
			return reflect.ValueOf(T(f)), binary.LittleEndian.AppendUint32(nil, f32bits[i])
		}
		return reflect.ValueOf(T(f)), binary.LittleEndian.AppendUint64(nil, math.Float64bits(float64(f)))
	}, len(f32bits)}
}

var f64bits = []uint64{0, 1 << 63, 0x3ff8000000000000, 0x7fefffffffffffff, 1, 0x7ff0000000000000, 0xfff0000000000000, 0x7ff8000000000001, 0x402abd70a3d70a3d}

func selF64[T ~float64](name string) selCase {
	return selCase{name, "double", func(i int) (reflect.Value, []byte) {
		return reflect.ValueOf(T(math.Float64frombits(f64bits[i]))), binary.LittleEndian.AppendUint64(nil, f64bits[i])
	}, len(f64bits)}
}

func selCases() []selCase {
	strs := []string{"", "a", "héllo", string(make([]byte, 70))}
	cs := []selCase{
		selInt[int16]("int16", "int", 16), selInt[int16]("int16", "long", 16), selInt[DInt16]("defined int16", "int", 16), selInt[DInt16]("defined int16", "long", 16),
		selInt[int32]("int32", "int", 32), selInt[int32]("int32", "long", 32), selInt[DInt32]("defined int32", "int", 32), selInt[DInt32]("defined int32", "long", 32),
		selInt[int64]("int64", "long", 64), selInt[DInt64]("defined int64", "long", 64), selInt[int]("int", "long", 64), selInt[DInt]("defined int", "long", 64),
		selInt[int64]("int64", "int", 32), selInt[DInt64]("defined int64", "int", 32), selInt[int]("int", "int", 32), selInt[DInt]("defined int", "int", 32),
		selF32[float32]("float32", "float"), selF32[DFloat32]("defined float32", "float"), selF32[float32]("float32", "double"), selF32[DFloat32]("defined float32", "double"),
		selF64[float64]("float64"), selF64[DFloat64]("defined float64"),
		{"bool", "boolean", func(i int) (reflect.Value, []byte) { return reflect.ValueOf(i == 1), []byte{byte(i)} }, 2},
		{"defined bool", "boolean", func(i int) (reflect.Value, []byte) { return reflect.ValueOf(DBool(i == 1)), []byte{byte(i)} }, 2},
		{"string", "string", func(i int) (reflect.Value, []byte) {
			return reflect.ValueOf(strs[i]), append(ref.AppendLong(nil, int64(len(strs[i]))), strs[i]...)
		}, len(strs)},
		{"defined string", "string", func(i int) (reflect.Value, []byte) {
			return reflect.ValueOf(DString(strs[i])), append(ref.AppendLong(nil, int64(len(strs[i]))), strs[i]...)
		}, len(strs)},
		{"[]byte", "bytes", func(i int) (reflect.Value, []byte) {
			return reflect.ValueOf([]byte(strs[i])), append(ref.AppendLong(nil, int64(len(strs[i]))), strs[i]...)
		}, len(strs)},
		{"defined []byte", "bytes", func(i int) (reflect.Value, []byte) {
			return reflect.ValueOf(DBytes(strs[i])), append(ref.AppendLong(nil, int64(len(strs[i]))), strs[i]...)
		}, len(strs)},
	}
	return cs
}

func bitsOf(v reflect.Value) string {
	switch v.Kind() {
	case reflect.Float32:
		return fmt.Sprintf("%08x", math.Float32bits(float32(v.Float())))
	case reflect.Float64:
		return fmt.Sprintf("%016x", math.Float64bits(v.Float()))
	case reflect.Slice:
		return fmt.Sprintf("%x", v.Bytes())
	}
	return fmt.Sprint(v.Interface())
}

func sameValue(a, b reflect.Value) bool {
	if a.Kind() == reflect.Float32 || a.Kind() == reflect.Float64 {
		if math.IsNaN(a.Float()) {
			return math.IsNaN(b.Float()) // NaN maps to NaN (payload not compared, as for the direct codecs)
		}
	}
	return bitsOf(a) == bitsOf(b)
}

func runSelection(c *fw.Ctx) {
	for _, sc := range selCases() {
		v0, _ := sc.mk(0)
		t := v0.Type()
		st := reflect.StructOf([]reflect.StructField{{Name: "F", Type: t, Tag: `json:"f"`}, {Name: "G", Type: t, Tag: `json:"g"`}})
		schemaJSON := fmt.Sprintf(`{"type":"record","name":"r","fields":[{"name":"f","type":"%s"},{"name":"g","type":"%s"}]}`, sc.schema, sc.schema)
		locus := "selection|" + sc.name + "|" + sc.schema
		s, err := avro.SchemaFromString(schemaJSON)
		if err != nil {
			c.HarnessError(err.Error())
			return
		}
		var codec avro.Codec
		var berr error
		if c.Guard(locus, "Schema.Codec for "+sc.name+" under "+sc.schema, locus, func() { codec, berr = s.Codec(reflect.New(st).Elem().Interface()) }) {
			continue
		}
		if berr != nil {
			c.Count("selection_pairs_refused", 1) // refusing a pairing is not an encoding question
			continue
		}
		for i := 0; i < sc.n; i++ {
			for j := 0; j < sc.n; j += 1 + sc.n/3 {
				c.Eval(1)
				fv, fenc := sc.mk(i)
				gv, genc := sc.mk(j)
				if sc.schema == "int" && (len(fenc) > 5 || len(genc) > 5) {
					continue
				}
				desc := fmt.Sprintf("%s under schema %q: F=%s G=%s", sc.name, sc.schema, bitsOf(fv), bitsOf(gv))
				c.Nontrivial(desc)
				want := append(append([]byte(nil), fenc...), genc...)
				v := reflect.New(st).Elem()
				v.Field(0).Set(fv)
				v.Field(1).Set(gv)
				var out []byte
				back := reflect.New(st).Elem()
				var rerr error
				if c.Guard(locus, desc, desc, func() {
					w := avro.NewWriteBuf(make([]byte, 0, 64))
					codec.Write(w, unsafe.Pointer(v.UnsafeAddr()))
					out = append([]byte(nil), w.Bytes()...)
					rerr = codec.Read(avro.NewReadBuf(want), unsafe.Pointer(back.UnsafeAddr()))
				}) {
					continue
				}
				if string(out) != string(want) {
					c.Violation("wrong-bytes|"+locus, fmt.Sprintf("written %x, the specification's encoding is %x — %s", out, want, desc), desc)
					continue
				}
				if rerr != nil || !sameValue(fv, back.Field(0)) || !sameValue(gv, back.Field(1)) {
					c.Violation("wrong-value|"+locus, fmt.Sprintf("decoding %x gives F=%s G=%s err=%v — %s", want, bitsOf(back.Field(0)), bitsOf(back.Field(1)), rerr, desc), desc)
				}
			}
		}
	}
	// the same selection one level down: the primitive as the ITEM of an array (bulk paths, if any, live there)
	for _, sc := range selCases() {
		if sc.schema != "float" && sc.schema != "double" && sc.schema != "long" && sc.schema != "int" {
			continue
		}
		v0, _ := sc.mk(0)
		t := v0.Type()
		st := reflect.StructOf([]reflect.StructField{{Name: "F", Type: reflect.SliceOf(t), Tag: `json:"f"`}, {Name: "G", Type: t, Tag: `json:"g"`}})
		schemaJSON := fmt.Sprintf(`{"type":"record","name":"r","fields":[{"name":"f","type":{"type":"array","items":"%s"}},{"name":"g","type":"%s"}]}`, sc.schema, sc.schema)
		locus := "selection|array of " + sc.name + "|" + sc.schema
		s, err := avro.SchemaFromString(schemaJSON)
		if err != nil {
			c.HarnessError(err.Error())
			return
		}
		var codec avro.Codec
		var berr error
		if c.Guard(locus, "Schema.Codec for []"+sc.name+" under array of "+sc.schema, locus, func() { codec, berr = s.Codec(reflect.New(st).Elem().Interface()) }) || berr != nil {
			continue
		}
		for n := 1; n <= sc.n && n <= 5; n += 2 {
			c.Eval(1)
			sl := reflect.MakeSlice(reflect.SliceOf(t), 0, n)
			want := ref.AppendLong(nil, int64(n))
			skip := false
			for i := 0; i < n; i++ {
				iv, ienc := sc.mk(i)
				if sc.schema == "int" && len(ienc) > 5 {
					skip = true
				}
				sl = reflect.Append(sl, iv)
				want = append(want, ienc...)
			}
			gvv, genc := sc.mk(1)
			if skip {
				continue
			}
			want = append(ref.AppendLong(want, 0), genc...)
			desc := fmt.Sprintf("[]%s (%d items) under array of %q", sc.name, n, sc.schema)
			c.Nontrivial(desc)
			v := reflect.New(st).Elem()
			v.Field(0).Set(sl)
			v.Field(1).Set(gvv)
			var out []byte
			back := reflect.New(st).Elem()
			var rerr error
			if c.Guard(locus, desc, desc, func() {
				w := avro.NewWriteBuf(make([]byte, 0, 64))
				codec.Write(w, unsafe.Pointer(v.UnsafeAddr()))
				out = append([]byte(nil), w.Bytes()...)
				rerr = codec.Read(avro.NewReadBuf(want), unsafe.Pointer(back.UnsafeAddr()))
			}) {
				continue
			}
			if string(out) != string(want) {
				c.Violation("wrong-bytes|"+locus, fmt.Sprintf("written %x, the specification's encoding is %x — %s", out, want, desc), desc)
				continue
			}
			ok := rerr == nil && back.Field(0).Len() == n && sameValue(gvv, back.Field(1))
			for i := 0; ok && i < n; i++ {
				ok = sameValue(sl.Index(i), back.Field(0).Index(i))
			}
			if !ok {
				c.Violation("wrong-value|"+locus, fmt.Sprintf("decoding %x gives %v err=%v — %s", want, back.Interface(), rerr, desc), desc)
			}
		}
	}
	// the same selection BEHIND A POINTER: three *T fields of one record under ["null", X]. The values are allocated
	// by the codec (its New), side by side: a slot of the wrong width shows in its neighbours.
	for _, sc := range selCases() {
		v0, _ := sc.mk(0)
		t := v0.Type()
		pt := reflect.PointerTo(t)
		st := reflect.StructOf([]reflect.StructField{{Name: "F", Type: pt, Tag: `json:"f"`}, {Name: "G", Type: pt, Tag: `json:"g"`}, {Name: "H", Type: pt, Tag: `json:"h"`}})
		u := fmt.Sprintf(`["null","%s"]`, sc.schema)
		schemaJSON := fmt.Sprintf(`{"type":"record","name":"r","fields":[{"name":"f","type":%s},{"name":"g","type":%s},{"name":"h","type":%s}]}`, u, u, u)
		locus := "selection|pointer to " + sc.name + "|" + sc.schema
		s, err := avro.SchemaFromString(schemaJSON)
		if err != nil {
			c.HarnessError(err.Error())
			return
		}
		var codec avro.Codec
		var berr error
		if c.Guard(locus, "Schema.Codec for *"+sc.name+" under "+u, locus, func() { codec, berr = s.Codec(reflect.New(st).Elem().Interface()) }) || berr != nil {
			continue
		}
		for i := 0; i < sc.n; i++ {
			c.Eval(1)
			idx := []int{i, (i + 1) % sc.n, (i + sc.n/2) % sc.n}
			var want []byte
			var vals []reflect.Value
			skip := false
			for _, k := range idx {
				v, enc := sc.mk(k)
				if sc.schema == "int" && len(enc) > 5 {
					skip = true
				}
				vals = append(vals, v)
				want = append(append(want, 2), enc...)
			}
			if skip {
				continue
			}
			desc := fmt.Sprintf("three *%s under %s: %s, %s, %s", sc.name, u, bitsOf(vals[0]), bitsOf(vals[1]), bitsOf(vals[2]))
			c.Nontrivial(desc)
			back := reflect.New(st).Elem()
			var rerr error
			var out []byte
			if c.Guard(locus, desc, desc, func() {
				rerr = codec.Read(avro.NewReadBuf(want), unsafe.Pointer(back.UnsafeAddr()))
				if rerr == nil {
					w := avro.NewWriteBuf(make([]byte, 0, 64))
					codec.Write(w, unsafe.Pointer(back.UnsafeAddr()))
					out = append([]byte(nil), w.Bytes()...)
				}
			}) {
				continue
			}
			ok := rerr == nil
			for k := 0; ok && k < 3; k++ {
				ok = !back.Field(k).IsNil() && sameValue(vals[k], back.Field(k).Elem())
			}
			if !ok {
				got := ""
				for k := 0; k < 3 && rerr == nil; k++ {
					if back.Field(k).IsNil() {
						got += " nil"
					} else {
						got += " " + bitsOf(back.Field(k).Elem())
					}
				}
				c.Violation("wrong-value|"+locus, fmt.Sprintf("decoding %x gives%s err=%v — %s", want, got, rerr, desc), desc)
				continue
			}
			if string(out) != string(want) && !(t.Kind() == reflect.Float32 || t.Kind() == reflect.Float64) {
				c.Violation("wrong-bytes|"+locus, fmt.Sprintf("re-encoding what was decoded gives %x, the input was %x — %s", out, want, desc), desc)
			}
		}
	}
	// and for the library's own wrapper types, which carry the primitive inside: null.Int under int and long,
	// null.Float under float and double, null.Bool, null.String — two fields each, valid values
	type wcase struct {
		t      reflect.Type
		field  string
		schema string
		n      int
		mk     func(i int) (interface{}, []byte)
	}
	f64 := func(i int) (interface{}, []byte) {
		b := make([]byte, 8)
		binary.LittleEndian.PutUint64(b, f64bits[i])
		return math.Float64frombits(f64bits[i]), b
	}
	f32 := func(i int) (interface{}, []byte) {
		b := make([]byte, 4)
		binary.LittleEndian.PutUint32(b, f32bits[i])
		return float64(math.Float32frombits(f32bits[i])), b
	}
	iv := intVals(64)
	iv32 := intVals(32)
	strs := []string{"", "a", "héllo"}
	for _, wc := range []wcase{
		{nullIntT, "Int64", "long", len(iv), func(i int) (interface{}, []byte) { return iv[i], ref.AppendLong(nil, iv[i]) }},
		{nullIntT, "Int64", "int", len(iv32), func(i int) (interface{}, []byte) { return iv32[i], ref.AppendLong(nil, iv32[i]) }},
		{nullFloatT, "Float64", "double", len(f64bits), f64},
		{nullFloatT, "Float64", "float", len(f32bits), f32},
		{nullBoolT, "Bool", "boolean", 2, func(i int) (interface{}, []byte) { return i == 1, []byte{byte(i)} }},
		{nullStringT, "String", "string", len(strs), func(i int) (interface{}, []byte) {
			return strs[i], append(ref.AppendLong(nil, int64(len(strs[i]))), strs[i]...)
		}},
	} {
		st := reflect.StructOf([]reflect.StructField{{Name: "F", Type: wc.t, Tag: `json:"f"`}, {Name: "G", Type: wc.t, Tag: `json:"g"`}})
		u := fmt.Sprintf(`["null","%s"]`, wc.schema)
		schemaJSON := fmt.Sprintf(`{"type":"record","name":"r","fields":[{"name":"f","type":%s},{"name":"g","type":%s}]}`, u, u)
		locus := "selection|" + wc.t.String() + "|" + wc.schema
		s, err := avro.SchemaFromString(schemaJSON)
		if err != nil {
			c.HarnessError(err.Error())
			return
		}
		var codec avro.Codec
		var berr error
		if c.Guard(locus, "Schema.Codec for "+wc.t.String()+" under "+u, locus, func() { codec, berr = s.Codec(reflect.New(st).Elem().Interface()) }) || berr != nil {
			c.Count("selection_pairs_refused", 1)
			continue
		}
		for i := 0; i < wc.n; i++ {
			c.Eval(1)
			j := (i + 1 + wc.n/2) % wc.n
			fv, fenc := wc.mk(i)
			gvv, genc := wc.mk(j)
			want := append(append(append([]byte{2}, fenc...), 2), genc...)
			desc := fmt.Sprintf("%s under %s: F=%v G=%v", wc.t, u, fv, gvv)
			c.Nontrivial(desc)
			back := reflect.New(st).Elem()
			var rerr error
			if c.Guard(locus, desc, desc, func() { rerr = codec.Read(avro.NewReadBuf(want), unsafe.Pointer(back.UnsafeAddr())) }) {
				continue
			}
			ok := rerr == nil
			for k, wv := range []interface{}{fv, gvv} {
				if !ok {
					break
				}
				f := back.Field(k)
				ok = f.FieldByName("Valid").Bool() && sameValue(reflect.ValueOf(wv), f.FieldByName(wc.field))
			}
			if !ok {
				c.Violation("wrong-value|"+locus, fmt.Sprintf("decoding %x gives %+v err=%v — %s", want, back.Interface(), rerr, desc), desc)
			}
		}
	}
	c.Sample(map[string]interface{}{"kind": "codec selection through Schema.Codec", "pairs": len(selCases())})
}

// Package c17: primitive wire encodings match the Avro specification exactly.
package c17

import (
	"fmt"
	"math"
	"time"
	"unsafe"

	"github.com/philpearl/avro"

	"verifharness/fw"
	"verifharness/ref"
	"verifharness/reg"
)

type task struct {
	name string
	run  func(c *fw.Ctx)
}

var memo = map[string][]task{}

func tasks(tier string) []task {
	if t, ok := memo[tier]; ok {
		return t
	}
	var ts []task
	ts = append(ts, task{"codec-selection", runSelection})
	ts = append(ts, task{"int16-all", func(c *fw.Ctx) { intRange[int16](c, "int16", avro.Int16Codec{}, math.MinInt16, math.MaxInt16) }})
	if tier == "thorough" {
		const chunks = 512
		span := int64(1<<32) / chunks
		for k := int64(0); k < chunks; k++ {
			lo := int64(math.MinInt32) + k*span
			hi := lo + span - 1
			ts = append(ts, task{fmt.Sprintf("int32[%d,%d]", lo, hi), func(c *fw.Ctx) { intRange[int32](c, "int32", avro.Int32Codec{}, lo, hi) }})
		}
	} else {
		const chunks = 16
		span := int64(1<<22) / chunks
		for k := int64(0); k < chunks; k++ {
			lo := -int64(1<<21) + k*span
			hi := lo + span - 1
			ts = append(ts, task{fmt.Sprintf("int32[%d,%d]", lo, hi), func(c *fw.Ctx) { intRange[int32](c, "int32", avro.Int32Codec{}, lo, hi) }})
		}
		ts = append(ts, task{"int32-boundaries", func(c *fw.Ctx) {
			for _, v := range boundaries(32, 1024) {
				intOne[int32](c, "int32", avro.Int32Codec{}, v)
			}
		}})
	}
	delta := int64(1024)
	if tier == "thorough" {
		delta = 1 << 16
	}
	for k := 0; k <= 63; k += 4 {
		k := k
		ts = append(ts, task{fmt.Sprintf("int64-boundaries-2^%d..", k), func(c *fw.Ctx) {
			for kk := k; kk < k+4 && kk <= 63; kk++ {
				for _, v := range around64(kk, delta) {
					intOne[int64](c, "int64", avro.Int64Codec{}, v)
				}
			}
		}})
	}
	// float32
	if tier == "thorough" {
		for hi := 0; hi < 256; hi++ {
			hi := hi
			ts = append(ts, task{fmt.Sprintf("float32-bits-%02x", hi), func(c *fw.Ctx) {
				for lo := uint32(0); lo < 1<<24; lo++ {
					float32One(c, uint32(hi)<<24|lo)
				}
			}})
		}
	} else {
		for sg := uint32(0); sg < 2; sg++ {
			sg := sg
			ts = append(ts, task{fmt.Sprintf("float32-sign%d", sg), func(c *fw.Ctx) {
				for e := uint32(0); e < 256; e++ {
					for _, m := range mant32() {
						float32One(c, sg<<31|e<<23|m)
					}
				}
			}})
		}
	}
	for sg := uint64(0); sg < 2; sg++ {
		sg := sg
		ts = append(ts, task{fmt.Sprintf("float64-sign%d", sg), func(c *fw.Ctx) {
			for e := uint64(0); e < 2048; e++ {
				for _, m := range mant64() {
					float64One(c, sg<<63|e<<52|m)
				}
			}
		}})
	}
	// bool
	ts = append(ts, task{"bool", func(c *fw.Ctx) { boolAll(c) }})
	// candidate varints as decoder input
	maxFull := 2
	if tier == "thorough" {
		maxFull = 3
	}
	for l := 0; l <= maxFull; l++ {
		l := l
		if l < 3 {
			ts = append(ts, task{fmt.Sprintf("decode-all-len%d", l), func(c *fw.Ctx) { decodeFull(c, l, -1) }})
		} else {
			for first := 0; first < 256; first++ {
				first := first
				ts = append(ts, task{fmt.Sprintf("decode-all-len%d-first%02x", l, first), func(c *fw.Ctx) { decodeFull(c, l, first) }})
			}
		}
	}
	alpha := []byte{0x00, 0x01, 0x7f, 0x80, 0xff}
	for l := 4; l <= 11; l++ {
		l := l
		free := l // how many trailing positions range over the full alphabet
		if tier != "thorough" && l > 8 {
			free = 3
		}
		for first := range alpha {
			first := first
			ts = append(ts, task{fmt.Sprintf("decode-alpha5-len%d-first%02x", l, alpha[first]), func(c *fw.Ctx) { decodeAlpha(c, alpha, l, free, first) }})
		}
	}
	memo[tier] = ts
	return ts
}

func boundaries(bits int, d int64) []int64 {
	var out []int64
	lo, hi := -(int64(1) << (bits - 1)), int64(1)<<(bits-1)-1
	add := func(v int64) {
		if v >= lo && v <= hi {
			out = append(out, v)
		}
	}
	for k := 0; k < bits; k++ {
		for dd := -d; dd <= d; dd++ {
			add(int64(1)<<k + dd)
			add(-(int64(1) << k) + dd)
		}
	}
	return out
}

func around64(k int, d int64) []int64 {
	var out []int64
	for dd := -d; dd <= d; dd++ {
		if k == 63 {
			// 2^63 does not exist: the extremes
			if dd <= 0 {
				out = append(out, math.MaxInt64+dd)
			}
			if dd >= 0 {
				out = append(out, math.MinInt64+dd)
			}
			continue
		}
		out = append(out, int64(1)<<k+dd, -(int64(1)<<k)+dd)
	}
	return out
}

func mant32() []uint32 {
	var m []uint32
	for i := uint32(0); i < 23; i++ {
		m = append(m, 1<<i, (1<<23-1)^(1<<i))
	}
	m = append(m, 0, 1<<23-1, 0x2aaaaa, 0x555555, 0x400001, 0x3fffff, 0x123456, 0x7edcba, 3, 5, 0x7ffffe, 0x600000, 0x200000, 0x100001, 0x000ff0, 0x7f0000, 0x00ffff, 0x40ffff)
	return m
}

func mant64() []uint64 {
	var m []uint64
	for i := uint64(0); i < 52; i += 2 {
		m = append(m, 1<<i, (1<<52-1)^(1<<i))
	}
	m = append(m, 0, 1<<52-1, 0xaaaaaaaaaaaaa, 0x5555555555555, 0x8000000000001, 0x7ffffffffffff, 0x123456789abcd, 0xfedcba9876543, 3, 5, 1<<51|1<<50, 1<<29, 1<<28, 1<<29-1)
	return m
}

type intT interface{ int16 | int32 | int64 }

var rbuf = avro.NewReadBuf(nil)

func intRange[T intT](c *fw.Ctx, name string, codec avro.IntCodec[T], lo, hi int64) {
	n := int64(0)
	for v := lo; ; v++ {
		intOne[T](c, name, codec, v)
		n++
		if v == hi {
			break
		}
	}
}

func lenClass(n int) string { return fmt.Sprintf("varint%d", n) }

func intOne[T intT](c *fw.Ctx, name string, codec avro.IntCodec[T], v int64) {
	c.Eval(1)
	c.NontrivialN(1)
	want := ref.AppendLong(nil, v)
	x := T(v)
	w := avro.NewWriteBuf(make([]byte, 0, 16))
	codec.Write(w, unsafe.Pointer(&x))
	got := w.Bytes()
	if v == 8192 || v == -65 || v == 1<<40 {
		c.Sample(map[string]interface{}{"codec": name, "value": v, "wire_bytes": fmt.Sprintf("% x", got), "reference_bytes": fmt.Sprintf("% x", want)})
	}
	if string(got) != string(want) {
		c.Violation("wrong-bytes|"+name+"|"+lenClass(len(want)), fmt.Sprintf("%s %d encoded as %x, spec says %x", name, v, got, want), map[string]interface{}{"value": v, "got": fmt.Sprintf("%x", got), "want": fmt.Sprintf("%x", want)})
		return
	}
	// decode with every width
	decodeCheck[int16](c, "int16", avro.Int16Codec{}, want)
	decodeCheck[int32](c, "int32", avro.Int32Codec{}, want)
	decodeCheck[int64](c, "int64", avro.Int64Codec{}, want)
}

func fits[T intT](v int64) bool {
	var z T
	bits := uint(unsafe.Sizeof(z)) * 8
	lo, hi := -(int64(1) << (bits - 1)), int64(1)<<(bits-1)-1
	if bits == 64 {
		return true
	}
	return v >= lo && v <= hi
}

// decodeCheck offers b to IntCodec[T].Read and compares with the reference classification.
func decodeCheck[T intT](c *fw.Ctx, name string, codec avro.IntCodec[T], b []byte) {
	v, n, class := ref.ReadLong(b)
	var guard [3]T
	guard[0], guard[2] = 0x5a5a, 0x2b2b
	rbuf.Reset(b)
	err := codec.Read(rbuf, unsafe.Pointer(&guard[1]))
	if guard[0] != 0x5a5a || guard[2] != 0x2b2b {
		c.Violation("oob-write|"+name, fmt.Sprintf("decoding %x into %s modified adjacent memory", b, name), fmt.Sprintf("%x", b))
	}
	switch {
	case class != ref.VOK:
		if err == nil || rbuf.Len() < 0 {
			c.Violation(fmt.Sprintf("missing-error|%s|varint-class%d", name, class), fmt.Sprintf("malformed varint %x (class %d) decoded into %s as %d without error", b, class, name, guard[1]), fmt.Sprintf("%x", b))
		}
	case !fits[T](v):
		if err == nil {
			c.Violation("missing-error|"+name+"|out-of-range", fmt.Sprintf("value %d does not fit %s but %x decoded without error to %d", v, name, b, guard[1]), fmt.Sprintf("%x", b))
		}
	default:
		if err != nil {
			c.Violation("spurious-error|"+name+"|"+lenClass(n), fmt.Sprintf("valid varint %x (=%d) rejected by %s: %v", b, v, name, err), fmt.Sprintf("%x", b))
		} else if int64(guard[1]) != v {
			c.Violation("wrong-value|"+name+"|"+lenClass(n), fmt.Sprintf("varint %x decoded into %s as %d, spec says %d", b, name, guard[1], v), fmt.Sprintf("%x", b))
		} else if rbuf.Len() != len(b)-n {
			c.Violation("wrong-consumed|"+name+"|"+lenClass(n), fmt.Sprintf("varint %x: consumed %d bytes, spec says %d", b, len(b)-rbuf.Len(), n), fmt.Sprintf("%x", b))
		}
	}
}

func skipCheck(c *fw.Ctx, b []byte) {
	_, n, class := ref.ReadLong(b)
	rbuf.Reset(b)
	err := avro.Int64Codec{}.Skip(rbuf)
	if class != ref.VOK {
		if err == nil {
			c.Violation(fmt.Sprintf("missing-error|skip|varint-class%d", class), fmt.Sprintf("malformed varint %x skipped without error", b), fmt.Sprintf("%x", b))
		}
		return
	}
	if err != nil {
		c.Violation("spurious-error|skip", fmt.Sprintf("valid varint %x: skip failed: %v", b, err), fmt.Sprintf("%x", b))
	} else if rbuf.Len() != len(b)-n {
		c.Violation("wrong-consumed|skip", fmt.Sprintf("varint %x: skip consumed %d bytes, spec says %d", b, len(b)-rbuf.Len(), n), fmt.Sprintf("%x", b))
	}
}

func float32One(c *fw.Ctx, bits uint32) {
	c.Eval(1)
	c.NontrivialN(1)
	f := math.Float32frombits(bits)
	w := avro.NewWriteBuf(make([]byte, 0, 16))
	avro.FloatCodec{}.Write(w, unsafe.Pointer(&f))
	got := w.Bytes()
	want := []byte{byte(bits), byte(bits >> 8), byte(bits >> 16), byte(bits >> 24)}
	if string(got) != string(want) {
		c.Violation("wrong-bytes|float", fmt.Sprintf("float32 bits %08x encoded as %x, spec says %x", bits, got, want), bits)
		return
	}
	var g [3]float32
	g[0], g[2] = 1.5, -2.5
	rbuf.Reset(want)
	if err := (avro.FloatCodec{}).Read(rbuf, unsafe.Pointer(&g[1])); err != nil || math.Float32bits(g[1]) != bits || g[0] != 1.5 || g[2] != -2.5 || rbuf.Len() != 0 {
		c.Violation("wrong-value|float", fmt.Sprintf("float32 bits %08x read back as %08x err=%v", bits, math.Float32bits(g[1]), err), bits)
	}
	// float32 carried as double
	w2 := avro.NewWriteBuf(make([]byte, 0, 16))
	avro.Float32DoubleCodec{}.Write(w2, unsafe.Pointer(&f))
	d := float64(f)
	db := math.Float64bits(d)
	var wantD [8]byte
	for i := 0; i < 8; i++ {
		wantD[i] = byte(db >> (8 * uint(i)))
	}
	isNaN := f != f
	if !isNaN && string(w2.Bytes()) != string(wantD[:]) {
		c.Violation("wrong-bytes|float32-as-double", fmt.Sprintf("float32 bits %08x as double encoded as %x, expected %x", bits, w2.Bytes(), wantD), bits)
		return
	}
	if len(w2.Bytes()) != 8 {
		c.Violation("wrong-bytes|float32-as-double|length", fmt.Sprintf("float32 as double wrote %d bytes", len(w2.Bytes())), bits)
		return
	}
	g[1] = 7
	rbuf.Reset(w2.Bytes())
	err := (avro.Float32DoubleCodec{}).Read(rbuf, unsafe.Pointer(&g[1]))
	ok := err == nil && g[0] == 1.5 && g[2] == -2.5 && rbuf.Len() == 0
	if isNaN {
		ok = ok && g[1] != g[1]
	} else {
		ok = ok && math.Float32bits(g[1]) == bits
	}
	if !ok {
		c.Violation("wrong-value|float32-as-double", fmt.Sprintf("float32 bits %08x via double read back as %08x err=%v", bits, math.Float32bits(g[1]), err), bits)
	}
}

func float64One(c *fw.Ctx, bits uint64) {
	c.Eval(1)
	c.NontrivialN(1)
	f := math.Float64frombits(bits)
	w := avro.NewWriteBuf(make([]byte, 0, 16))
	avro.DoubleCodec{}.Write(w, unsafe.Pointer(&f))
	var want [8]byte
	for i := 0; i < 8; i++ {
		want[i] = byte(bits >> (8 * uint(i)))
	}
	if string(w.Bytes()) != string(want[:]) {
		c.Violation("wrong-bytes|double", fmt.Sprintf("float64 bits %016x encoded as %x, spec says %x", bits, w.Bytes(), want), bits)
		return
	}
	var g [3]float64
	g[0], g[2] = 1.5, -2.5
	rbuf.Reset(want[:])
	if err := (avro.DoubleCodec{}).Read(rbuf, unsafe.Pointer(&g[1])); err != nil || math.Float64bits(g[1]) != bits || g[0] != 1.5 || g[2] != -2.5 || rbuf.Len() != 0 {
		c.Violation("wrong-value|double", fmt.Sprintf("float64 bits %016x read back as %016x err=%v", bits, math.Float64bits(g[1]), err), bits)
	}
}

func boolAll(c *fw.Ctx) {
	for _, v := range []bool{false, true} {
		c.Eval(1)
		c.NontrivialN(1)
		w := avro.NewWriteBuf(nil)
		avro.BoolCodec{}.Write(w, unsafe.Pointer(&v))
		want := byte(0)
		if v {
			want = 1
		}
		if len(w.Bytes()) != 1 || w.Bytes()[0] != want {
			c.Violation("wrong-bytes|boolean", fmt.Sprintf("bool %v encoded as %x", v, w.Bytes()), v)
		}
		var g [3]byte
		g[0], g[2] = 0xaa, 0xbb
		rbuf.Reset([]byte{want})
		err := (avro.BoolCodec{}).Read(rbuf, unsafe.Pointer(&g[1]))
		if err != nil || g[1] != want || g[0] != 0xaa || g[2] != 0xbb {
			c.Violation("wrong-value|boolean", fmt.Sprintf("bool %v read back as %d err=%v", v, g[1], err), v)
		}
	}
	// truncated float/double/bool inputs
	for l := 0; l < 8; l++ {
		b := make([]byte, l)
		c.Eval(1)
		var g [3]float64
		rbuf.Reset(b)
		if err := (avro.DoubleCodec{}).Read(rbuf, unsafe.Pointer(&g[1])); err == nil {
			c.Violation("missing-error|double|truncated", fmt.Sprintf("%d-byte input decoded as double without error", l), l)
		}
		if l < 4 {
			var h [3]float32
			rbuf.Reset(b)
			if err := (avro.FloatCodec{}).Read(rbuf, unsafe.Pointer(&h[1])); err == nil {
				c.Violation("missing-error|float|truncated", fmt.Sprintf("%d-byte input decoded as float without error", l), l)
			}
		}
	}
}

var spare = make([]byte, 64)

func decodeOne(c *fw.Ctx, b []byte) {
	decodeOneExact(c, b)
	// the same candidate as a prefix of a larger buffer: bytes beyond len() are not input
	for i := range spare {
		spare[i] = 0x05
	}
	copy(spare, b)
	decodeOneExact(c, spare[:len(b)])
}

func decodeOneExact(c *fw.Ctx, b []byte) {
	c.Eval(1)
	c.NontrivialN(1)
	if len(b) == 10 && b[0] == 0xff && b[9] == 0x7f && b[8] == 0xff {
		v, n, cl := ref.ReadLong(b)
		c.Sample(map[string]interface{}{"candidate_varint": fmt.Sprintf("% x", b), "reference_says": map[string]interface{}{"value": v, "consumed": n, "class(0=ok,1=truncated,2=too long,3=overflow)": int(cl)}})
	}
	decodeCheck[int16](c, "int16", avro.Int16Codec{}, b)
	decodeCheck[int32](c, "int32", avro.Int32Codec{}, b)
	decodeCheck[int64](c, "int64", avro.Int64Codec{}, b)
	skipCheck(c, b)
}

func decodeFull(c *fw.Ctx, l int, first int) {
	b := make([]byte, l)
	var rec func(i int)
	rec = func(i int) {
		if i == l {
			decodeOne(c, b)
			return
		}
		if i == 0 && first >= 0 {
			b[0] = byte(first)
			rec(1)
			return
		}
		for v := 0; v < 256; v++ {
			b[i] = byte(v)
			rec(i + 1)
		}
	}
	rec(0)
}

// decodeAlpha: strings of length l whose first byte is alpha[first], the
// last `free` positions range over the whole alphabet, and the positions in
// between over the continuation bytes {0x80, 0xff} only.
func decodeAlpha(c *fw.Ctx, alpha []byte, l, free, first int) {
	b := make([]byte, l)
	b[0] = alpha[first]
	if free >= l {
		free = l - 1
	}
	var rec func(i int)
	rec = func(i int) {
		if i == l {
			decodeOne(c, b)
			return
		}
		if i < l-free {
			if alpha[first] < 0x80 { // a terminated first byte: the middle may be anything; use two symbols
				for _, v := range []byte{0x80, 0x01} {
					b[i] = v
					rec(i + 1)
				}
				return
			}
			for _, v := range []byte{0x80, 0xff} {
				b[i] = v
				rec(i + 1)
			}
			return
		}
		for _, v := range alpha {
			b[i] = v
			rec(i + 1)
		}
	}
	rec(1)
}

func init() {
	fw.Register(&fw.Check{
		ID:    "C17",
		Level: "exploration",
		Rule: func(tier string) string {
			if tier == "thorough" {
				return "exhaustive enumeration: every int16, every int32 (2^32), int64 2^k±65536 for every k, every float32 bit pattern through FloatCodec and Float32DoubleCodec, float64 sign×exponent×66 mantissas, every byte string of length<=3 and length 4..11 over {00,01,7f,80,ff} as varint input to Int16/Int32/Int64 Read and Skip; plus codec SELECTION through Schema.Codec: every primitive Go type, plain and as a defined type (as a field, as an array item, as three pointer fields of one record under [null,X], and inside the library's null.Int/Float/Bool/String wrappers), under every schema primitive that may carry it, inside struct{F T; G T} and as array items in struct{F []T; G T}, bytes and decoded values compared bit-exactly; each value is a distinct case; non-trivial = reached the byte-for-byte / value comparison against the reference zig-zag codec"
			}
			return "exhaustive enumeration: every int16, every int32 with |v|<2^21 plus ±1024 around every power of two, int64 2^k±1024 for every k, float32 sign×exponent×64 mantissas through FloatCodec and Float32DoubleCodec, float64 sign×exponent×66 mantissas, every byte string of length<=2 and structured strings of length 4..11 over {00,01,7f,80,ff} as varint input to Int16/Int32/Int64 Read and Skip; plus codec SELECTION through Schema.Codec: every primitive Go type, plain and as a defined type, under every schema primitive that may carry it, inside struct{F T; G T} and as array items in struct{F []T; G T}, bytes and decoded values compared bit-exactly; each value is a distinct case; non-trivial = reached the comparison against the reference zig-zag codec"
		},
		Assumptions: []string{
			"reference zig-zag varint codec written from the Avro 1.8 spec text (ref.AppendLong/ReadLong) is correct; it is self-checked at setup",
			"float32 carried as double: NaN maps to NaN (payload/quiet bit not compared; recorded interpretation), every non-NaN pattern bit-exact",
			"int64 and float64 domains are covered on structured boundary sets, not completely",
		},
		Init:     func(c *fw.Ctx) { reg.Init() },
		NumCases: func(tier string) int { return len(tasks(tier)) },
		RunCase: func(c *fw.Ctx, idx int) {
			t := tasks(c.Tier)[idx]
			c.Begin("c17", t.name)
			if idx%37 == 0 {
				c.Sample(map[string]interface{}{"task": t.name})
			}
			t.run(c)
		},
		Budget: func(tier string) time.Duration {
			if tier == "thorough" {
				return 40 * time.Minute
			}
			return 5 * time.Minute
		},
	})
}

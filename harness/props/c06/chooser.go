package c06

import "verifharness/explore"

// alwaysOne returns a chooser that answers 0 for block sizes (one block) and 1 for size prefixes.
func alwaysOne() *explore.Chooser {
	// a long prefix of ones is out of range for 'blocksize' points of arity 1, which are never asked
	// (MaxBlocks=1 suppresses them); every asked point is a binary 'sizeprefix' choice.
	pre := make([]int, 64)
	for i := range pre {
		pre[i] = 1
	}
	return explore.NewChooser(pre)
}

// Package c06: malformed input yields errors, never panics, hangs or runaway allocation.
package c06

import (
	"encoding/binary"
	"fmt"
	"math"
	"reflect"
	"runtime"
	"runtime/metrics"
	"strings"
	"time"
	"unsafe"

	"github.com/philpearl/avro"
	"github.com/unravelin/null/v5"

	"verifharness/filedrv"
	"verifharness/fw"
	"verifharness/ref"
	"verifharness/reg"
	"verifharness/univ"
)

// ---- allocation measurement

var sample = []metrics.Sample{{Name: "/gc/heap/allocs:bytes"}}

func allocated() uint64 {
	metrics.Read(sample)
	return sample[0].Value.Uint64()
}

const allocSlack = 1 << 20

func allocBound(inputLen int) uint64 { return allocSlack + 1024*uint64(inputLen) }

// guard runs f on input; reports panics and runaway allocation. entry names the entry point.
var budgetNoted bool

func guard(c *fw.Ctx, entry, locus, mut string, input []byte, f func()) {
	// the budget is honoured inside cases too (thorough-tier cases enumerate millions of inputs each): once it has
	// run out the remaining inputs are skipped and the run says so (exhaustive:false), it never fails for that
	if c.Expired() {
		if !budgetNoted {
			budgetNoted = true
			c.NotExhaustive("budget ran out inside a case: remaining inputs of the running cases were skipped")
		}
		c.Count("inputs_skipped_after_budget", 1)
		return
	}
	c.Eval(1)
	c.BeginBytes(entry+"|"+locus+"|"+mut, entry+" "+locus+" "+mut, input)
	before := allocated()
	pan, site := run(f)
	delta := allocated() - before
	if pan != nil {
		c.Violation("panic:"+fw.PanicClass(pan)+"@"+site+"|"+entry+"|"+locus+"|"+mut, fmt.Sprintf("%s on %s: panic %v at %s; input %x (%s)", entry, locus, pan, site, clipB(input), mut), map[string]interface{}{"entry": entry, "target": locus, "mutation": mut, "input_hex": fmt.Sprintf("%x", clipB(input)), "input_len": len(input)})
		return
	}
	// a real runaway allocation is a function of the input and repeats; what the meter shows once can include
	// allocation that belongs to nobody's call (pool refills after a collection, runtime bookkeeping): an excess is
	// believed only if the call exceeds the bound three times in a row (the smallest reading counts)
	for r := 0; r < 2 && delta > allocBound(len(input)); r++ {
		before = allocated()
		run(f)
		if d := allocated() - before; d < delta {
			delta = d
		}
	}
	if delta > allocBound(len(input)) {
		c.Violation("runaway-allocation|"+entry+"|"+locus+"|"+mut, fmt.Sprintf("%s on %s allocated %d bytes for a %d-byte input (bound %d); input %x (%s)", entry, locus, delta, len(input), allocBound(len(input)), clipB(input), mut), map[string]interface{}{"entry": entry, "target": locus, "mutation": mut, "input_hex": fmt.Sprintf("%x", clipB(input)), "allocated": delta})
	}
}

func run(f func()) (pan interface{}, site string) {
	defer func() {
		if r := recover(); r != nil {
			pan, site = r, fw.PanicSite(3)
		}
	}()
	f()
	return nil, ""
}

func clipB(b []byte) []byte {
	if len(b) > 96 {
		return b[:96]
	}
	return b
}

// ---- codecs under test

type codecCase struct {
	node   univ.SNode
	rs     *ref.Schema
	read   avro.Codec
	skip   avro.Codec // built against a struct lacking the field: record skip path
	typ    reflect.Type
	datums []ref.Datum
}

var codecMemo = map[string][]*codecCase{}

func codecCases(tier string) []*codecCase {
	if cs, ok := codecMemo[tier]; ok {
		return cs
	}
	reg.Init()
	d := 1
	if tier == "thorough" {
		d = 2
	}
	nodes := univ.DataSchemas(d, true)
	if tier != "thorough" {
		// a few depth-2 shapes
		for _, n := range univ.DataSchemas(2, false) {
			switch n.Chain {
			case "array>array>string", "map>array>long", "array>union01>record", "map>map>bytes", "union01>array>string", "rec>array>long", "array>rec>string", "union10>map>long", "array>map>union01>string":
				nodes = append(nodes, n)
			}
		}
	}
	nodes = append(nodes, univ.SNode{Schema: ref.Union(ref.Prim("null"), ref.Prim("long"), ref.Prim("string")), Chain: "union[null,long,string]"})
	var out []*codecCase
	for _, n := range nodes {
		rs := ref.Record("Top", ref.F("f", n.Schema))
		s, err := avro.SchemaFromString(rs.Print(nil))
		if err != nil {
			continue
		}
		cc := &codecCase{node: n, rs: rs}
		var ft reflect.Type
		switch n.Chain {
		case "union[null,long,string]":
			ft = nil
		default:
			ft = univ.Targets(n.Schema, false)[0]
		}
		if ft != nil {
			cc.typ = reflect.StructOf([]reflect.StructField{{Name: "F", Type: ft, Tag: `json:"f"`}})
			cc.read, err = s.Codec(reflect.New(cc.typ).Elem().Interface())
			if err != nil {
				cc.read = nil
			}
		}
		cc.skip, err = s.Codec(struct{}{})
		if err != nil {
			continue
		}
		switch n.Chain {
		case "union[null,long,string]":
			cc.datums = []ref.Datum{ref.DUnion(0, ref.DNull()), ref.DUnion(2, ref.DString("str")), ref.DUnion(1, ref.DLong(-77))}
		default:
			cc.datums = univ.Datums(n.Schema, false)
		}
		out = append(out, cc)
	}
	codecMemo[tier] = out
	return out
}

// zeroSizeFlood: for arrays whose items can encode to zero bytes a few input bytes legitimately
// declare an arbitrarily large number of items; such inputs are outside the proportionality claim
// (recorded interpretation) and are offered only by the dedicated solo task.
func zeroSizeFlood(input []byte) bool {
	i := 0
	for steps := 0; steps < 64; steps++ {
		cnt, n, cl := ref.ReadLong(input[i:])
		if cl != ref.VOK {
			return false
		}
		i += n
		if cnt == 0 {
			return false
		}
		if cnt > 1<<12 || cnt < -(1<<12) {
			return true
		}
		if cnt < 0 {
			_, n, cl = ref.ReadLong(input[i:])
			if cl != ref.VOK {
				return false
			}
			i += n
		}
	}
	return true
}

// zeroSizeItems: the schema chain starts with an array whose items can encode to zero bytes.
func zeroSizeItems(chain string) bool {
	return chain == "array>null" || chain == "array>emptyrec" || strings.HasPrefix(chain, "array>null") || strings.HasPrefix(chain, "array>emptyrec")
}

func (cc *codecCase) offer(c *fw.Ctx, mut string, input []byte) {
	if !zeroSizeItems(cc.node.Chain) && ref.HasZeroSizeArray(cc.node.Schema) && ref.HasLargeVarint(input, 1<<12) {
		// an array of zero-width items BELOW the top of the schema: which bytes a reader takes for its count depends
		// on how it treats everything before it (the readers differ on what they reject), so every input that holds
		// a large varint anywhere is withheld for these schemas — coarser than needed, never wrong
		c.Count("inputs_with_a_large_varint_for_schemas_with_nested_zero_size_arrays_not_offered", 1)
		return
	}
	if (zeroSizeItems(cc.node.Chain) && zeroSizeFlood(input)) || (ref.HasZeroSizeArray(cc.node.Schema) && ref.ZeroSizeFlood(cc.node.Schema, input, 1<<12)) {
		c.Count("zero_size_item_floods_not_offered", 1)
		return
	}
	if cc.read != nil {
		guard(c, "Codec.Read", cc.node.Chain, mut, input, func() {
			v := reflect.New(cc.typ).Elem()
			cc.read.Read(avro.NewReadBuf(input), unsafe.Pointer(v.UnsafeAddr()))
		})
	}
	guard(c, "Codec.Skip", cc.node.Chain, mut, input, func() {
		cc.skip.Skip(avro.NewReadBuf(input))
	})
}

// ---- mutation values for length / count / size / selector fields

type mval struct {
	name string
	enc  []byte
}

func mvals(truth int64) []mval {
	v := func(name string, x int64) mval { return mval{name, ref.AppendLong(nil, x)} }
	return []mval{
		v("0", 0), v("1", 1), v("-1", -1), v("2", 2), v("-2", -2), v("true+1", truth+1), v("true-1", truth-1), v("-true", -truth),
		v("2^21", 1<<21), v("-2^21", -(1 << 21)), v("2^22", 1<<22), v("2^31-1", math.MaxInt32), v("2^31", math.MaxInt32+1), v("2^32", 1<<32), v("2^40", 1<<40), v("-2^40", -(1 << 40)), v("2^62", 1<<62), v("maxint64", math.MaxInt64), v("minint64", math.MinInt64), v("minint64+1", math.MinInt64+1),
		{"10-byte-max-varint", []byte{0xff, 0xff, 0xff, 0xff, 0xff, 0xff, 0xff, 0xff, 0xff, 0x01}},
		{"11-byte-overflowing-varint", []byte{0xff, 0xff, 0xff, 0xff, 0xff, 0xff, 0xff, 0xff, 0xff, 0xff, 0x01}},
		{"truncated-varint", []byte{0x80}},
	}
}

func splice(b []byte, off, l int, repl []byte) []byte {
	out := make([]byte, 0, len(b)-l+len(repl))
	out = append(out, b[:off]...)
	out = append(out, repl...)
	return append(out, b[off+l:]...)
}

var byteRepl = []func(b byte) byte{
	func(byte) byte { return 0x00 }, func(byte) byte { return 0x7f }, func(byte) byte { return 0x80 }, func(byte) byte { return 0xff },
	func(b byte) byte { return b ^ 0x01 }, func(b byte) byte { return b ^ 0x80 },
}

// ---- tasks

type task struct {
	name string
	run  func(c *fw.Ctx)
}

var alpha8 = []byte{0x00, 0x01, 0x02, 0x03, 0x7f, 0x80, 0xfe, 0xff}

// rawStrings calls f with every byte string of length <= fullLen over all 256
// values and of length fullLen+1..alphaLen over the 8-symbol alphabet.
func rawStrings(fullLen, alphaLen int, f func(b []byte)) {
	for l := 0; l <= fullLen; l++ {
		b := make([]byte, l)
		var rec func(i int)
		rec = func(i int) {
			if i == l {
				f(b)
				return
			}
			for v := 0; v < 256; v++ {
				b[i] = byte(v)
				rec(i + 1)
			}
		}
		rec(0)
	}
	for l := fullLen + 1; l <= alphaLen; l++ {
		b := make([]byte, l)
		var rec func(i int)
		rec = func(i int) {
			if i == l {
				f(b)
				return
			}
			for _, v := range alpha8 {
				b[i] = v
				rec(i + 1)
			}
		}
		rec(0)
	}
}

func codecTasks(tier string) []task {
	var ts []task
	fullLen, alphaLen := 2, 5
	if tier == "thorough" {
		fullLen, alphaLen = 2, 6
	}
	for _, cc := range codecCases(tier) {
		cc := cc
		ts = append(ts, task{"raw-bytes " + cc.node.Chain, func(c *fw.Ctx) {
			n := 0
			rawStrings(fullLen, alphaLen, func(b []byte) {
				cc.offer(c, "raw", b)
				n++
			})
			c.NontrivialN(int64(n))
		}})
		ts = append(ts, task{"mutations " + cc.node.Chain, func(c *fw.Ctx) {
			n := 0
			for _, d := range cc.datums {
				maxEnc := int64(6)
				encs := 0
				ref.AllEncodings(cc.rs, ref.DRecord(d), 2, func(enc []byte, vec []int) {
					encs++
					if int64(encs) > maxEnc {
						return
					}
					var ann []ref.Annot
					e := &ref.Enc{Ann: &ann}
					_ = e
				})
				// annotate the default and the fully size-prefixed encodings
				for variant := 0; variant < 2; variant++ {
					var ann []ref.Annot
					var enc []byte
					if variant == 0 {
						e := &ref.Enc{Ann: &ann}
						enc = e.Encode(nil, cc.rs, ref.DRecord(d))
					} else {
						enc, ann = sizePrefixed(cc.rs, ref.DRecord(d))
						if enc == nil {
							continue
						}
					}
					for _, a := range ann {
						if a.Role == "payload" {
							continue
						}
						for _, m := range mvals(a.Val) {
							cc.offer(c, a.Role+"="+m.name, splice(enc, a.Off, a.Len, m.enc))
							n++
						}
					}
					for cut := 0; cut < len(enc); cut++ {
						cc.offer(c, "truncated", enc[:cut])
						n++
					}
					for i := range enc {
						for ri, r := range byteRepl {
							nb := r(enc[i])
							if nb == enc[i] {
								continue
							}
							m := append([]byte(nil), enc...)
							m[i] = nb
							cc.offer(c, fmt.Sprintf("byte-repl%d", ri), m)
							n++
						}
					}
					// a block's count and byte size mutated together (each alone is often clamped by the other)
					for i := 0; i+1 < len(ann); i++ {
						a, b := ann[i], ann[i+1]
						if a.Role != "count" || b.Role != "bsize" {
							continue
						}
						for _, ma := range mvals(a.Val) {
							for _, mb := range mvals(b.Val) {
								x := splice(enc, b.Off, b.Len, mb.enc)
								x = splice(x, a.Off, a.Len, ma.enc)
								cc.offer(c, "count="+ma.name+"&bsize="+mb.name, x)
								n++
							}
						}
					}
					if tier == "thorough" && len(ann) <= 6 {
						// double-field mutations
						for i, a := range ann {
							for j, b := range ann {
								if j <= i || a.Role == "payload" || b.Role == "payload" {
									continue
								}
								for _, ma := range mvals(a.Val) {
									for _, mb := range mvals(b.Val) {
										x := splice(enc, b.Off, b.Len, mb.enc) // later field first so offsets stay valid
										x = splice(x, a.Off, a.Len, ma.enc)
										cc.offer(c, a.Role+"="+ma.name+"&"+b.Role+"="+mb.name, x)
										n++
									}
								}
							}
						}
					}
				}
			}
			c.NontrivialN(int64(n))
			c.Sample(map[string]interface{}{"entry": "Codec.Read/Skip", "schema": cc.node.Schema.Print(nil), "mutated_inputs": n})
		}})
	}
	return ts
}

// sizePrefixed returns the encoding in which every collection is one block with a byte-size prefix.
func sizePrefixed(s *ref.Schema, d ref.Datum) ([]byte, []ref.Annot) {
	var out []byte
	var outAnn []ref.Annot
	found := false
	ref.AllEncodings(s, d, 1, func(enc []byte, vec []int) {
		all := len(vec) > 0
		for _, v := range vec {
			if v != 1 {
				all = false
			}
		}
		if all && !found {
			found = true
			// re-encode with annotations using the same vector
			out = append([]byte(nil), enc...)
		}
	})
	if !found {
		return nil, nil
	}
	// annotate by re-running with a chooser replaying "always 1" for sizeprefix
	var ann []ref.Annot
	e := &ref.Enc{Ch: alwaysOne(), Ann: &ann, MaxBlocks: 1}
	enc2 := e.Encode(nil, s, d)
	if string(enc2) != string(out) {
		return nil, nil
	}
	outAnn = ann
	return out, outAnn
}

// ---- container files

func fileTasks(tier string) []task {
	var ts []task
	fam := filedrv.Family(2)
	for _, f := range fam {
		f := f
		if len(f.Data) > 400 {
			continue
		}
		if f.SC.Name == "T0" {
			// zero-byte records: a block legitimately declares any number of them (zero-size flood, see assumptions)
			continue
		}
		ts = append(ts, task{"file-mutations " + f.Name, func(c *fw.Ctx) {
			n := 0
			offer := func(mut string, data []byte) {
				n++
				guard(c, "ReadFile", f.SC.Name+"/"+f.Codec, mut, data, func() {
					filedrv.Read(data, n%filedrv.NumModes, f.SC.Type, false, -1, nil)
				})
			}
			// every varint of the container framing
			type vf struct {
				role     string
				off, len int
				val      int64
			}
			var vfs []vf
			p, err := ref.ParseFile(f.Data)
			if err != nil {
				return
			}
			// metadata framing: re-walk the header
			i := 4
			rd := func(role string) int64 {
				v, nn, _ := ref.ReadLong(f.Data[i:])
				vfs = append(vfs, vf{role, i, nn, v})
				i += nn
				return v
			}
			cnt := rd("meta-count")
			for k := int64(0); k < cnt; k++ {
				kl := rd("meta-keylen")
				i += int(kl)
				vl := rd("meta-vallen")
				i += int(vl)
			}
			rd("meta-terminator")
			for _, b := range p.Blocks {
				v, nn, _ := ref.ReadLong(f.Data[b.Start:])
				vfs = append(vfs, vf{"block-count", b.Start, nn, v})
				v, nn, _ = ref.ReadLong(f.Data[b.SizeOff:])
				vfs = append(vfs, vf{"block-size", b.SizeOff, nn, v})
			}
			for _, x := range vfs {
				for _, m := range mvals(x.val) {
					offer(x.role+"="+m.name, splice(f.Data, x.off, x.len, m.enc))
				}
			}
			// the length a snappy block declares for its decompressed data (an unsigned varint at the start of the
			// compressed payload), in EVERY block: what the reader allocates must not follow it blindly — whatever
			// it has already read or allocated for earlier blocks
			if f.Codec == "snappy" {
				for bi, b := range p.Blocks {
					if b.PayloadEnd-b.PayloadStart < 5 {
						continue
					}
					_, nn := binary.Uvarint(f.Data[b.PayloadStart:])
					if nn <= 0 {
						continue
					}
					for _, dl := range []uint64{0, 1, 1 << 16, 1 << 20, 1 << 24, 1 << 28, 1 << 30, 1<<31 - 1, 1<<32 - 1, 1 << 40} {
						offer(fmt.Sprintf("snappy-declared-length-of-block-%d=%d", bi, dl), splice(f.Data, b.PayloadStart, nn, binary.AppendUvarint(nil, dl)))
					}
				}
			}
			for cut := 0; cut < len(f.Data); cut++ {
				offer("truncated", f.Data[:cut])
			}
			for pos := range f.Data {
				for ri, r := range byteRepl {
					nb := r(f.Data[pos])
					if nb == f.Data[pos] {
						continue
					}
					m := append([]byte(nil), f.Data...)
					m[pos] = nb
					offer(fmt.Sprintf("byte-repl%d", ri), m)
				}
			}
			// record-level mutations inside the (uncompressed) payload of null-codec files
			if f.Codec == "null" && len(f.Blocks) > 0 {
				for _, rec := range f.SC.Records[:1] {
					var ann []ref.Annot
					e := &ref.Enc{Ann: &ann}
					enc := e.Encode(nil, f.SC.Schema, rec)
					for _, a := range ann {
						if a.Role == "payload" {
							continue
						}
						for _, m := range mvals(a.Val) {
							payload := splice(enc, a.Off, a.Len, m.enc)
							data, _ := ref.WriteFile(f.Meta, "null", f.Sync, []ref.Block{{Count: 1, Payload: payload}})
							offer("record-"+a.Role+"="+m.name, data)
						}
					}
				}
			}
			c.NontrivialN(int64(n))
			c.Sample(map[string]interface{}{"entry": "ReadFile", "file": f.Name, "bytes": len(f.Data), "mutated_inputs": n})
		}})
	}
	// structural cases
	ts = append(ts, task{"file-structural", func(c *fw.Ctx) {
		n := 0
		sc := filedrv.Schemas()[1]
		schemaJSON := sc.Schema.Print(nil)
		payload := ref.Encode(sc.Schema, sc.Records[0])
		offer := func(mut string, data []byte) {
			n++
			guard(c, "ReadFile", "T1/structural", mut, data, func() { filedrv.Read(data, n%filedrv.NumModes, sc.Type, false, -1, nil) })
		}
		var sync [16]byte
		for _, codec := range []string{"", "null", "deflate", "snappy", "bzip2", "Null", "snappy "} {
			for _, with := range []bool{true, false} {
				meta := ref.StdMeta(schemaJSON, codec, with)
				// blocks whose raw bytes are 0..6 arbitrary bytes (snappy needs 4 checksum bytes; deflate needs a stream)
				for l := 0; l <= 6; l++ {
					for _, fill := range []byte{0x00, 0xff, 0x01} {
						raw := make([]byte, l)
						for i := range raw {
							raw[i] = fill
						}
						data := rawBlockFile(meta, sync, 1, raw)
						offer(fmt.Sprintf("codec=%q/%v raw-block-len=%d fill=%02x", codec, with, l, fill), data)
					}
				}
				data, _ := ref.WriteFile(meta, "null", sync, []ref.Block{{Count: 1, Payload: payload}})
				offer(fmt.Sprintf("codec=%q/%v null-payload", codec, with), data)
			}
		}
		// metadata: no schema; schema not JSON; schema of every malformed kind
		for _, sj := range []string{"", "{", "null", "123", `"array"`, `"map"`, `"fixed"`, `"record"`, `"enum"`, `"union"`, `{"type":"record"}`, `{"type":"array"}`, `{"type":"map"}`, `{"type":"fixed","size":-1}`, `{"type":"fixed"}`, `[]`, `[[]]`, `["null",["null","long"]]`, `{"type":"record","fields":[{"name":"A"}]}`, `{"type":"record","fields":[{"type":"long"}]}`, `{"type":"bogus"}`} {
			data, _ := ref.WriteFile(ref.StdMeta(sj, "null", true), "null", sync, []ref.Block{{Count: 1, Payload: payload}})
			offer("schema="+sj, data)
		}
		data, _ := ref.WriteFile(nil, "null", sync, []ref.Block{{Count: 1, Payload: payload}})
		offer("no-metadata", data)
		// raw strings as whole files and after a valid header
		hdr, _ := ref.WriteFile(ref.StdMeta(schemaJSON, "null", true), "null", sync, nil)
		rawStrings(1, 4, func(b []byte) {
			offer("raw-file", b)
			offer("raw-after-header", append(append([]byte(nil), hdr...), b...))
			offer("raw-after-magic", append([]byte{'O', 'b', 'j', 1}, b...))
		})
		c.NontrivialN(int64(n))
		c.Sample(map[string]interface{}{"entry": "ReadFile", "kind": "structural", "inputs": n})
	}})
	return ts
}

func rawBlockFile(meta []ref.MetaEntry, sync [16]byte, count int64, raw []byte) []byte {
	b, _ := ref.WriteFile(meta, "null", sync, nil)
	b = ref.AppendLong(b, count)
	b = ref.AppendLong(b, int64(len(raw)))
	b = append(b, raw...)
	return append(b, sync[:]...)
}

// ---- schema JSON and decoder construction

type anyStruct struct {
	A int64             `json:"a"`
	F []byte            `json:"f"`
	S string            `json:"s"`
	L []string          `json:"l"`
	M map[string]int64  `json:"m"`
	R struct{ X int64 } `json:"r"`
	X [4]byte           `json:"x"`
	// fields of types with REGISTERED builders (time and null packages): whatever schema the document assigns
	// to them reaches those builders too
	T  time.Time   `json:"t"`
	PT *time.Time  `json:"pt"`
	N  null.Int    `json:"n"`
	NS null.String `json:"ns"`
	NT null.Time   `json:"nt"`
	NB null.Bool   `json:"nb"`
	NF null.Float  `json:"nf"`
}

func schemaTasks(tier string) []task {
	reg.Init()
	docs := []string{
		`"long"`, `{"type":"long","logicalType":"timestamp-micros"}`, `["null","string"]`,
		`{"type":"record","name":"r","namespace":"n","fields":[{"name":"a","type":"long"},{"name":"f","type":"bytes"},{"name":"l","type":{"type":"array","items":"string"}},{"name":"m","type":{"type":"map","values":"long"}},{"name":"x","type":{"type":"fixed","name":"fx","size":4}},{"name":"r","type":{"type":"record","name":"in","fields":[{"name":"X","type":["null","long"]}]}}]}`,
		`{"type":"enum","name":"e","symbols":["A","B"]}`, `{"type":"int","logicalType":"date"}`, `["null",{"type":"long","logicalType":"timestamp-millis"}]`, `{"type":"array","items":{"type":"map","values":["null",{"type":"fixed","name":"f","size":2}]}}`,
	}
	typeNames := []string{"null", "boolean", "int", "long", "float", "double", "bytes", "string", "record", "enum", "array", "map", "union", "fixed", "", "bogus"}
	var ts []task
	for di, doc := range docs {
		doc := doc
		ts = append(ts, task{fmt.Sprintf("schema-json-%d", di), func(c *fw.Ctx) {
			n := 0
			seen := map[string]bool{}
			offer := func(mut, m string) {
				if seen[m] {
					return
				}
				seen[m] = true
				n++
				guard(c, "SchemaFromString+Schema.Codec", "schema-json", mut, []byte(m), func() {
					s, err := avro.SchemaFromString(m)
					if err != nil {
						return
					}
					s.Codec(anyStruct{})
					s.Codec(&anyStruct{})
					s.Codec(struct{}{})
					// also as the schema of a record field, so non-record types reach their builders with a Go type
					wrapped := avro.Schema{Type: "record", Object: &avro.SchemaObject{Name: "w", Fields: []avro.SchemaRecordField{{Name: "a", Type: s}, {Name: "f", Type: s}, {Name: "l", Type: s}, {Name: "m", Type: s}, {Name: "x", Type: s}, {Name: "r", Type: s}, {Name: "zz", Type: s}}}}
					if codec, err := wrapped.Codec(anyStruct{}); err == nil {
						var v anyStruct
						codec.Read(avro.NewReadBuf([]byte{2, 2, 2, 2, 2, 2, 2, 2, 2, 2, 2, 2, 2, 2, 2, 2}), unsafe.Pointer(&v))
						codec.Skip(avro.NewReadBuf([]byte{2, 2, 2, 2, 2, 2, 2, 2, 2, 2, 2, 2, 2, 2, 2, 2}))
					}
					// and as the schema of ONE field at a time (a record of several fields is refused at the first
					// field the schema does not suit, so the later builders would never see it)
					for _, fn := range []string{"a", "f", "s", "l", "m", "r", "x", "t", "pt", "n", "ns", "nt", "nb", "nf"} {
						one := avro.Schema{Type: "record", Object: &avro.SchemaObject{Name: "w1", Fields: []avro.SchemaRecordField{{Name: fn, Type: s}}}}
						if codec, err := one.Codec(anyStruct{}); err == nil {
							var v anyStruct
							codec.Read(avro.NewReadBuf([]byte{2, 2, 2, 2, 2, 2, 2, 2}), unsafe.Pointer(&v))
							codec.Skip(avro.NewReadBuf([]byte{2, 2, 2, 2, 2, 2, 2, 2}))
						}
					}
					s.Marshal()
				})
			}
			offer("intact", doc)
			for i := 0; i <= len(doc); i++ {
				offer("truncated", doc[:i])
			}
			for i := 0; i < len(doc); i++ {
				if strings.ContainsRune(`{}[]:,"`, rune(doc[i])) {
					offer("token-deleted", doc[:i]+doc[i+1:])
					offer("token-duplicated", doc[:i]+doc[i:i+1]+doc[i:])
				}
				for _, r := range []string{"0", "-1", "null", "{}", "[]", `"`, "\x00", "\xff"} {
					offer("char-replaced", doc[:i]+r+doc[i+1:])
				}
			}
			// every type name replaced by every other type name (string form and object form)
			for _, from := range typeNames {
				if from == "" {
					continue
				}
				for _, to := range typeNames {
					offer("type-renamed", strings.Replace(doc, `"`+from+`"`, `"`+to+`"`, 1))
					offer("type-renamed-all", strings.ReplaceAll(doc, `"`+from+`"`, `"`+to+`"`))
				}
			}
			// attributes removed / given wrong JSON types
			for _, key := range []string{"type", "name", "fields", "items", "values", "size", "symbols", "namespace", "logicalType"} {
				for _, val := range []string{"null", "-1", "9223372036854775807", "1e400", `"x"`, "[]", "{}", "true", `[1,"a",{}]`, `{"type":"long"}`} {
					idx := strings.Index(doc, `"`+key+`":`)
					if idx < 0 {
						continue
					}
					// replace the value that follows the key up to the next , or } at depth 0
					start := idx + len(key) + 3
					end := valueEnd(doc, start)
					offer("attr-"+key+"="+val, doc[:start]+val+doc[end:])
				}
				offer("attr-"+key+"-renamed", strings.Replace(doc, `"`+key+`":`, `"x`+key+`":`, 1))
			}
			c.NontrivialN(int64(n))
			c.Sample(map[string]interface{}{"entry": "SchemaFromString+Schema.Codec", "base_document": doc, "mutated_documents": n})
		}})
	}
	ts = append(ts, task{"schema-json-raw", func(c *fw.Ctx) {
		n := 0
		alpha := []string{"{", "}", "[", "]", ":", ",", `"`, `"type"`, `"array"`, `"map"`, `"fixed"`, `"record"`, `"long"`, "null", "1", `"fields"`, `"items"`, `"size"`, " "}
		maxLen := 4
		if tier == "thorough" {
			maxLen = 5
		}
		var rec func(cur string, l int)
		rec = func(cur string, l int) {
			n++
			guard(c, "SchemaFromString+Schema.Codec", "schema-json", "token-strings", []byte(cur), func() {
				s, err := avro.SchemaFromString(cur)
				if err != nil {
					return
				}
				s.Codec(anyStruct{})
				wrapped := avro.Schema{Type: "record", Object: &avro.SchemaObject{Fields: []avro.SchemaRecordField{{Name: "a", Type: s}, {Name: "l", Type: s}, {Name: "m", Type: s}, {Name: "x", Type: s}, {Name: "q", Type: s}, {Name: "t", Type: s}, {Name: "pt", Type: s}, {Name: "n", Type: s}, {Name: "nt", Type: s}, {Name: "nf", Type: s}}}}
				wrapped.Codec(anyStruct{})
			})
			if l == maxLen {
				return
			}
			for _, a := range alpha {
				rec(cur+a, l+1)
			}
		}
		rec("", 0)
		c.NontrivialN(int64(n))
	}})
	return ts
}

func valueEnd(doc string, start int) int {
	depth := 0
	inStr := false
	for i := start; i < len(doc); i++ {
		ch := doc[i]
		if inStr {
			if ch == '\\' {
				i++
			} else if ch == '"' {
				inStr = false
			}
			continue
		}
		switch ch {
		case '"':
			inStr = true
		case '{', '[':
			depth++
		case '}', ']':
			if depth == 0 {
				return i
			}
			depth--
		case ',':
			if depth == 0 {
				return i
			}
		}
	}
	return len(doc)
}

// ---- timestamp text

type tt struct {
	T time.Time `json:"t"`
}

func timeTasks(tier string) []task {
	return []task{{"timestamp-text", func(c *fw.Ctx) {
		reg.Init()
		s, _ := avro.SchemaFromString(`{"type":"record","name":"r","fields":[{"name":"t","type":"string"}]}`)
		codec, err := s.Codec(tt{})
		if err != nil {
			c.Violation("build-refused|time-string", err.Error(), nil)
			return
		}
		n := 0
		offer := func(mut string, text []byte) {
			n++
			in := ref.AppendLong(nil, int64(len(text)))
			in = append(in, text...)
			guard(c, "timestamp", "string>time.Time", mut, in, func() {
				var v tt
				codec.Read(avro.NewReadBuf(in), unsafe.Pointer(&v))
			})
		}
		rawStrings(2, 4, func(b []byte) { offer("raw", b) })
		valid := []string{"2006-01-02T13:37:42Z", "2006-01-02T13:37:42.326876123Z", "2006-01-02T13:37:42,326+08:00", "2006-01-02T13:37:42-08:21", "2006-01-02", "1969-12-31T23:59:59.5-00:01"}
		alpha := "09-:T.,Z+x /\x00\xff"
		for _, v := range valid {
			for i := 0; i <= len(v); i++ {
				offer("truncated", []byte(v[:i]))
				for _, tail := range []string{".", ",", "+", "-", ":", "Z", ".5", "+0", "+08", "+08:", "+08:0", "ZZ", ".Z", ",+"} {
					offer("truncated+tail", []byte(v[:i]+tail))
				}
			}
			for i := 0; i < len(v); i++ {
				offer("char-deleted", []byte(v[:i]+v[i+1:]))
				offer("char-duplicated", []byte(v[:i]+v[i:i+1]+v[i:]))
				for j := 0; j < len(alpha); j++ {
					offer("char-substituted", []byte(v[:i]+alpha[j:j+1]+v[i+1:]))
					offer("char-inserted", []byte(v[:i]+alpha[j:j+1]+v[i:]))
				}
			}
			if len(v) > 19 {
				for i := 19; i < len(v); i++ {
					for j := i + 1; j < len(v); j++ {
						for a := 0; a < len(alpha); a++ {
							for b := 0; b < len(alpha); b++ {
								x := []byte(v)
								x[i], x[j] = alpha[a], alpha[b]
								offer("two-chars-substituted", x)
							}
						}
					}
				}
			}
		}
		// length field of the string itself
		for _, m := range mvals(20) {
			in := append(append([]byte(nil), m.enc...), "2006-01-02T13:37:42Z"...)
			n++
			guard(c, "timestamp", "string>time.Time", "len="+m.name, in, func() {
				var v tt
				codec.Read(avro.NewReadBuf(in), unsafe.Pointer(&v))
			})
		}
		c.NontrivialN(int64(n))
		c.Sample(map[string]interface{}{"entry": "timestamp text (string field -> time.Time)", "inputs": n})
	}}}
}

var memo = map[string][]task{}

const soloName = "solo: array of null with a huge declared count"

// ---- inputs that are large in ONE dimension (everything else in this check is small in all of them): collections
// made of very many tiny blocks, and schemas nested very deeply. Both are legal; time and stack must stay linear.

type manyT struct {
	L []int64          `json:"l"`
	M map[string]int64 `json:"m"`
	Z int64            `json:"z"`
}

func scaleTasks(tier string) []task {
	var ts []task
	counts := []int{1000, 100000, 8000000}
	for _, kind := range []string{"array", "map"} {
		for _, sized := range []bool{false, true} {
			kind, sized := kind, sized
			ts = append(ts, task{fmt.Sprintf("many-tiny-blocks %s sized=%v", kind, sized), func(c *fw.Ctx) {
				schema := `{"type":"record","name":"m","fields":[{"name":"l","type":{"type":"array","items":"long"}},{"name":"z","type":"long"}]}`
				item := []byte{2} // long 1
				if kind == "map" {
					schema = `{"type":"record","name":"m","fields":[{"name":"m","type":{"type":"map","values":"long"}},{"name":"z","type":"long"}]}`
					item = []byte{2, 'k', 2} // key "k", long 1
				}
				s, err := avro.SchemaFromString(schema)
				if err != nil {
					c.HarnessError(err.Error())
					return
				}
				readC, err1 := s.Codec(manyT{})
				skipC, err2 := s.Codec(struct {
					Z int64 `json:"z"`
				}{})
				if err1 != nil || err2 != nil {
					c.HarnessError(fmt.Sprint(err1, err2))
					return
				}
				for _, n := range counts {
					var in []byte
					for i := 0; i < n; i++ {
						if sized {
							in = append(in, 1) // count -1
							in = append(in, byte(2*len(item)))
						} else {
							in = append(in, 2) // count 1
						}
						in = append(in, item...)
					}
					in = append(in, 0, 10) // end of collection, z = 5
					mut := fmt.Sprintf("%d-one-item-blocks", n)
					c.NontrivialN(3)
					guard(c, "Codec.Read", kind+">long", mut, in, func() {
						var v manyT
						readC.Read(avro.NewReadBuf(in), unsafe.Pointer(&v))
					})
					guard(c, "Codec.Read(skip path)", kind+">long", mut, in, func() {
						var v struct {
							Z int64 `json:"z"`
						}
						if err := skipC.Read(avro.NewReadBuf(in), unsafe.Pointer(&v)); err == nil && v.Z != 5 {
							panic(fmt.Sprintf("skip path lost its place: z=%d", v.Z))
						}
					})
					guard(c, "Codec.Skip", kind+">long", mut, in, func() { readC.Skip(avro.NewReadBuf(in)) })
				}
				c.Sample(map[string]interface{}{"entry": "Codec.Read/Skip", "kind": "many tiny blocks", "collection": kind, "size_prefixed": sized, "block_counts": counts})
			}})
		}
	}
	// "memory it allocates stays proportional to the size of the input" as a SCALING law, whatever the constant: one
	// file whose single block (or whose one metadata value) is 1, 4, 16 MiB — each fourfold step in size may cost at
	// most eightfold in allocation (linear: 4, n·log n: about 4.4, quadratic: 16)
	ts = append(ts, task{"allocation-scaling", func(c *fw.Ctx) {
		type blobT struct {
			B []byte `json:"b"`
		}
		rs := ref.Record("blob", ref.F("b", ref.Prim("bytes")))
		mk := func(n int, where string, codec string) []byte {
			blob := make([]byte, n)
			x := uint32(n)
			for i := range blob {
				x = x*1664525 + 1013904223
				blob[i] = byte(x >> 24)
			}
			meta := ref.StdMeta(rs.Print(nil), codec, true)
			var blocks []ref.Block
			if where == "block" {
				blocks = []ref.Block{{Count: 1, Payload: ref.Encode(rs, ref.DRecord(ref.DBytes(string(blob))))}}
			} else {
				meta = append([]ref.MetaEntry{{Key: "user.blob", Val: blob}}, meta...)
				blocks = []ref.Block{{Count: 1, Payload: ref.Encode(rs, ref.DRecord(ref.DBytes("x")))}}
			}
			data, _ := ref.WriteFile(meta, codec, [16]byte{9, 9, 9}, blocks)
			return data
		}
		for _, where := range []string{"block", "metadata-value"} {
			for _, codec := range []string{"null", "deflate", "snappy"} {
				if where != "block" && codec != "null" {
					continue
				}
				for mode := 0; mode < 2; mode++ {
					var prev uint64
					prevN := 0
					for _, n := range []int{1 << 20, 4 << 20, 16 << 20} {
						data := mk(n, where, codec)
						c.Eval(1)
						c.NontrivialN(1)
						desc := fmt.Sprintf("ReadFile of a %s file whose %s holds %d bytes (reader %s)", codec, where, n, filedrv.ModeName(mode*2))
						c.BeginBytes("ReadFile|allocation-scaling|"+where, desc, nil)
						runtime.GC()
						before := allocated()
						records := 0
						var rerr error
						pan, site := run(func() {
							rerr = avro.ReadFile(&filedrv.Reader{Data: data, Mode: mode * 2}, blobT{}, func(val unsafe.Pointer, rb *avro.ResourceBank) error {
								records++
								rb.Close()
								return nil
							})
						})
						delta := allocated() - before
						det := map[string]interface{}{"entry": "ReadFile", "where": where, "codec": codec, "bytes": n, "allocated": delta}
						if pan != nil {
							c.Violation("panic:"+fw.PanicClass(pan)+"@"+site+"|ReadFile|allocation-scaling", fmt.Sprintf("panic %v — %s", pan, desc), det)
							break
						}
						if rerr != nil || records != 1 {
							c.Violation("valid-input-refused|ReadFile|allocation-scaling|"+where, fmt.Sprintf("err=%v records=%d — %s", rerr, records, desc), det)
							break
						}
						for r := 0; r < 2 && prev > 0 && delta > 8*prev; r++ {
							// believed only when it repeats (see guard)
							runtime.GC()
							before = allocated()
							run(func() {
								avro.ReadFile(&filedrv.Reader{Data: data, Mode: mode * 2}, blobT{}, func(val unsafe.Pointer, rb *avro.ResourceBank) error {
									rb.Close()
									return nil
								})
							})
							if d := allocated() - before; d < delta {
								delta = d
							}
						}
						if prev > 0 && delta > 8*prev {
							c.Violation("runaway-allocation|ReadFile|allocation-scaling|"+where, fmt.Sprintf("%d bytes allocated for %d input bytes, %d for %d: a fourfold input costs %.1f times the allocation (linear growth would cost 4) — %s", prev, prevN, delta, n, float64(delta)/float64(prev), desc), det)
							break
						}
						prev, prevN = delta, n
					}
				}
			}
		}
		c.Sample(map[string]interface{}{"entry": "ReadFile", "kind": "allocation scaling", "sizes": []int{1 << 20, 4 << 20, 16 << 20}})
	}})
	// valid files whose records differ wildly in how much they take from their bank (1, 1100, 3000 pointed-to items
	// and map entries), read with every bank closed at once so that the next record gets it back: no panic, no
	// error, every record delivered
	ts = append(ts, task{"uneven-records-recycled-banks", func(c *fw.Ctx) {
		type unevenT struct {
			L []*int64           `json:"l"`
			M map[string]*string `json:"m"`
		}
		rs := ref.Record("uneven", ref.F("l", ref.Array(ref.Union(ref.Prim("null"), ref.Prim("long")))), ref.F("m", ref.Map(ref.Union(ref.Prim("null"), ref.Prim("string")))))
		rec := func(nl, nm int) ref.Datum {
			var items, vals []ref.Datum
			var keys []string
			for i := 0; i < nl; i++ {
				items = append(items, ref.DUnion(1, ref.DLong(int64(i))))
			}
			for i := 0; i < nm; i++ {
				keys = append(keys, fmt.Sprintf("k%04d", i))
				vals = append(vals, ref.DUnion(1, ref.DString("v")))
			}
			return ref.DRecord(ref.DArray(items...), ref.DMap(keys, vals))
		}
		for si, seq := range [][][2]int{{{1100, 0}, {1, 0}, {1, 0}}, {{0, 3000}, {0, 1}, {0, 1}, {0, 3000}, {2, 2}}, {{1, 1}, {1025, 1025}, {1, 1}, {1024, 1024}, {3, 3}}, {{5000, 0}, {0, 0}, {1, 0}, {5000, 1}}} {
			for _, perBlock := range []bool{true, false} {
				var blocks []ref.Block
				var all []byte
				for _, r := range seq {
					e := ref.Encode(rs, rec(r[0], r[1]))
					if perBlock {
						blocks = append(blocks, ref.Block{Count: 1, Payload: e})
					}
					all = append(all, e...)
				}
				if !perBlock {
					blocks = []ref.Block{{Count: int64(len(seq)), Payload: all}}
				}
				data, _ := ref.WriteFile(ref.StdMeta(rs.Print(nil), "null", true), "null", [16]byte{4, 4}, blocks)
				mut := fmt.Sprintf("valid-file-uneven-records-%d-perblock=%v", si, perBlock)
				c.NontrivialN(1)
				guard(c, "ReadFile", "uneven-records", mut, data, func() {
					n := 0
					err := avro.ReadFile(&filedrv.Reader{Data: data}, unevenT{}, func(val unsafe.Pointer, rb *avro.ResourceBank) error {
						v := (*unevenT)(val)
						if n < len(seq) && (len(v.L) != seq[n][0] || len(v.M) != seq[n][1]) {
							panic(fmt.Sprintf("record %d delivered with %d items / %d entries, the file holds %d / %d", n, len(v.L), len(v.M), seq[n][0], seq[n][1]))
						}
						n++
						rb.Close()
						return nil
					})
					if err != nil || n != len(seq) {
						panic(fmt.Sprintf("valid file: err=%v, %d of %d records delivered", err, n, len(seq)))
					}
				})
			}
		}
		c.Sample(map[string]interface{}{"entry": "ReadFile", "kind": "uneven records, banks recycled"})
	}})
	// deep nesting: d levels of nullable arrays / maps / records around a leaf that is fine, unknown, or not
	// buildable; construction must be refused or finish — in time linear in the document
	depths := []int{4, 12, 24, 40, 64}
	ts = append(ts, task{"deeply-nested-schemas", func(c *fw.Ctx) {
		n := 0
		for _, d := range depths {
			for _, leaf := range []string{`"long"`, `"string"`, `"bogus"`, `"fixed"`, `{"type":"enum","name":"e","symbols":["A"]}`, `["null","long"]`, `"null"`} {
				for shape := 0; shape < 4; shape++ {
					doc := leaf
					for i := 0; i < d; i++ {
						switch (shape + i) % 4 * boolInt(shape != 0) {
						case 0:
							doc = `["null",{"type":"array","items":` + doc + `}]`
						case 1:
							doc = `{"type":"map","values":` + doc + `}`
						case 2:
							doc = fmt.Sprintf(`{"type":"record","name":"r%d","fields":[{"name":"x","type":%s}]}`, i, doc)
						default:
							doc = `[` + doc + `,"null"]`
							if i > 0 && strings.HasPrefix(doc, `[[`) {
								doc = `{"type":"array","items":` + doc[1:len(doc)-len(`,"null"]`)] + `}`
							}
						}
					}
					n++
					m := doc
					guard(c, "SchemaFromString+Schema.Codec", "schema-json", fmt.Sprintf("nesting-depth-%d", d), []byte(m), func() {
						s, err := avro.SchemaFromString(m)
						if err != nil {
							return
						}
						for _, fn := range []string{"a", "l", "t", "zz"} {
							one := avro.Schema{Type: "record", Object: &avro.SchemaObject{Name: "w1", Fields: []avro.SchemaRecordField{{Name: fn, Type: s}}}}
							if codec, err := one.Codec(anyStruct{}); err == nil {
								var v anyStruct
								codec.Read(avro.NewReadBuf([]byte{0, 0, 0, 0}), unsafe.Pointer(&v))
							}
						}
					})
				}
			}
		}
		c.NontrivialN(int64(n))
		c.Sample(map[string]interface{}{"entry": "SchemaFromString+Schema.Codec", "kind": "deep nesting", "depths": depths, "documents": n})
	}})
	return ts
}

func boolInt(b bool) int {
	if b {
		return 1
	}
	return 0
}

func tasks(tier string) []task {
	if t, ok := memo[tier]; ok {
		return t
	}
	var ts []task
	ts = append(ts, task{soloName, func(c *fw.Ctx) {
		for _, cc := range codecCases(tier) {
			if cc.node.Chain == "array>null" {
				in := []byte{0xfe, 0xff, 0xff, 0xff, 0x0f} // count 2^31-1, then end of input
				c.NontrivialN(1)
				guard(c, "Codec.Read", "array>null", "zero-size-item-flood", in, func() {
					v := reflect.New(cc.typ).Elem()
					cc.read.Read(avro.NewReadBuf(in), unsafe.Pointer(v.UnsafeAddr()))
				})
			}
		}
	}})
	ts = append(ts, codecTasks(tier)...)
	ts = append(ts, fileTasks(tier)...)
	ts = append(ts, schemaTasks(tier)...)
	ts = append(ts, timeTasks(tier)...)
	ts = append(ts, scaleTasks(tier)...)
	memo[tier] = ts
	return ts
}

func init() {
	fw.Register(&fw.Check{
		ID:    "C06",
		Level: "fault_enumeration",
		Rule: func(tier string) string {
			return "five entry points × three input families, all enumerated. Codec.Read and Codec.Skip of ~50 codecs (every schema of depth<=1 + selected depth-2 shapes; depth<=2 in thorough): every byte string of length<=2 over all 256 values and of length 3..5 (6 thorough) over {00,01,02,03,7f,80,fe,ff}; for every valid encoding (default and fully size-prefixed form) every annotated length/count/block-size/selector replaced by each of 20 values {0,±1,±2,true±1,-true,2^31-1,2^31,2^32,±2^40,2^62,MaxInt64,MinInt64,MinInt64+1,10-byte max varint,11-byte overflowing varint,truncated varint}, every truncation, every byte replaced by {00,7f,80,ff,b^01,b^80} (thorough: all pairs of field mutations). ReadFile: the same three mutation kinds on every framing varint (metadata counts/lengths, block count, block size) and byte of 36 reference-written files, record-level mutations inside blocks, structural cases (codec entry absent/unknown, raw blocks of 0..6 bytes under every codec, 21 malformed embedded schemas, raw strings as file / after magic / after a valid header). SchemaFromString followed by Schema.Codec (decoder construction) and a decode: truncations, token deletions/duplications, character and attribute-value replacements, every type name renamed to every other, token strings up to length 4. Timestamp text: raw strings and single/double character mutations of 6 valid timestamps. Oracle per call: no panic, no worker death, no watchdog expiry, heap allocated (runtime/metrics) <= 1 MiB + 1024×len(input); non-trivial = every distinct mutated input"
		},
		Assumptions: []string{
			"also: one file whose single block or single metadata value holds 1, 4 and 16 MiB — allocation may grow at most eightfold per fourfold input, whatever the constant (linear 4, quadratic 16); valid files whose records take 1 to 5000 items from banks that are closed and handed back at once; zero-size-item floods are recognised by a schema-directed walk, and for schemas whose zero-width-item array sits below the top every input holding a varint above 4096 anywhere is withheld (counted)",
			"allocation bound 1 MiB + 1024 × input length: legitimate in-memory/wire ratios here are below ~40 (deflate's theoretical 1032:1 cannot be reached by the enumerated inputs)",
			"'never hangs' is observed by the worker watchdog (no progress for 120 s while executions take microseconds)",
			"item schemas whose encoding can be empty (array of null) legitimately decode a huge declared count from a few bytes; such inputs are offered but counts above 2^31 on zero-size items are outside the proportionality claim (recorded interpretation)",
		},
		NumCases: func(tier string) int { return len(tasks(tier)) },
		RunCase: func(c *fw.Ctx, idx int) {
			t := tasks(c.Tier)[idx]
			c.Begin("c06", t.name)
			t.run(c)
		},
		Solo:     func(tier string, idx int) bool { return tasks(tier)[idx].name == soloName },
		MemLimit: 6 << 30,
		Budget:   func(tier string) time.Duration { return 40 * time.Minute },
	})
}

// Package c0102 holds C01 (encode-then-read round trip) and C02 (output is
// valid Avro for an independent reader); they share the case generator.
package c0102

import (
	"bytes"
	"fmt"
	"github.com/philpearl/avro"
	"io"
	"reflect"
	"strings"
	"time"
	"unsafe"

	"verifharness/dynenc"
	"verifharness/filedrv"
	"verifharness/fw"
	"verifharness/gv"
	"verifharness/ref"
	"verifharness/reg"
	"verifharness/statics"
	"verifharness/univ"
)

type probeCase struct {
	probe univ.Probe
	depth int
	// whole: the value alphabet consists of whole struct values (multi-field records), not of values of one probe field F
	whole bool
	newS  func(w io.Writer, comp string, bs int) (statics.Enc, error) // nil = dynamic
	// custom, when set, is the value alphabet of a whole-record probe (instead of wholeValues)
	custom []reflect.Value
}

// ManyAlloc: one record that takes dozens of pointed-to values of one type from its resource bank (the bank's
// per-type arenas start small and double)
type ManyAlloc struct {
	L []*int64           `json:"l"`
	M map[string]*string `json:"m"`
	P []*univ.Rec        `json:"p"`
}

// ZeroWidth: arrays whose items take no bytes on the wire (a record type without serialisable fields): the item
// count says nothing about how many bytes follow
type ZeroWidth struct {
	A int64        `json:"a"`
	E []struct{}   `json:"e"`
	H []hiddenOnly `json:"h"`
	Z int64        `json:"z"`
}

// LongKeys: map keys are strings too (length varints, interning, hashing)
type LongKeys struct {
	M map[string]int64 `json:"m"`
}

// CaseTwins: Avro names are case-sensitive, and so are Go's: fields whose names differ only in case are different
// fields, at the top level and in a nested record
type CaseTwins struct {
	Velocity int64  `json:"v"`
	Volume   int64  `json:"V"`
	ID       string
	Id       string
	In       struct {
		Ab *int64 `json:"ab"`
		AB *int64 `json:"AB"`
	} `json:"in"`
}

type hiddenOnly struct {
	Skip int64 `json:"-"`
	x    int64
}

func customProbes() []probeCase {
	var out []probeCase
	mkMany := func(nl, nm, np int) reflect.Value {
		v := ManyAlloc{M: map[string]*string{}}
		for i := 0; i < nl; i++ {
			x := int64(1000 + i)
			v.L = append(v.L, &x)
		}
		for i := 0; i < nm; i++ {
			x := fmt.Sprintf("v%d", i)
			v.M[fmt.Sprintf("k%03d", i)] = &x
		}
		for i := 0; i < np; i++ {
			r := univ.Values(reflect.TypeOf(univ.Rec{}), true)[1+i%2].Interface().(univ.Rec)
			v.P = append(v.P, &r)
		}
		return reflect.ValueOf(v)
	}
	mt := reflect.TypeOf(ManyAlloc{})
	out = append(out, probeCase{probe: univ.Probe{Name: "many allocations of one type in one record", Expr: &univ.Expr{Op: "struct", Elem: &univ.Expr{Op: "many-allocations"}}, Tag: `json:"f"`, Type: mt}, depth: 2, whole: true, newS: statics.NewFor[ManyAlloc](),
		custom: []reflect.Value{mkMany(40, 3, 2), mkMany(3, 40, 0), mkMany(70, 70, 35), mkMany(16, 17, 33), mkMany(1100, 1, 0)}})
	mkZero := func(ne, nh int) reflect.Value {
		return reflect.ValueOf(ZeroWidth{A: 7, E: make([]struct{}, ne), H: make([]hiddenOnly, nh), Z: -9})
	}
	zt := reflect.TypeOf(ZeroWidth{})
	out = append(out, probeCase{probe: univ.Probe{Name: "arrays of zero-width items", Expr: &univ.Expr{Op: "struct", Elem: &univ.Expr{Op: "zero-width-items"}}, Tag: `json:"f"`, Type: zt}, depth: 2, whole: true, newS: statics.NewFor[ZeroWidth](),
		custom: []reflect.Value{mkZero(3, 0), mkZero(0, 9), mkZero(100, 2), mkZero(9, 100)}})
	// a wide record (130 fields) and a map with one 70 000-byte key among 300 short ones
	mkWide := func(variant int) reflect.Value {
		v := reflect.New(reflect.TypeOf(Wide130{})).Elem()
		for i := 0; i < v.NumField(); i++ {
			if variant == 2 || (variant == 1 && i%2 == 0) {
				continue // zero / nil
			}
			f := v.Field(i)
			switch f.Kind() {
			case reflect.Int64:
				f.SetInt(int64(i*1000 + variant))
			case reflect.String:
				f.SetString(fmt.Sprintf("s%d-%d", i, variant))
			case reflect.Slice:
				f.SetBytes([]byte(fmt.Sprintf("b%d", i)))
			case reflect.Ptr:
				if f.Type().Elem().Kind() == reflect.Int64 {
					x := int64(-i)
					f.Set(reflect.ValueOf(&x))
				} else {
					x := fmt.Sprintf("p%d", i)
					f.Set(reflect.ValueOf(&x))
				}
			}
		}
		return v
	}
	out = append(out, probeCase{probe: univ.Probe{Name: "record of 130 fields", Expr: &univ.Expr{Op: "struct", Elem: &univ.Expr{Op: "wide-record"}}, Tag: `json:"f"`, Type: reflect.TypeOf(Wide130{})}, depth: 2, whole: true, newS: statics.NewFor[Wide130](),
		custom: []reflect.Value{mkWide(0), mkWide(1), mkWide(2)}})
	mkKeys := func(long int) reflect.Value {
		m := map[string]int64{string(bytes.Repeat([]byte("K"), long)): 1, "": 2}
		for i := 0; i < 300; i++ {
			m[fmt.Sprintf("k%03d", i)] = int64(i)
		}
		return reflect.ValueOf(LongKeys{M: m})
	}
	out = append(out, probeCase{probe: univ.Probe{Name: "map with very long and very many keys", Expr: &univ.Expr{Op: "struct", Elem: &univ.Expr{Op: "long-keys"}}, Tag: `json:"f"`, Type: reflect.TypeOf(LongKeys{})}, depth: 2, whole: true, newS: statics.NewFor[LongKeys](),
		custom: []reflect.Value{mkKeys(70000), mkKeys(3)}})
	mkTwins := func(k int64) reflect.Value {
		v := CaseTwins{Velocity: k, Volume: -k - 1, ID: fmt.Sprintf("upper-%d", k), Id: fmt.Sprintf("lower-%d", k)}
		x, y := k*7, k*11
		if k%2 == 0 {
			v.In.Ab = &x
		}
		if k%3 != 0 {
			v.In.AB = &y
		}
		return reflect.ValueOf(v)
	}
	out = append(out, probeCase{probe: univ.Probe{Name: "fields whose names differ only in case", Expr: &univ.Expr{Op: "struct", Elem: &univ.Expr{Op: "case-twins"}}, Tag: `json:"f"`, Type: reflect.TypeOf(CaseTwins{})}, depth: 2, whole: true, newS: statics.NewFor[CaseTwins](),
		custom: []reflect.Value{mkTwins(0), mkTwins(1), mkTwins(2), mkTwins(64)}})
	// a record type with nothing to serialise: every row takes zero bytes, and must still be counted and written
	et := reflect.TypeOf(struct{}{})
	out = append(out, probeCase{probe: univ.Probe{Name: "record without fields (zero-byte rows)", Expr: &univ.Expr{Op: "struct", Elem: &univ.Expr{Op: "zero-byte-rows"}}, Tag: `json:"f"`, Type: et}, depth: 2, whole: true, newS: statics.NewFor[struct{}](),
		custom: []reflect.Value{reflect.ValueOf(struct{}{}), reflect.ValueOf(struct{}{})}})
	return out
}

var memoP = map[string][]probeCase{}

func probes(tier string) []probeCase {
	if p, ok := memoP[tier]; ok {
		return p
	}
	var ps []probeCase
	for _, s := range statics.All {
		d := 0
		if s.Probe.Expr.Elem != nil {
			d = 1
		}
		ps = append(ps, probeCase{probe: s.Probe, depth: d, newS: s.New})
	}
	tags2 := []string{``, `json:"f,omitempty"`}
	if tier == "thorough" {
		tags2 = univ.TagVariants
	}
	for _, e := range univ.Exprs(2) {
		for _, tag := range tags2 {
			ps = append(ps, probeCase{probe: univ.DynProbe(e, tag), depth: 2})
		}
	}
	// dynamic twins of the depth<=1 universe (exercise SchemaForType/Schema.Codec by value) on one tag
	for d := 0; d <= 1; d++ {
		for _, e := range univ.Exprs(d) {
			ps = append(ps, probeCase{probe: univ.DynProbe(e, `json:"f,omitempty"`), depth: d})
		}
	}
	ps = append(ps, multiFieldProbes()...)
	ps = append(ps, customProbes()...)
	if tier == "thorough" {
		for _, e := range univ.Exprs(3) {
			ps = append(ps, probeCase{probe: univ.DynProbe(e, []string{``, `json:"f,omitempty"`}[len(e.Chain())%2]), depth: 3})
		}
	}
	memoP[tier] = ps
	return ps
}

type config struct {
	comp    string
	bs      int  // -1 = exact size of two records (resolved per sequence)
	flushes uint // bit i: flush after record i
	mode    int
	// refuse = j+1: the writer refuses (0 bytes, error) the first write of the explicit flush after record j,
	// once; the caller retries the flush and carries on. 0 = the writer never fails.
	refuse int
}

func (c config) String() string {
	s := fmt.Sprintf("codec=%s blocksize=%d flushmask=%b reader=%s", c.comp, c.bs, c.flushes, filedrv.ModeName(c.mode))
	if c.refuse > 0 {
		s += fmt.Sprintf(" first-write-of-flush-after-record-%d-refused-once-then-retried", c.refuse-1)
	}
	return s
}

var errRefused = fmt.Errorf("writer not ready (nothing consumed)")

// armWriter is a bytes.Buffer that, when armed, refuses exactly one write without consuming anything.
type armWriter struct {
	bytes.Buffer
	armed bool
	fired int
}

func (w *armWriter) Write(p []byte) (int, error) {
	if w.armed {
		w.armed = false
		w.fired++
		return 0, errRefused
	}
	return w.Buffer.Write(p)
}

type enc interface {
	Encode(p unsafe.Pointer) error
	Flush() error
}

func newEnc(pc probeCase, w io.Writer, comp string, bs int) (enc, error) {
	if pc.newS != nil {
		return pc.newS(w, comp, bs)
	}
	return dynenc.New(pc.probe.Type, w, comp, bs)
}

// which property the worker is deciding
type which int

const (
	doC01 which = 1
	doC02 which = 2
)

func mkRecord(pc probeCase, v reflect.Value) reflect.Value {
	r := reflect.New(pc.probe.Type).Elem()
	if pc.whole {
		r.Set(v)
		return r
	}
	univ.SetCanaries(r)
	univ.ProbeField(r).Set(v)
	return r
}

// pf returns the part of a record the alphabet ranges over: the probe field, or the whole record.
func pf(pc probeCase, r reflect.Value) reflect.Value {
	if pc.whole {
		return r
	}
	return univ.ProbeField(r)
}

// multiField builds records with six pointer fields over the given element types (allocation order matters for
// anything that hands out per-type storage), plus one with mixed collections.
func multiFieldProbes() []probeCase {
	i64, str := reflect.TypeOf(int64(0)), reflect.TypeOf("")
	var out []probeCase
	mk := func(name string, ts []reflect.Type) {
		var fs []reflect.StructField
		for i, t := range ts {
			fs = append(fs, reflect.StructField{Name: fmt.Sprintf("F%d", i+1), Type: t, Tag: reflect.StructTag(fmt.Sprintf(`json:"f%d"`, i+1))})
		}
		st := reflect.StructOf(fs)
		out = append(out, probeCase{probe: univ.Probe{Name: "multi-field " + name, Expr: &univ.Expr{Op: "struct", Elem: &univ.Expr{Op: name}}, Tag: `json:"f"`, Type: st}, depth: 2, whole: true})
	}
	for mask := 0; mask < 64; mask++ {
		var ts []reflect.Type
		name := ""
		for i := 0; i < 6; i++ {
			if mask&(1<<uint(i)) != 0 {
				ts = append(ts, reflect.PointerTo(str))
				name += "S"
			} else {
				ts = append(ts, reflect.PointerTo(i64))
				name += "I"
			}
		}
		mk("ptrs:"+name, ts)
	}
	mk("mixed-1", []reflect.Type{reflect.TypeOf([]*int64(nil)), reflect.PointerTo(str), reflect.PointerTo(i64), reflect.TypeOf(map[string]*string(nil)), reflect.PointerTo(i64), reflect.TypeOf((*[]string)(nil)), reflect.PointerTo(str), reflect.PointerTo(i64)})
	mk("mixed-2", []reflect.Type{reflect.PointerTo(reflect.TypeOf(univ.Rec{})), reflect.PointerTo(i64), reflect.TypeOf((**int64)(nil)), reflect.PointerTo(reflect.TypeOf(univ.Rec{})), reflect.TypeOf((*map[string]int64)(nil)), reflect.PointerTo(i64)})
	return out
}

// wholeValues: distinct non-nil values everywhere / alternating nil / all nil.
func wholeValues(t reflect.Type) []reflect.Value {
	var out []reflect.Value
	for variant := 0; variant < 4; variant++ {
		v := reflect.New(t).Elem()
		for i := 0; i < t.NumField(); i++ {
			fv := univ.Values(t.Field(i).Type, true)
			// skip the nil-ish first value unless the variant asks for it
			var pick reflect.Value
			switch variant {
			case 0:
				pick = fv[1+(i%(len(fv)-1))]
			case 1:
				if i%2 == 0 {
					pick = fv[0]
				} else {
					pick = fv[len(fv)-1]
				}
			case 2:
				if i%2 == 1 {
					pick = fv[0]
				} else {
					pick = fv[1+((i+3)%(len(fv)-1))]
				}
			default:
				pick = fv[0]
			}
			v.Field(i).Set(pick)
		}
		out = append(out, v)
	}
	return out
}

func seqDesc(vals []reflect.Value) string {
	s := "["
	for i, v := range vals {
		if i > 0 {
			s += ", "
		}
		s += gv.Show(v)
	}
	return s + "]"
}

// runOne encodes the value sequence under cfg and applies the oracle(s).
func runOne(c *fw.Ctx, w which, pc probeCase, vals []reflect.Value, cfg config) {
	c.Eval(1)
	chain := pc.probe.Expr.Chain()
	tagc := univ.TagClass(pc.probe.Tag)
	desc := fmt.Sprintf("%s values=%s %s", pc.probe.Name, seqDesc(vals), cfg)
	detail := map[string]interface{}{"type": pc.probe.Name, "values": seqDesc(vals), "config": cfg.String(), "static": pc.newS != nil}
	locusT := innermost(pc.probe.Expr) + "|" + tagc
	c.Begin(locusT, desc)
	recs := make([]reflect.Value, len(vals))
	for i, v := range vals {
		recs[i] = mkRecord(pc, v)
	}
	var buf armWriter
	var encErr error
	stage := "encode"
	if c.Guard(locusT+"|"+stage, desc, detail, func() {
		bs := cfg.bs
		if bs == -1 {
			// exact encoded size of the first two records: measured with a dry run
			var dry bytes.Buffer
			e, err := newEnc(pc, &dry, "null", 65536)
			if err != nil {
				encErr = err
				return
			}
			hdr := dry.Len()
			for i := 0; i < len(recs) && i < 2; i++ {
				e.Encode(unsafe.Pointer(recs[i].UnsafeAddr()))
			}
			e.Flush()
			p, perr := ref.ParseFile(dry.Bytes())
			bs = 1
			if perr == nil && len(p.Blocks) == 1 {
				bs = len(p.Blocks[0].Payload)
			}
			_ = hdr
		}
		e, err := newEnc(pc, &buf, cfg.comp, bs)
		if err != nil {
			encErr = fmt.Errorf("NewEncoderFor: %w", err)
			return
		}
		for i := range recs {
			if err := e.Encode(unsafe.Pointer(recs[i].UnsafeAddr())); err != nil {
				encErr = fmt.Errorf("Encode #%d: %w", i, err)
				return
			}
			if cfg.flushes&(1<<uint(i)) != 0 {
				if cfg.refuse == i+1 {
					// the writer turns this flush's first write away once; the error is C16's business, what
					// matters here is that a retried flush still delivers the pending records
					buf.armed = true
					e.Flush()
					buf.armed = false
				}
				if err := e.Flush(); err != nil {
					encErr = fmt.Errorf("Flush: %w", err)
					return
				}
			}
		}
		if err := e.Flush(); err != nil {
			encErr = fmt.Errorf("final Flush: %w", err)
		}
	}) {
		return
	}
	if encErr != nil {
		c.Violation("encoder-error|"+locusT, fmt.Sprintf("supported type, but %v — %s", encErr, desc), detail)
		return
	}
	// the source records must not have been modified by encoding
	for i := range recs {
		if bad := univ.CanariesIntact(recs[i], univ.Canary0, univ.Canary1, univ.Canary2); bad != "" {
			c.Violation("source-modified|"+locusT, fmt.Sprintf("encoding modified the excluded field next to the value (%s) — %s", bad, desc), detail)
			return
		}
	}
	out := buf.Bytes()
	c.Nontrivial(fmt.Sprintf("%s|%s|%s", pc.probe.Name, seqDesc(vals), cfg))
	if w == doC02 {
		checkC02(c, pc, recs, cfg, out, desc, detail, chain, tagc)
		return
	}
	checkC01(c, pc, recs, cfg, out, desc, detail, chain, tagc)
}

func innermost(e *univ.Expr) string {
	// the two innermost constructors of the type expression
	var parts []string
	for x := e; x != nil; x = x.Elem {
		parts = append(parts, x.Op)
	}
	if len(parts) > 2 {
		parts = parts[len(parts)-2:]
	}
	s := parts[0]
	for _, p := range parts[1:] {
		s += ">" + p
	}
	return s
}

func checkC01(c *fw.Ctx, pc probeCase, recs []reflect.Value, cfg config, out []byte, desc string, detail map[string]interface{}, chain, tagc string) {
	for pass := 0; pass < 4; pass++ {
		ptr := pass >= 1
		var res filedrv.Result
		target := "T"
		switch pass {
		case 0:
			res = filedrv.Read(out, cfg.mode, pc.probe.Type, false, -1, nil)
		case 1:
			res = filedrv.Read(out, cfg.mode, pc.probe.Type, true, -1, nil)
			target = "*T"
		case 3:
			// a streaming consumer: each record copied and its bank closed at once, so that later records are
			// decoded into recycled banks (what an earlier, bigger record left there must not show through)
			if len(recs) < 2 {
				continue
			}
			res = filedrv.ReadClosing(out, cfg.mode, pc.probe.Type)
			target = "T, every bank closed as soon as its record is copied"
		default:
			// the caller's own *T, already used for a read of the same file that was abandoned at the last record
			if len(recs) < 2 {
				continue
			}
			res = filedrv.ReadReusing(out, cfg.mode, pc.probe.Type, len(recs)-1)
			target = "a *T reused after an abandoned read"
		}
		_ = ptr
		locusT := innermost(pc.probe.Expr) + "|" + tagc
		if res.Panic != nil {
			c.Violation("panic:"+fw.PanicClass(res.Panic)+"@"+res.Site+"|read|"+locusT, fmt.Sprintf("ReadFile into %s panicked: %v — %s", target, res.Panic, desc), detail)
			continue
		}
		if res.Err != nil {
			c.Violation("read-error|"+locusT+"|"+firstValueClass(recs), fmt.Sprintf("ReadFile into %s failed on the encoder's own output: %v — %s", target, res.Err, desc), detail)
			continue
		}
		if len(res.Records) != len(recs) {
			c.Violation("wrong-record-count|"+locusT, fmt.Sprintf("%d records written, %d read back — %s", len(recs), len(res.Records), desc), detail)
			continue
		}
		for i := range recs {
			want := reflect.New(pc.probe.Type).Elem()
			want.Set(recs[i])
			f := pf(pc, want)
			if !pc.whole && tagc == "omitempty" && f.IsZero() && f.Kind() != reflect.Struct { // structs are never omitted (as in encoding/json)
				f.Set(reflect.Zero(f.Type()))
			}
			got := res.Records[i]
			if bad := univ.CanariesIntact(got, 0, 0, 0); bad != "" {
				c.Violation("decode-wrote-outside-field|"+locusT+"|"+gv.ValueClass(pf(pc, recs[i])), fmt.Sprintf("record %d: excluded neighbour field modified by decoding (%s) — %s", i, bad, desc), detail)
				break
			}
			if path, loc, vc := gv.DiffLocus(pf(pc, want), pf(pc, got)); path != "" {
				c.Violation("wrong-value|"+loc+"|"+vc, fmt.Sprintf("record %d read back into %s as %s, written %s (difference at %s) — %s", i, target, gv.Show(pf(pc, got)), gv.Show(pf(pc, recs[i])), path, desc), detail)
				break
			}
			// the record as the caller still holds it after the whole file has been read (struct copy taken in
			// the callback, bank never closed)
			if i < len(res.Retained) {
				if path, loc, vc := gv.DiffLocus(pf(pc, want), pf(pc, res.Retained[i])); path != "" {
					c.Violation("wrong-value-once-file-is-read|"+loc+"|"+vc, fmt.Sprintf("record %d was right when delivered, but the copy the caller kept reads %s after ReadFile returned, written %s (difference at %s) — %s", i, gv.Show(pf(pc, res.Retained[i])), gv.Show(pf(pc, recs[i])), path, desc), detail)
					break
				}
			}
		}
	}
}

func firstValueClass(recs []reflect.Value) string {
	if len(recs) == 0 {
		return "none"
	}
	return gv.ValueClass(recs[0])
}

func checkC02(c *fw.Ctx, pc probeCase, recs []reflect.Value, cfg config, out []byte, desc string, detail map[string]interface{}, chain, tagc string) {
	locusT := innermost(pc.probe.Expr) + "|" + tagc
	p, err := ref.ParseFile(out)
	if err != nil {
		c.Violation("container-invalid|"+locusT, fmt.Sprintf("the reference container parser rejects the output: %v — %s", err, desc), detail)
		return
	}
	if got := string(p.Meta["avro.codec"]); got != cfg.comp {
		c.Violation("wrong-codec-meta|"+locusT, fmt.Sprintf("avro.codec=%q, requested %q — %s", got, cfg.comp, desc), detail)
		return
	}
	s, err := ref.ParseSchema(p.Meta["avro.schema"])
	if err != nil {
		c.Violation("embedded-schema-invalid|"+locusT, fmt.Sprintf("embedded schema rejected by the reference parser: %v — %s", err, desc), detail)
		return
	}
	var datums []ref.Datum
	for bi, b := range p.Blocks {
		if b.Count <= 0 {
			c.Violation("empty-or-negative-block|"+locusT, fmt.Sprintf("block %d declares %d records — %s", bi, b.Count, desc), detail)
			return
		}
		ds, err := ref.DecodeAll(s, b.Payload, b.Count)
		if err != nil {
			// find the value class of the record the decoder stopped at
			idx := len(datums) + len(ds)
			vc := "?"
			if idx < len(recs) {
				vc = gv.ValueClass(pf(pc, recs[idx]))
			}
			c.Violation("payload-not-avro|"+locusT+"|"+vc, fmt.Sprintf("block %d (count %d, %d bytes: %x) is not the encoding of %d records under the embedded schema %s: %v — %s", bi, b.Count, len(b.Payload), clipB(b.Payload), b.Count, clipS(s.Print(nil)), err, desc), detail)
			return
		}
		datums = append(datums, ds...)
	}
	if len(datums) != len(recs) {
		c.Violation("wrong-record-count|"+locusT, fmt.Sprintf("%d records written, the file holds %d — %s", len(recs), len(datums), desc), detail)
		return
	}
	for i := range recs {
		want, err := gv.ToDatum(s, recs[i], false)
		if err != nil {
			if _, ok := err.(*gv.Unsupported); ok {
				c.Count("abstraction_undefined_not_judged", 1)
				continue
			}
			c.Violation("harness-abstraction-error|"+locusT, err.Error()+" — "+desc, detail)
			return
		}
		alt := want
		// a zero time.Time may be written either as null or as the year-1 string (recorded interpretation)
		if path, _ := ref.DatumDiff(s, want, datums[i]); path != "" {
			if alt2, err2 := gv.ToDatumEmptyNonNull(s, recs[i], false); err2 == nil && alt2.Equal(datums[i]) {
				c.Count("empty_nonnil_collection_written_nonnull_accepted", 1)
				continue
			}
		}
		if path, loc := ref.DatumDiff(s, want, datums[i]); path != "" {
			_ = alt
			kind := "value"
			switch {
			case strings.Contains(path, "union branch 0 vs 1"), strings.Contains(path, "union branch 1 vs 0"):
				kind = "union-branch"
			case strings.Contains(path, "length"):
				kind = "length"
			}
			sig := "wrong-datum|" + loc + "|" + kind
			if kind == "union-branch" && containsPtrToInvalid(pf(pc, recs[i])) {
				// identify the known defect by its input: a non-nil pointer to an invalid null.* wrapper
				sig = "wrong-datum|ptr>null.*|&invalid"
			}
			c.Violation(sig, fmt.Sprintf("record %d: an independent reader sees %s where %s was written (value %s; difference at %s) — %s", i, datums[i], want, gv.Show(pf(pc, recs[i])), path, desc), detail)
			return
		}
	}
}

// containsPtrToInvalid reports whether v contains a non-nil pointer to an invalid null.* wrapper.
func containsPtrToInvalid(v reflect.Value) bool {
	v = gv.Accessible(v)
	t := v.Type()
	if t == gv.TimeT || gv.IsNullWrapper(t) {
		return false
	}
	switch t.Kind() {
	case reflect.Ptr:
		if v.IsNil() {
			return false
		}
		if gv.IsNullWrapper(t.Elem()) {
			return !v.Elem().FieldByName("Valid").Bool()
		}
		return containsPtrToInvalid(v.Elem())
	case reflect.Slice:
		if t.Elem().Kind() == reflect.Uint8 {
			return false
		}
		for i := 0; i < v.Len(); i++ {
			if containsPtrToInvalid(v.Index(i)) {
				return true
			}
		}
	case reflect.Map:
		for _, k := range v.MapKeys() {
			if containsPtrToInvalid(v.MapIndex(k)) {
				return true
			}
		}
	case reflect.Struct:
		for i := 0; i < t.NumField(); i++ {
			if containsPtrToInvalid(v.Field(i)) {
				return true
			}
		}
	}
	return false
}

func clipB(b []byte) []byte {
	if len(b) > 40 {
		return b[:40]
	}
	return b
}

func clipS(s string) string {
	if len(s) > 160 {
		return s[:160] + "…"
	}
	return s
}

func runWhole(c *fw.Ctx, w which, idx int, pc probeCase) {
	vals := wholeValues(pc.probe.Type)
	if pc.custom != nil {
		vals = pc.custom
	}
	n := 0
	mode := func() int { n++; return (idx + n) % filedrv.NumReadModes }
	for _, a := range vals {
		runOne(c, w, pc, []reflect.Value{a}, config{comp: "null", bs: 65536, mode: mode()})
		for _, b := range vals {
			runOne(c, w, pc, []reflect.Value{a, b}, config{comp: "null", bs: 65536, mode: mode()})
			runOne(c, w, pc, []reflect.Value{a, b, a}, config{comp: "snappy", bs: 0, mode: mode()})
		}
	}
	if idx%53 == 0 {
		c.Sample(map[string]interface{}{"type": pc.probe.Name, "static_generic_encoder": false, "alphabet": len(vals), "example_sequence": seqDesc(vals[:1])})
	}
}

func runProbe(c *fw.Ctx, w which, idx int, pc probeCase) {
	if pc.whole {
		runWhole(c, w, idx, pc)
		return
	}
	ft := pc.probe.Expr.Type()
	full := univ.Values(ft, pc.depth <= 1)
	reps := univ.Values(ft, false)
	if len(reps) > 3 {
		reps = []reflect.Value{reps[0], reps[1], reps[len(reps)-1]}
	}
	big := config{comp: "null", bs: 65536}
	n := 0
	mode := func() int { n++; return (idx + n) % filedrv.NumReadModes }
	// (A) every sequence of length <= 2 over the full alphabet
	cfgA := big
	cfgA.mode = mode()
	runOne(c, w, pc, nil, cfgA)
	for _, a := range full {
		cfgA.mode = mode()
		runOne(c, w, pc, []reflect.Value{a}, cfgA)
	}
	if len(full) <= 24 || c.Tier == "thorough" {
		for _, a := range full {
			for _, b := range full {
				cfgA.mode = mode()
				runOne(c, w, pc, []reflect.Value{a, b}, cfgA)
			}
		}
	} else {
		for _, a := range full {
			for _, b := range reps {
				cfgA.mode = mode()
				runOne(c, w, pc, []reflect.Value{a, b}, cfgA)
				runOne(c, w, pc, []reflect.Value{b, a}, cfgA)
			}
		}
	}
	// (B) every length-3 sequence over the representatives × configurations
	comps := []string{"null", "deflate", "snappy"}
	bss := []int{0, 1, -1, 65536}
	if pc.depth >= 2 && c.Tier != "thorough" {
		comps = []string{"null"}
		bss = []int{0, 65536}
	}
	for _, a := range reps {
		for _, b := range reps {
			for _, d := range reps {
				seq := []reflect.Value{a, b, d}
				for _, comp := range comps {
					for _, bs := range bss {
						for fl := uint(0); fl < 4; fl++ {
							runOne(c, w, pc, seq, config{comp: comp, bs: bs, flushes: fl, mode: mode()})
						}
					}
				}
			}
		}
	}
	// (B') a writer that is not ready once: the first write of one explicit flush is refused without consuming
	// anything, the flush is retried, the history carries on; the file must come out as if nothing had happened
	for _, a := range reps {
		for _, b := range reps {
			for _, d := range reps {
				for j := 1; j <= 3; j++ {
					runOne(c, w, pc, []reflect.Value{a, b, d}, config{comp: comps[(n+j)%len(comps)], bs: 65536, flushes: 7, mode: mode(), refuse: j})
				}
			}
		}
	}
	// (C) blocks and records larger than the reader's 64 KiB read-ahead chunk (only for the plain string / bytes leaves)
	if pc.depth == 0 && (pc.probe.Expr.Op == "string" || pc.probe.Expr.Op == "[]byte") {
		mkBig := func(n int, seed byte) reflect.Value {
			b := make([]byte, n)
			for i := range b {
				b[i] = seed + byte(i*7) + byte(i>>8)
			}
			if pc.probe.Expr.Op == "string" {
				return reflect.ValueOf(string(b))
			}
			return reflect.ValueOf(b)
		}
		b1, b2 := mkBig(70000, 1), mkBig(66000, 9)
		small := reps[1]
		for _, comp := range []string{"null", "deflate", "snappy"} {
			for _, bs := range []int{0, 65536, 300000} {
				runOne(c, w, pc, []reflect.Value{b1, small, b2, small}, config{comp: comp, bs: bs, mode: mode()})
			}
		}
		// many small records in one block of more than 64 KiB
		var many []reflect.Value
		for i := 0; i < 400; i++ {
			many = append(many, mkBig(190+i%7, byte(i)))
		}
		for _, comp := range []string{"null", "snappy"} {
			runOne(c, w, pc, many, config{comp: comp, bs: 1 << 20, mode: filedrv.ModeFull})
		}
		// thousands of identical records in one block: the block compresses at the best ratio the codec can reach
		// (snappy ~21:1, deflate ~1000:1), which a reader-side plausibility bound must still admit
		same := make([]reflect.Value, 9000)
		for i := range same {
			same[i] = small
		}
		for _, comp := range []string{"null", "deflate", "snappy"} {
			runOne(c, w, pc, same, config{comp: comp, bs: 1 << 22, mode: filedrv.ModeFull})
		}
	}
	if idx%53 == 0 {
		c.Sample(map[string]interface{}{"type": pc.probe.Name, "static_generic_encoder": pc.newS != nil, "alphabet": len(full), "example_sequence": seqDesc(reps)})
	}
}

// runShards: ONE FileWriter producing several files (the API takes the destination on every call): headers to k
// destinations — by WriteHeader or by AppendHeader + a plain write — in every order, then single-row blocks dealt
// round-robin. Every file must be a complete container on its own: its blocks end with ITS header's sync marker,
// counts and sizes exact, rows as written.
func runShards(c *fw.Ctx, w which) {
	schema := ref.Record("S", ref.F("a", ref.Prim("long")))
	n := 0
	for _, comp := range []string{"null", "deflate", "snappy"} {
		for k := 1; k <= 3; k++ {
			for hdrMask := 0; hdrMask < 1<<uint(k); hdrMask++ { // bit i: shard i gets its header through AppendHeader
				for rows := 0; rows <= 4; rows++ {
					n++
					c.Eval(1)
					desc := fmt.Sprintf("one FileWriter (%s) writing %d files, headers via AppendHeader for shards %03b, %d single-row blocks dealt round-robin", comp, k, hdrMask, rows)
					locus := "FileWriter-shards|" + comp
					c.Begin(locus, desc)
					c.Nontrivial(desc)
					bufs := make([]bytes.Buffer, k)
					var werr error
					if c.Guard(locus, desc, desc, func() {
						fwr, err := avro.NewFileWriter([]byte(schema.Print(nil)), avro.Compression(comp))
						if err != nil {
							werr = err
							return
						}
						for i := 0; i < k; i++ {
							if hdrMask&(1<<uint(i)) != 0 {
								bufs[i].Write(fwr.AppendHeader(nil))
							} else if err := fwr.WriteHeader(&bufs[i]); err != nil {
								werr = err
								return
							}
						}
						for r := 0; r < rows; r++ {
							if err := fwr.WriteBlock(&bufs[r%k], 1, ref.AppendLong(nil, int64(100+r))); err != nil {
								werr = err
								return
							}
						}
					}) {
						continue
					}
					if werr != nil {
						c.Violation("encoder-error|"+locus, fmt.Sprintf("%v — %s", werr, desc), desc)
						continue
					}
					for i := 0; i < k; i++ {
						p, err := ref.ParseFile(bufs[i].Bytes())
						if err != nil {
							c.Violation("not-a-container|"+locus, fmt.Sprintf("file %d does not parse as a container file: %v — %s", i, err, desc), desc)
							break
						}
						want := 0
						for r := i; r < rows; r += k {
							want++
						}
						if len(p.Blocks) != want {
							c.Violation("wrong-block-count|"+locus, fmt.Sprintf("file %d holds %d blocks, %d were written to it — %s", i, len(p.Blocks), want, desc), desc)
							break
						}
						bad := false
						for bi, b := range p.Blocks {
							v, used, cl := ref.ReadLong(b.Payload)
							if b.Count != 1 || cl != ref.VOK || used != len(b.Payload) || v != int64(100+i+bi*k) {
								c.Violation("payload-not-avro|"+locus, fmt.Sprintf("file %d block %d: count %d payload %x, written row %d — %s", i, bi, b.Count, b.Payload, 100+i+bi*k, desc), desc)
								bad = true
								break
							}
						}
						if bad {
							break
						}
					}
				}
			}
		}
	}
	c.Sample(map[string]interface{}{"kind": "one FileWriter, several files", "histories": n})
}

// Registration history around NewEncoderFor: an encoder made AFTER a schema registration that changes what the row
// type's schema is must write rows that match the schema it puts into the header — whatever encoders were made for
// the same type before.
type RegPrice float64

type RegRow struct {
	A int64    `json:"a"`
	P RegPrice `json:"p"`
}

func runRegistrationHistory(c *fw.Ctx) {
	rows := []RegRow{{A: 1, P: 2.5}, {A: -7, P: 0}, {A: 3, P: -1e300}}
	write := func(step string) {
		for _, comp := range []string{"null", "snappy"} {
			c.Eval(1)
			desc := "NewEncoderFor[RegRow] " + step + " (" + comp + ")"
			locus := "registration-history|" + step
			c.Begin(locus, desc)
			c.Nontrivial(desc)
			c.Guard(locus, desc, desc, func() {
				var buf bytes.Buffer
				e, err := avro.NewEncoderFor[RegRow](&buf, avro.Compression(comp), 0)
				if err != nil {
					c.Violation("encoder-error|"+locus, fmt.Sprintf("%v — %s", err, desc), desc)
					return
				}
				for i := range rows {
					if err := e.Encode(&rows[i]); err != nil {
						c.Violation("encoder-error|"+locus, fmt.Sprintf("%v — %s", err, desc), desc)
						return
					}
				}
				e.Flush()
				p, err := ref.ParseFile(buf.Bytes())
				if err != nil {
					c.Violation("not-a-container|"+locus, fmt.Sprintf("%v — %s", err, desc), desc)
					return
				}
				hs, err := ref.ParseSchema(p.Meta["avro.schema"])
				if err != nil {
					c.Violation("schema-not-avro|"+locus, fmt.Sprintf("%v — %s", err, desc), desc)
					return
				}
				i := 0
				for _, b := range p.Blocks {
					ds, derr := ref.DecodeAll(hs, b.Payload, b.Count)
					if derr != nil {
						c.Violation("payload-not-avro|"+locus, fmt.Sprintf("under the schema in the header (%s) a block does not decode: %v — %s", p.Meta["avro.schema"], derr, desc), desc)
						return
					}
					for _, d := range ds {
						if i < len(rows) && (len(d.L) != 2 || d.L[0].I != rows[i].A) {
							c.Violation("wrong-datum|"+locus, fmt.Sprintf("row %d decodes as %s, written %+v — %s", i, d, rows[i], desc), desc)
							return
						}
						i++
					}
				}
				if i != len(rows) {
					c.Violation("wrong-record-count|"+locus, fmt.Sprintf("%d rows, %d written — %s", i, len(rows), desc), desc)
				}
			})
		}
	}
	write("before any registration")
	s, _ := avro.SchemaFromString(`["null","double"]`)
	avro.RegisterSchema(reflect.TypeOf(RegPrice(0)), s)
	write("after RegisterSchema(RegPrice, [null,double])")
	s2, _ := avro.SchemaFromString(`["double","null"]`)
	avro.RegisterSchema(reflect.TypeOf(RegPrice(0)), s2)
	write("after RegisterSchema(RegPrice, [double,null])")
}

// judgeRegRows: the independent reader's verdict on one output of an Encoder[RegRow].
func judgeRegRows(c *fw.Ctx, out []byte, rows []RegRow, locus, desc string) {
	p, err := ref.ParseFile(out)
	if err != nil {
		c.Violation("not-a-container|"+locus, fmt.Sprintf("%v — %s", err, desc), desc)
		return
	}
	hs, err := ref.ParseSchema(p.Meta["avro.schema"])
	if err != nil {
		c.Violation("schema-not-avro|"+locus, fmt.Sprintf("%v — %s", err, desc), desc)
		return
	}
	i := 0
	for _, b := range p.Blocks {
		ds, derr := ref.DecodeAll(hs, b.Payload, b.Count)
		if derr != nil {
			c.Violation("payload-not-avro|"+locus, fmt.Sprintf("under the schema in the header (%s) a block does not decode: %v — %s", p.Meta["avro.schema"], derr, desc), desc)
			return
		}
		for _, d := range ds {
			if i < len(rows) && (len(d.L) != 2 || d.L[0].I != rows[i].A) {
				c.Violation("wrong-datum|"+locus, fmt.Sprintf("row %d decodes as %s, written %+v — %s", i, d, rows[i], desc), desc)
				return
			}
			i++
		}
	}
	if i != len(rows) {
		c.Violation("wrong-record-count|"+locus, fmt.Sprintf("%d rows, %d written — %s", i, len(rows), desc), desc)
	}
}

type hookedBuf struct {
	bytes.Buffer
	n, at int
	hook  func()
}

func (w *hookedBuf) Write(p []byte) (int, error) {
	if w.n == w.at && w.hook != nil {
		h := w.hook
		w.hook = nil
		h()
	}
	w.n++
	return w.Buffer.Write(p)
}

// runTwoEncoders: two encoders of one compression codec alive at once, each with its own destination; B encodes a
// row (and emits its block) from inside A's at-th write. Independent encoders share nothing: each output, on its
// own, must satisfy the independent reader. Also: compression names the library does not know — if it accepts one
// and produces a file, that file must still be one the independent reader accepts.
func runTwoEncoders(c *fw.Ctx) {
	rowsA := []RegRow{{A: 101, P: 1.5}, {A: 102, P: 2.5}, {A: 103, P: 3.5}}
	rowsB := []RegRow{{A: -901, P: -1}, {A: -902, P: 1e300}, {A: -903, P: 0}}
	for _, comp := range []string{"null", "deflate", "snappy"} {
		for at := 0; at < 14; at++ {
			c.Eval(1)
			desc := fmt.Sprintf("two Encoder[RegRow] (%s, block size 0) with their own destinations; B encodes its rows one by one from inside A's write #%d, #%d, #%d", comp, at, at+1, at+2)
			locus := "two-encoders|" + comp
			c.Begin(locus, desc)
			c.Nontrivial(desc)
			c.Guard(locus, desc, desc, func() {
				var bufB bytes.Buffer
				bufA := &hookedBuf{at: -1}
				a, err := avro.NewEncoderFor[RegRow](bufA, avro.Compression(comp), 0)
				if err != nil {
					c.Violation("encoder-error|"+locus, fmt.Sprintf("%v — %s", err, desc), desc)
					return
				}
				b, err := avro.NewEncoderFor[RegRow](&bufB, avro.Compression(comp), 0)
				if err != nil {
					c.Violation("encoder-error|"+locus, fmt.Sprintf("%v — %s", err, desc), desc)
					return
				}
				nb := 0
				for i := range rowsA {
					bufA.at = bufA.n + (at+i)%5 // some write of the block this Encode emits
					bufA.hook = func() {
						if nb < len(rowsB) {
							b.Encode(&rowsB[nb])
							nb++
						}
					}
					if err := a.Encode(&rowsA[i]); err != nil {
						c.Violation("encoder-error|"+locus, fmt.Sprintf("%v — %s", err, desc), desc)
						return
					}
				}
				bufA.hook = nil
				for ; nb < len(rowsB); nb++ {
					b.Encode(&rowsB[nb])
				}
				a.Flush()
				b.Flush()
				judgeRegRows(c, bufA.Bytes(), rowsA, locus+"|A", desc)
				judgeRegRows(c, bufB.Bytes(), rowsB, locus+"|B", desc)
			})
		}
	}
	for _, comp := range []string{"", "NULL", "zstandard", "deflate ", "Snappy"} {
		c.Eval(1)
		desc := fmt.Sprintf("NewEncoderFor[RegRow] with the compression name %q, which names no codec of the specification's that the library implements", comp)
		locus := "unknown-compression-name"
		c.Begin(locus, desc)
		c.Nontrivial(desc)
		c.Guard(locus, desc, desc, func() {
			var buf bytes.Buffer
			e, err := avro.NewEncoderFor[RegRow](&buf, avro.Compression(comp), 0)
			if err != nil {
				c.Count("unknown_compression_names_refused", 1)
				return
			}
			for i := range rowsA {
				e.Encode(&rowsA[i])
			}
			e.Flush()
			judgeRegRows(c, buf.Bytes(), rowsA, locus, desc+" — accepted, and the file it produced")
		})
	}
}

func rule(tier string, what string) string {
	d := "depth<=1 statically (320 generated named types through the real generic NewEncoderFor[T]/Encoder[T]) and dynamically; depth 2 dynamically (reflect.StructOf; 256 expressions × 2 tags)"
	if tier == "thorough" {
		d = "depth<=1 statically (320 generated types through the real generic Encoder[T]) and dynamically; depth 2 (256 expressions × 4 tags) and depth 3 (1024 expressions) dynamically"
	}
	return "probe struct types struct{c0; F τ `tag`; c1; c2} with canary fields, τ over 16 leaves {bool,int,int16,int32,int64,float32,float64,string,[]byte,time.Time,null.Int/Bool/Float/String/Time,Rec} and wrappers {*τ,[]τ,map[string]τ,struct{X τ}}: " + d + "; per type: every value sequence of length<=2 over the full value alphabet, every length-3 sequence over 3 representatives × {null,deflate,snappy} × block size {0,1,size of two records,65536} × every subset of flush positions, reader rotating over {full reads, 1-byte reads, data+EOF, *bytes.Buffer, 16-byte *bufio.Reader, every other Read returning (0,nil)}; every length-3 sequence again with a flush after each record where the writer refuses the first write of one of the flushes once (nothing consumed) and the flush is retried; 66 multi-field record types (every arrangement of six *int64 / *string fields, and two mixed ones with slices, maps and nested pointers) with 4 value patterns in sequences of <=3 (allocation order inside one record); a record of 130 fields, a map with a 70 000-byte key among 300 others, a record type that takes 40–70 pointed-to values of one type from its bank, and one with arrays of up to 100 zero-width items (records without serialisable fields); a record with fields whose names differ only in case (top level and nested); one record taking 1100 allocations of one type from its bank; for the string and []byte leaves also records of 66–70 kB a 400-record block of >64 KiB (larger than the reader's read-ahead chunk) and a block of 9000 identical records (best-case compression ratio) under every codec; the file is read into T, into a fresh *T, into T with every bank closed as soon as its record is copied, and into a caller-owned *T already used by an earlier read that its callback abandoned at the last record; every record is compared twice: as deep-copied inside the callback, and as a plain struct copy kept by the caller until ReadFile has returned (banks left open); " + what + "; plus FileWriter used directly for 1–3 files at once (headers through WriteHeader or AppendHeader in every combination, 0–4 single-row blocks dealt round-robin), each file parsed on its own; encoders for one row type made before and after schema registrations that change its schema (rows must match the header each time); two encoders of one codec alive at once, B emitting its blocks from inside A's writes, each output judged on its own; compression names that name no implemented codec (accepted ⇒ the file must still satisfy the reader); a case is one (type, sequence, configuration); non-trivial = encoding succeeded and the output reached the oracle"
}

func register(id string, w which, level, what string, assumptions []string) {
	fw.Register(&fw.Check{
		ID:          id,
		Level:       level,
		Rule:        func(tier string) string { return rule(tier, what) },
		Assumptions: assumptions,
		Init:        func(c *fw.Ctx) { reg.Init() },
		NumCases:    func(tier string) int { return len(probes(tier)) + 1 },
		RunCase: func(c *fw.Ctx, idx int) {
			if idx == len(probes(c.Tier)) {
				runShards(c, w)
				runRegistrationHistory(c)
				runTwoEncoders(c)
				return
			}
			runProbe(c, w, idx, probes(c.Tier)[idx])
		},
		Budget: func(tier string) time.Duration { return 40 * time.Minute },
	})
}

func init() {
	register("C01", doC01, "exploration",
		"oracle: ReadFile into T and into *T returns nil, delivers the same number of records in order, each equal to the value written up to the documented normalisations, and the excluded canary fields of decoded records stay zero",
		[]string{
			"normalisations exactly as stated: nil≡empty slices/maps/byte strings, nil *[]T / *map ≡ pointer to empty (the schema has no null there), zero value in an omitempty field reads back as the zero value (-0.0 counts as zero), times by instant and UTC offset, NaN≡NaN, invalid null.* wrappers compare equal whatever their payload",
			"dynamic types use a line-by-line emulation of NewEncoderFor/Encode/Flush on the public API (SchemaForType, Schema.Codec, FileWriter); the real generic Encoder[T] is exercised by the 320 static types",
			"small-scope: nesting depth <=2 (3 thorough), one probe field per struct, sequences <=3 records",
		})
	register("C02", doC02, "exploration",
		"oracle: the output parses with the independent reference container parser (magic, metadata, exact counts and sizes, reference decompressors, sync), the embedded schema parses with the reference JSON parser, and each block decodes under that schema alone, with zero bytes left over, to exactly the datums gv.ToDatum assigns to the written values (union branch compared, so null vs zero is distinguished)",
		[]string{
			"abstraction function gv.ToDatum: nil pointer (at any level) / invalid null.* / zero omitempty value / zero time.Time ↦ null branch, everything else ↦ non-null branch; structs are never 'empty' (as in encoding/json); nil *[]T / *map ↦ empty collection",
			"reference decoder and decompressors (stdlib flate, golang/snappy) are trusted; map entry order is not compared",
		})
}

// Package c09: encoder output is an exact, gap-free sequence of blocks for any call history.
package c09

import (
	"bytes"
	"fmt"
	"github.com/philpearl/avro"
	"hash/fnv"
	"reflect"
	"time"
	"unsafe"
	"verifharness/explore"

	"verifharness/encdrv"
	"verifharness/fw"
	"verifharness/ref"
)

type config struct {
	k     encdrv.Kind
	codec string
	bs    int
	depth int
}

func configs(tier string) []config {
	var cs []config
	d1, d0 := 6, 8
	if tier == "thorough" {
		d1, d0 = 8, 12
	}
	for _, codec := range []string{"null", "deflate", "snappy"} {
		for _, bs := range []int{0, 1, 10, 11, 20, 1 << 20} {
			cs = append(cs, config{encdrv.K1, codec, bs, d1})
		}
		for _, bs := range []int{0, 1, 1 << 20} {
			cs = append(cs, config{encdrv.K0, codec, bs, d0})
		}
		// large records: block byte lengths in the two- and three-byte varint ranges
		for _, bs := range []int{0, 10000, 1 << 20} {
			cs = append(cs, config{encdrv.K1big, codec, bs, 4})
		}
		// one record above 1 MiB between small ones (state carried in the encoder's buffer from block to block)
		if codec != "deflate" {
			for _, bs := range []int{0, 4096} {
				cs = append(cs, config{encdrv.K1huge, codec, bs, 4})
			}
			// block sizes above 1 MiB: nothing may be emitted before the configured size is reached
			for _, bs := range []int{1<<20 + 1, 3 << 20} {
				cs = append(cs, config{encdrv.K1huge, codec, bs, 3})
			}
		}
	}
	return cs
}

var fixedSync = [16]byte{1, 2, 3, 4, 5, 6, 7, 8, 9, 10, 11, 12, 13, 14, 15, 16}

// normalise replaces the random sync marker by a fixed one so that outputs of
// different encoder instances are comparable.
func normalise(out []byte) []byte {
	p, err := ref.ParseFile(out)
	if err != nil {
		return out
	}
	return bytes.ReplaceAll(out, p.Sync[:], fixedSync[:])
}

// runHistory replays h on a fresh real encoder, stepping the model in
// lock-step and checking the output after every call from position `from` on.
// It returns the canonical state key after the last call.
func runHistory(c *fw.Ctx, cf config, h []int, from int) (key string, ok bool) {
	var buf bytes.Buffer
	desc := fmt.Sprintf("%s codec=%s blocksize=%d history=[%s]", cf.k.Name, cf.codec, cf.bs, encdrv.HistString(cf.k, h))
	locus := fmt.Sprintf("%s|bs=%s", cf.k.Name, bsClass(cf))
	ok = true
	c.Begin(locus, desc)
	detail := map[string]interface{}{"type": cf.k.Name, "codec": cf.codec, "blocksize": cf.bs, "history": encdrv.HistString(cf.k, h)}
	panicked := c.Guard(locus, desc, detail, func() {
		e, err := encdrv.New(cf.k, &buf, cf.codec, cf.bs)
		if err != nil {
			c.Violation("ctor-error|"+locus, "NewEncoderFor failed: "+err.Error()+" "+desc, detail)
			ok = false
			return
		}
		m := &encdrv.Model{K: cf.k, BlockSize: cf.bs}
		if len(h) == 0 {
			if sig, msg := m.CheckOutput(buf.Bytes(), cf.codec); sig != "" {
				c.Violation(sig+"|"+locus+"|after-header", msg+" — "+desc, detail)
				ok = false
			}
		}
		for i, op := range h {
			before := buf.Len()
			var err error
			if cf.k.IsFlush(op) {
				err = e.Flush()
			} else {
				err = e.Encode(op)
			}
			nblocks := len(m.Blocks)
			m.Step(op)
			if i < from {
				continue
			}
			c.Eval(1)
			if err != nil {
				c.Violation("spurious-error|"+locus, fmt.Sprintf("call %d returned %v — %s", i, err, desc), detail)
				ok = false
				return
			}
			after := "encode"
			if cf.k.IsFlush(op) {
				after = "flush"
				if nblocks == len(m.Blocks) && buf.Len() != before {
					c.Violation("flush-wrote-with-nothing-pending|"+locus, fmt.Sprintf("flush with nothing pending wrote %d bytes — %s", buf.Len()-before, desc), detail)
					ok = false
					return
				}
			}
			if sig, msg := m.CheckOutput(buf.Bytes(), cf.codec); sig != "" {
				c.Violation(sig+"|"+locus+"|after-"+after, fmt.Sprintf("after call %d: %s — %s", i, msg, desc), detail)
				ok = false
				return
			}
		}
		hh := fnv.New64a()
		hh.Write(normalise(buf.Bytes()))
		key = fmt.Sprintf("%d/%d/%x", len(m.Pending), m.PendBytes, hh.Sum64())
		// the pending bytes themselves matter for the future: include them
		for _, op := range m.Pending {
			key += fmt.Sprintf(",%d", op)
		}
	})
	if panicked {
		ok = false
	}
	return key, ok
}

func bsClass(cf config) string {
	switch {
	case cf.bs == 0:
		return "0"
	case cf.bs >= 1<<20:
		return "huge"
	case cf.bs == 1:
		return "1"
	}
	if cf.k.Name != encdrv.K1.Name {
		return "mid-large-records"
	}
	return "mid"
}

func runConfig(c *fw.Ctx, cf config) {
	// explicit-state BFS over histories; a state is represented by the
	// shortest history reaching it; successors are obtained by replaying that
	// history on a fresh encoder plus one operation.
	seen := map[string]bool{}
	k0, ok := runHistory(c, cf, nil, 0)
	if !ok {
		return
	}
	seen[k0] = true
	frontier := [][]int{{}}
	states, transitions := int64(1), int64(0)
	maxDepth := 0
	for depth := 0; depth < cf.depth && len(frontier) > 0; depth++ {
		var next [][]int
		for _, h := range frontier {
			for op := 0; op < cf.k.NumOps(); op++ {
				nh := append(append([]int(nil), h...), op)
				transitions++
				key, ok := runHistory(c, cf, nh, len(h))
				if !ok {
					continue
				}
				c.Nontrivial(fmt.Sprintf("%s/%s/%d/%v", cf.k.Name, cf.codec, cf.bs, nh))
				if !seen[key] {
					seen[key] = true
					states++
					next = append(next, nh)
					if len(nh) > maxDepth {
						maxDepth = len(nh)
					}
				}
			}
		}
		frontier = next
	}
	// closing step from every frontier state is covered by flush being in the alphabet.
	c.Count("states", states)
	c.Count("transitions", transitions)
	c.Count("traces_validated_against_impl", transitions)
	c.Max("max_depth", int64(maxDepth))
	c.Sample(map[string]interface{}{"type": cf.k.Name, "codec": cf.codec, "blocksize": cf.bs, "states": states, "transitions": transitions,
		"example_history": encdrv.HistString(cf.k, lastOr(frontier))})
}

// ---- block payloads of every size in a range (boundaries of whatever internal buffers the writer uses)

func pseudoASCII(n int, seed uint32) string {
	b := make([]byte, n)
	for i := range b {
		seed = seed*1664525 + 1013904223
		b[i] = 0x20 + byte((seed>>24)%95)
	}
	return string(b)
}

func sizeList(tier string) []int {
	var ls []int
	max := 1500
	if tier == "thorough" {
		max = 9000
	}
	for l := 0; l <= max; l++ {
		ls = append(ls, l)
	}
	for k := 11; k <= 17; k++ {
		for d := -4; d <= 4; d++ {
			if l := 1<<uint(k) + d; l > max {
				ls = append(ls, l)
			}
		}
	}
	return ls
}

// runSizes: for every record size L of the list (incompressible text, so the compressed block length sweeps the
// range too): encode(L), encode(L) with block size 0 — two single-record blocks — then encode(1B), flush.
func runSizes(c *fw.Ctx, codec string) {
	ls := sizeList(c.Tier)
	for _, l := range ls {
		k := encdrv.Kind{Name: "struct{S string} (size sweep)", Records: []string{pseudoASCII(l, uint32(l)+7), "z"}, Schema: encdrv.K1.Schema}
		cf := config{k, codec, 0, 4}
		if _, ok := runHistory(c, cf, []int{0, 0, 1, 2}, 0); ok {
			c.Nontrivial(fmt.Sprintf("size/%s/%d", codec, l))
		}
	}
	c.Count("states", int64(len(ls)))
	c.Count("transitions", int64(4*len(ls)))
	c.Count("traces_validated_against_impl", int64(4*len(ls)))
	c.Sample(map[string]interface{}{"kind": "record-size sweep", "codec": codec, "sizes": len(ls), "largest": ls[len(ls)-1]})
}

// ---- a writer that is not ready once

var errRefused = fmt.Errorf("writer not ready (nothing consumed)")

type armWriter struct {
	bytes.Buffer
	armed bool
	fired int
	skip  int // writes to let through before the refusal
}

func (w *armWriter) Write(p []byte) (int, error) {
	if w.armed && w.skip > 0 {
		w.skip--
		return w.Buffer.Write(p)
	}
	if w.armed {
		w.armed = false
		w.fired++
		return 0, errRefused
	}
	return w.Buffer.Write(p)
}

// runRefused: every history up to the depth, and in it every explicit flush that has records pending: the writer
// refuses that flush's first write once without consuming anything; the flush is called again. "A block is
// emitted whenever flush is called with records pending, so after flush returns nothing remains buffered; no
// record is lost" — the retried flush must emit exactly the block, and the rest of the history must go on as in
// the model.
func runRefused(c *fw.Ctx, cf config) {
	var n, trans int64
	var hist func(h []int)
	run := func(h []int, at int) {
		desc := fmt.Sprintf("%s codec=%s blocksize=%d history=[%s], first write of call %d (flush) refused once, flush retried", cf.k.Name, cf.codec, cf.bs, encdrv.HistString(cf.k, h), at)
		locus := fmt.Sprintf("%s|bs=%s|refused-flush", cf.k.Name, bsClass(cf))
		detail := map[string]interface{}{"type": cf.k.Name, "codec": cf.codec, "blocksize": cf.bs, "history": encdrv.HistString(cf.k, h), "refused_call": at}
		c.Eval(1)
		c.Begin(locus, desc)
		c.Guard(locus, desc, detail, func() {
			var w armWriter
			e, err := encdrv.New(cf.k, &w, cf.codec, cf.bs)
			if err != nil {
				c.Violation("ctor-error|"+locus, err.Error()+" — "+desc, detail)
				return
			}
			m := &encdrv.Model{K: cf.k, BlockSize: cf.bs}
			for i, op := range h {
				trans++
				if i == at && !cf.k.IsFlush(op) {
					// the refused write is the first one of the block this Encode completes by size: the call
					// reports the failure; the record stays pending and goes out with the next block
					w.armed = true
					e.Encode(op)
					w.armed = false
					if w.fired == 0 {
						c.Violation("harness-refusal-not-reached|"+locus, desc, detail)
						return
					}
					m.StepNoEmit(op)
					if sig, msg := m.CheckOutput(w.Bytes(), cf.codec); sig != "" {
						c.Violation(sig+"|"+locus, fmt.Sprintf("after call %d (refused size-triggered flush): %s — %s", i, msg, desc), detail)
						return
					}
					continue
				}
				if i == at {
					w.armed = true
					e.Flush() // refused; what it returns is C16's business
					w.armed = false
					if w.fired == 0 {
						c.Violation("harness-refusal-not-reached|"+locus, desc, detail)
						return
					}
				}
				if cf.k.IsFlush(op) {
					err = e.Flush()
				} else {
					err = e.Encode(op)
				}
				m.Step(op)
				if err != nil {
					c.Violation("spurious-error|"+locus, fmt.Sprintf("call %d returned %v — %s", i, err, desc), detail)
					return
				}
				if sig, msg := m.CheckOutput(w.Bytes(), cf.codec); sig != "" {
					c.Violation(sig+"|"+locus, fmt.Sprintf("after call %d: %s — %s", i, msg, desc), detail)
					return
				}
			}
			c.Nontrivial(desc)
			n++
		})
	}
	// a LATER write of the flush's block is refused (after j writes went through): the stream is torn, and what the
	// call returns is C16's business — but if it reports success, the output must be the model's block sequence
	runLater := func(h []int, at, j int) {
		desc := fmt.Sprintf("%s codec=%s blocksize=%d history=[%s], write %d of the block of call %d (flush) refused", cf.k.Name, cf.codec, cf.bs, encdrv.HistString(cf.k, h), j+1, at)
		locus := fmt.Sprintf("%s|bs=%s|refused-later-write", cf.k.Name, bsClass(cf))
		detail := map[string]interface{}{"type": cf.k.Name, "codec": cf.codec, "blocksize": cf.bs, "history": encdrv.HistString(cf.k, h), "refused_call": at, "writes_let_through": j}
		c.Eval(1)
		c.Begin(locus, desc)
		c.Guard(locus, desc, detail, func() {
			var w armWriter
			e, err := encdrv.New(cf.k, &w, cf.codec, cf.bs)
			if err != nil {
				return
			}
			m := &encdrv.Model{K: cf.k, BlockSize: cf.bs}
			for i, op := range h {
				trans++
				if i == at {
					w.armed, w.skip = true, j
				}
				if cf.k.IsFlush(op) {
					err = e.Flush()
				} else {
					err = e.Encode(op)
				}
				w.armed = false
				m.Step(op)
				if err != nil {
					return // reported: nothing further is claimed about this stream here
				}
				if sig, msg := m.CheckOutput(w.Bytes(), cf.codec); sig != "" {
					c.Violation("success-reported-"+sig+"|"+locus, fmt.Sprintf("every call so far returned nil, yet after call %d: %s — %s", i, msg, desc), detail)
					return
				}
			}
			c.Nontrivial(desc)
			n++
		})
	}
	hist = func(h []int) {
		// which calls of h are flushes with records pending?
		m := &encdrv.Model{K: cf.k, BlockSize: cf.bs}
		for i, op := range h {
			if cf.k.IsFlush(op) && len(m.Pending) > 0 {
				run(h, i)
				for j := 1; j <= 5; j++ {
					runLater(h, i, j)
				}
			}
			if !cf.k.IsFlush(op) && m.PendBytes+len(cf.k.RecordBytes(op)) >= cf.bs {
				run(h, i) // this Encode completes a block by size: its first write is refused
			}
			m.Step(op)
		}
		if len(h) == cf.depth {
			return
		}
		for op := 0; op < cf.k.NumOps(); op++ {
			hist(append(append([]int(nil), h...), op))
		}
	}
	hist(nil)
	c.Count("states", n)
	c.Count("transitions", trans)
	c.Count("traces_validated_against_impl", trans)
	c.Sample(map[string]interface{}{"kind": "refused first write of a flush, flush retried", "type": cf.k.Name, "codec": cf.codec, "blocksize": cf.bs, "histories_with_a_refused_flush": n})
}

// ---- two encoders alive at once: encoder A's writer, in the middle of one of A's writes, drives encoder B (same
// codec, own destination) through an encode that emits a block. Independent encoders share nothing: both outputs
// must be what their own histories say.

type hookWriter struct {
	bytes.Buffer
	n    int
	at   int
	hook func()
}

func (w *hookWriter) Write(p []byte) (int, error) {
	if w.n == w.at && w.hook != nil {
		h := w.hook
		w.hook = nil
		h()
	}
	w.n++
	return w.Buffer.Write(p)
}

func runInterleaved(c *fw.Ctx, codec string) {
	k := encdrv.K1
	hA := []int{1, 2, 3, 1, 3} // encode(10B) encode(41B) flush encode(10B) flush  (block size 2^20: blocks at the flushes)
	var n int64
	// learn the number of writes of A's history
	var probe hookWriter
	probe.at = -1
	if e, err := encdrv.New(k, &probe, codec, 1<<20); err == nil {
		for _, op := range hA {
			if k.IsFlush(op) {
				e.Flush()
			} else {
				e.Encode(op)
			}
		}
	}
	for at := 0; at < probe.n; at++ {
		for _, bOps := range [][]int{{2}, {1, 2}, {2, 3, 1}} {
			n++
			c.Eval(1)
			desc := fmt.Sprintf("encoder A (%s, history %s) and encoder B (history %s, block size 0) — B runs inside A's write #%d", codec, encdrv.HistString(k, hA), encdrv.HistString(k, bOps), at)
			locus := "two-encoders|" + codec
			det := map[string]interface{}{"codec": codec, "at_write": at, "b_history": encdrv.HistString(k, bOps)}
			c.Begin(locus, desc)
			c.Nontrivial(desc)
			c.Guard(locus, desc, det, func() {
				var wa hookWriter
				var wb bytes.Buffer
				wa.at = at
				ea, err := encdrv.New(k, &wa, codec, 1<<20)
				if err != nil {
					c.Violation("ctor-error|"+locus, err.Error(), det)
					return
				}
				eb, err := encdrv.New(k, &wb, codec, 0)
				if err != nil {
					c.Violation("ctor-error|"+locus, err.Error(), det)
					return
				}
				mb := &encdrv.Model{K: k, BlockSize: 0}
				var berr error
				wa.hook = func() {
					for _, op := range bOps {
						var err error
						if k.IsFlush(op) {
							err = eb.Flush()
						} else {
							err = eb.Encode(op)
						}
						mb.Step(op)
						if err != nil && berr == nil {
							berr = err
						}
					}
				}
				// the header write is write 0: re-arm the counter so that `at` counts all of A's writes
				ma := &encdrv.Model{K: k, BlockSize: 1 << 20}
				for i, op := range hA {
					var err error
					if k.IsFlush(op) {
						err = ea.Flush()
					} else {
						err = ea.Encode(op)
					}
					ma.Step(op)
					if err != nil {
						c.Violation("spurious-error|"+locus, fmt.Sprintf("A's call %d returned %v — %s", i, err, desc), det)
						return
					}
				}
				if berr != nil {
					c.Violation("spurious-error|"+locus, fmt.Sprintf("B returned %v — %s", berr, desc), det)
					return
				}
				if sig, msg := ma.CheckOutput(wa.Bytes(), codec); sig != "" {
					c.Violation(sig+"|"+locus+"|encoder-A", "encoder A: "+msg+" — "+desc, det)
					return
				}
				if wa.hook == nil { // B really ran
					if sig, msg := mb.CheckOutput(wb.Bytes(), codec); sig != "" {
						c.Violation(sig+"|"+locus+"|encoder-B", "encoder B: "+msg+" — "+desc, det)
					}
				}
			})
		}
	}
	c.Count("states", n)
	c.Count("transitions", n*int64(len(hA)))
	c.Count("traces_validated_against_impl", n*int64(len(hA)))
	c.Sample(map[string]interface{}{"kind": "two encoders, B driven from inside A's writes", "codec": codec, "interleavings": n})
}

// runLong: one long history per codec and block size — thousands of calls, so that whatever grows, shrinks, wraps or
// is cached "every so often" inside the encoder gets its chance; the model is checked after every 97th call and at
// the end.
func runLong(c *fw.Ctx, codec string) {
	k := encdrv.K1
	for _, bs := range []int{0, 100, 5000, 1 << 20} {
		cf := config{k, codec, bs, 0}
		desc := fmt.Sprintf("%s codec=%s blocksize=%d long history (6000 calls)", k.Name, codec, bs)
		locus := fmt.Sprintf("%s|bs=%s|long-history", k.Name, bsClass(cf))
		c.Eval(1)
		c.Begin(locus, desc)
		c.Nontrivial(desc)
		c.Guard(locus, desc, desc, func() {
			var buf bytes.Buffer
			e, err := encdrv.New(k, &buf, codec, bs)
			if err != nil {
				c.Violation("ctor-error|"+locus, err.Error(), desc)
				return
			}
			m := &encdrv.Model{K: k, BlockSize: bs}
			seed := uint32(bs + 1)
			for i := 0; i < 6000; i++ {
				seed = seed*1664525 + 1013904223
				op := int(seed>>24) % (k.NumOps() + 2) // flushes are rarer than encodes
				if op >= k.NumOps() {
					op = int(seed>>16) % (k.NumOps() - 1)
				}
				var err error
				if k.IsFlush(op) {
					err = e.Flush()
				} else {
					err = e.Encode(op)
				}
				m.Step(op)
				if err != nil {
					c.Violation("spurious-error|"+locus, fmt.Sprintf("call %d returned %v — %s", i, err, desc), desc)
					return
				}
				if i%97 == 0 || i == 5999 {
					if sig, msg := m.CheckOutput(buf.Bytes(), codec); sig != "" {
						c.Violation(sig+"|"+locus, fmt.Sprintf("after call %d: %s — %s", i, msg, desc), desc)
						return
					}
				}
			}
		})
	}
	// one block of very many records: 2^16-1, 2^16, 2^16+1, 70000 and 2^17+3 one-byte records pending, then flush
	for _, nrec := range []int{1<<14 - 1, 1 << 14, 1<<16 - 1, 1 << 16, 1<<16 + 1, 70000, 1<<17 + 3} {
		bs := 8 << 20
		cf := config{k, codec, bs, 0}
		desc := fmt.Sprintf("%s codec=%s blocksize=%d: %d one-byte records encoded, then flush", k.Name, codec, bs, nrec)
		locus := fmt.Sprintf("%s|bs=%s|many-records-in-one-block", k.Name, bsClass(cf))
		c.Eval(1)
		c.Begin(locus, desc)
		c.Nontrivial(desc)
		c.Guard(locus, desc, desc, func() {
			var buf bytes.Buffer
			e, err := encdrv.New(k, &buf, codec, bs)
			if err != nil {
				c.Violation("ctor-error|"+locus, err.Error(), desc)
				return
			}
			m := &encdrv.Model{K: k, BlockSize: bs}
			for i := 0; i < nrec; i++ {
				if err := e.Encode(0); err != nil {
					c.Violation("spurious-error|"+locus, fmt.Sprintf("encode %d returned %v — %s", i, err, desc), desc)
					return
				}
				m.Step(0)
			}
			for r := 0; r < 2; r++ {
				if err := e.Flush(); err != nil {
					c.Violation("spurious-error|"+locus, fmt.Sprintf("flush returned %v — %s", err, desc), desc)
					return
				}
				m.Step(k.NumOps() - 1)
				if sig, msg := m.CheckOutput(buf.Bytes(), codec); sig != "" {
					c.Violation(sig+"|"+locus, fmt.Sprintf("after flush %d: %s — %s", r+1, msg, desc), desc)
					return
				}
			}
		})
	}
	c.Count("states", 4)
	c.Count("transitions", 4*6000)
	c.Count("traces_validated_against_impl", 4*6000)
	c.Sample(map[string]interface{}{"kind": "long histories", "codec": codec, "calls_each": 6000, "block_sizes": []int{0, 100, 5000, 1 << 20}})
}

// ---- an encode that does not happen: a registered codec that refuses a value by panicking before it has written
// anything (a validating codec), the caller recovers and carries on. Nothing was encoded, so nothing may be counted.

type Picky int64

type PickyRow struct {
	V Picky `json:"v"`
}

type pickyCodec struct{ avro.Int64Codec }

func (pickyCodec) Write(w *avro.WriteBuf, p unsafe.Pointer) {
	if *(*int64)(p) < 0 {
		panic("picky: negative values are not accepted")
	}
	(avro.Int64Codec{}).Write(w, p)
}

func runPanickingEncode(c *fw.Ctx, codec string) {
	avro.RegisterSchema(reflect.TypeOf(Picky(0)), avro.Schema{Type: "long"})
	avro.Register(reflect.TypeOf(Picky(0)), func(s avro.Schema, t reflect.Type, omit bool) (avro.Codec, error) { return pickyCodec{}, nil })
	var n int64
	// alphabet: 0 encode(7), 1 encode(-1) — panics, recovered —, 2 flush; block size 2^20 and 0
	for _, bs := range []int{0, 1 << 20} {
		for l := 1; l <= 5; l++ {
			explore.Sequences(3, l, func(h []int) {
				n++
				c.Eval(1)
				desc := fmt.Sprintf("Encoder[PickyRow] codec=%s blocksize=%d history=%v (0 encode(7), 1 encode(-1): the codec panics, the caller recovers, 2 flush)", codec, bs, h)
				locus := "panicking-codec|" + codec
				c.Begin(locus, desc)
				c.Nontrivial(desc)
				c.Guard(locus, desc, desc, func() {
					var buf bytes.Buffer
					e, err := avro.NewEncoderFor[PickyRow](&buf, avro.Compression(codec), bs)
					if err != nil {
						c.Violation("ctor-error|"+locus, err.Error(), desc)
						return
					}
					var want [][]int64 // blocks
					var pending []int64
					for _, op := range h {
						switch op {
						case 0:
							if err := e.Encode(&PickyRow{V: 7}); err != nil {
								c.Violation("spurious-error|"+locus, err.Error()+" — "+desc, desc)
								return
							}
							pending = append(pending, 7)
							if bs == 0 {
								want, pending = append(want, pending), nil
							}
						case 1:
							func() {
								defer func() { recover() }()
								e.Encode(&PickyRow{V: -1})
							}()
						default:
							if err := e.Flush(); err != nil {
								c.Violation("spurious-error|"+locus, err.Error()+" — "+desc, desc)
								return
							}
							if len(pending) > 0 {
								want, pending = append(want, pending), nil
							}
						}
					}
					p, err := ref.ParseFile(buf.Bytes())
					if err != nil {
						c.Violation("unparseable|"+locus, fmt.Sprintf("%v — %s", err, desc), desc)
						return
					}
					if len(p.Blocks) != len(want) {
						c.Violation("block-count|"+locus, fmt.Sprintf("%d blocks emitted, %d expected — %s", len(p.Blocks), len(want), desc), desc)
						return
					}
					for i, b := range p.Blocks {
						var exp []byte
						for _, v := range want[i] {
							exp = ref.AppendLong(exp, v)
						}
						if b.Count != int64(len(want[i])) || string(b.Payload) != string(exp) {
							c.Violation("record-count|"+locus, fmt.Sprintf("block %d declares %d records with payload %x; it holds %d records (%x) — %s", i, b.Count, b.Payload, len(want[i]), exp, desc), desc)
							return
						}
					}
				})
			})
		}
	}
	c.Count("states", n)
	c.Count("transitions", n*3)
	c.Count("traces_validated_against_impl", n*3)
	c.Sample(map[string]interface{}{"kind": "encode that panics in a registered codec and is recovered", "codec": codec, "histories": n})
}

func lastOr(f [][]int) []int {
	if len(f) == 0 {
		return nil
	}
	return f[len(f)-1]
}

func init() {
	fw.Register(&fw.Check{
		ID:    "C09",
		Level: "model_checking",
		Rule: func(tier string) string {
			d1, d0 := 6, 8
			if tier == "thorough" {
				d1, d0 = 8, 12
			}
			return fmt.Sprintf("explicit-state BFS over call histories of the real Encoder[T]: alphabet {encode(1B), encode(10B), encode(41B), flush} to depth %d for struct{S string} with block sizes {0,1,10,11,20,2^20}, the same with records of 102/9002/20003 bytes (block lengths in the 2- and 3-byte varint ranges) and with a 1.3 MB record between small ones (depth 4), and {encode(0B), flush} to depth %d for struct{} with block sizes {0,1,2^20}, × {null,deflate,snappy}; plus a sweep of every record size 0..1500 bytes (9000 thorough) and 2^k±4 up to 128 KiB of incompressible text (so the compressed block length sweeps the range as well) as two single-record blocks; plus every history of depth<=4 (5) over block sizes {0,10,2^20} in which, for every explicit flush with records pending, the writer refuses that flush's first write once (nothing consumed) and the flush is retried, and for every encode that completes a block by size the same refusal (the record must stay pending and go out with the next block), and for every such flush also a refusal of its block's 2nd..6th write (the stream is torn; if the call nevertheless reports success the output must still be the model's); plus two independent encoders of one codec alive at once, B driven to emit blocks from inside each of A's writes in turn; plus block sizes just above and well above 1 MiB with a 1.3 MB record; plus every history of <=5 calls over {encode, an encode whose registered codec panics before writing (recovered by the caller), flush}; plus one fixed pseudo-random history of 6000 calls per codec and block size {0,100,5000,2^20}, model checked every 97 calls, and single blocks of 2^14-1, 2^14, 2^16-1, 2^16, 2^16+1, 70000 and 2^17+3 one-byte records followed by two flushes; successor = replay of the shortest history on a fresh encoder + one call; states deduplicated on (pending records, sync-normalised output hash); after every call the whole output is parsed by the reference container parser and compared with the lock-step model {pending []record}; distinct_nontrivial counts distinct (config, history) pairs checked", d1, d0)
		},
		Assumptions: []string{
			"records are drawn from a 3-size alphabet (1, 10, 41 encoded bytes) plus the zero-byte record; larger records and other block sizes are not explored",
			"canonical state = (pending record list, hash of all output with the random sync marker normalised): Encoder holds no other mutable state that influences the future (count, wb, compressor scratch overwritten per block)",
			"reference container parser / decompressors (stdlib flate, golang/snappy) are trusted",
		},
		NumCases: func(tier string) int { return len(configs(tier)) + 3 + 9 + 3 + 3 + 3 },
		RunCase: func(c *fw.Ctx, idx int) {
			n := len(configs(c.Tier))
			codecs := []string{"null", "deflate", "snappy"}
			if idx >= n+3+9+3+3 {
				c.Begin("c09", "panicking codec "+codecs[idx-n-18])
				runPanickingEncode(c, codecs[idx-n-18])
				return
			}
			if idx >= n+3+9+3 {
				c.Begin("c09", "long history "+codecs[idx-n-15])
				runLong(c, codecs[idx-n-15])
				return
			}
			if idx >= n+3+9 {
				c.Begin("c09", "two encoders "+codecs[idx-n-12])
				runInterleaved(c, codecs[idx-n-12])
				return
			}
			if idx >= n+3 {
				j := idx - n - 3
				d := 4
				if c.Tier == "thorough" {
					d = 5
				}
				cf := config{encdrv.K1, codecs[j/3], []int{0, 10, 1 << 20}[j%3], d}
				c.Begin("c09", fmt.Sprintf("refused flush %s bs=%d", cf.codec, cf.bs))
				runRefused(c, cf)
				return
			}
			if idx >= n {
				c.Begin("c09", "size sweep "+codecs[idx-n])
				runSizes(c, codecs[idx-n])
				return
			}
			cf := configs(c.Tier)[idx]
			c.Begin("c09", fmt.Sprintf("%s %s bs=%d", cf.k.Name, cf.codec, cf.bs))
			runConfig(c, cf)
		},
		Budget: func(tier string) time.Duration { return 30 * time.Minute },
	})
}
